#!/usr/bin/env python3
"""Writes MANIFEST.json from the table below (kept in one place so that it stays valid)."""
import json, subprocess

CLAIMED = {
    "C11": dict(
        text="Machine-checked proof (Lean 4) that decoding the encoding of every mesh in the codec's domain returns the same mesh: "
             "LZ4 round trip for all byte strings, bincode round trip for all well-typed values, glue round trip for all meshes; "
             "tied to the code by the MeshData descriptor regenerated from mesh_serde.rs and byte-exact differential runs of mesh_to_bin / bin_to_mesh (valid and malformed inputs).",
        note="Trusted: Lean kernel + propext/Classical.choice/Quot.sound; hand-written model tied by sampled byte-exact correspondence; translator; harness. lz4-compression/bincode/bevy Mesh API are modelled, not verified.",
        technique="Lean 4 proof (induction over LZ4 block stream and typed bincode universe) + differential correspondence", ref="§7 C11"),
    "C12": dict(
        text="Machine-checked proof that every well-typed value of every serde/bincode wire shape, every reflect-serialised component/material (path + value) and every one of the 12 protocol messages "
             "decodes back to itself and re-encodes to the same bytes; tied to the code by the Message descriptor regenerated from proto.rs/lib.rs, run-time descriptors from bevy TypeInfo, and byte-exact differential runs of "
             "bincode(Message), reflect_to_bin / bin_to_reflect.",
        note="Trusted: Lean kernel + standard axioms; bevy_reflect's serializer traversal, serde derive and bincode are modelled and tied by sampled byte-exact correspondence; FromReflect reconstruction is oracle-only.",
        technique="Lean 4 proof (mutual structural induction on the typed wire universe) + differential correspondence", ref="§7 C12"),
    "C13": dict(
        text="Machine-checked proof that decoding the encoding of every image (any size incl. empty, D1/D2/D3, every format of the table regenerated from the pinned wgpu-types source, any bytes) returns the same image; "
             "format-name table injectivity discharged by kernel evaluation on the regenerated table; byte-exact differential runs of image_to_bin / bin_to_image.",
        note="Trusted: Lean kernel + standard axioms; lz4/bincode/wgpu serde modelled and tied by sampled byte-exact correspondence; translator; harness.",
        technique="Lean 4 proof (LZ4 + bincode round trips, table lookup inversion) + differential correspondence", ref="§7 C13"),
    "C14": dict(
        text="Machine-checked proof of the routing function of the asset endpoint: published ⇒ 200 with identical body and Content-Length iff below the transfer limit; unknown uuid / wrong class ⇒ 404; "
             "malformed path ⇒ 500; every request gets exactly one response independent of earlier requests; publish-then-GET over any publication history; IPv4/IPv6 base url; "
             "tied to the code by facts regenerated from `respond`/`serve_*` and by comparing every response of a real endpoint (127.0.0.1 and ::1, sequential and 8 concurrent connections, linearisability) with the model. "
             "Partial: sockets, thread scheduling and stalled readers are runtime behaviour outside the model.",
        note="Trusted: Lean kernel + standard axioms; tiny_http behaviour (500 on dropped request, chunking threshold), Uuid::parse_str modelled and tied by sampled differential runs; translator regexes; harness HTTP client.",
        technique="Lean 4 proof (routing theorems, publication-history induction) + differential correspondence with linearisability check", ref="§7 C14"),
    "C02": dict(
        text="Machine-checked proof on the component slice model (one key, host + a list of clients of any length, small-step actions = system runs and deferred closures): "
             "pipeline invariants for host-writer and client-writer epochs hold for every action sequence (every frame interleaving, system order and delivery split); "
             "at quiescence every peer holds the most recent write; epochs with different writers separated by a drain compose. Pre-repair semantics (token skip D1, patching apply D13) are refuted by kernel-checked witnesses. "
             "Tied to the code by translator flags on the three repaired code paths and by projecting real session traces (real Apps, UDP) onto the slice: the model must predict value, token and queue of every peer after every frame.",
        note="Trusted: Lean kernel + standard axioms; bevy scheduler/change detection/Commands/renet modelled, tied by sampled trace correspondence with the single-threaded executor; trace projection glue; values without NaN.",
        technique="Lean 4 proof (inductive pipeline invariants over all schedules, any N) + trace-projection correspondence + convergence oracle", ref="§7 C02"),
    "C09": dict(
        text="Machine-checked proof on the component slice: a drained state stays silent under any further frames (nothing sent, nothing changed); no peer that applied a network value ever originates a message for it (no echo) in host-writer and client-writer epochs; "
             "host-writer epochs send at most N messages per write for every schedule. Partial: the numeric bound for client-writer epochs and the parent/entity/asset slices are enforced by the trace oracle (messages <= writes x clients, quiescence within the cap), not yet by theorems.",
        note="Same trusted base as C02. Partial: see text.",
        technique="Lean 4 proof (potential-function bound, silence of drained states, no-echo invariants) + trace oracle on message counts", ref="§7 C09"),
    "C10": dict(
        text="Machine-checked proof on the component slice with ghost logs (every value a peer displays after a network apply, every value the application writes): for a host writer and for a client writer (through the host's deferred apply and its relay - only if changed, or always for parent links), any N, every schedule, what each reader has displayed followed by everything still travelling towards it is a subsequence of the values written, in the order written, and once drained every reader displays the last one. The pre-repair token skip is refuted by a kernel-checked witness. "
             "Tie: as C02 (code-path facts, per-key frame-by-frame correspondence incl. token state); oracle: the value sequence every peer displays, frame by frame, is a subsequence of the writes and ends with the last.",
        note="Same trusted base as C02.",
        technique="Lean 4 proof (Sublist chain invariants with ghost logs, host writer and client writer) + trace-projection correspondence + subsequence oracle", ref="§7 C10"),
    "C08": dict(
        text="Machine-checked proof on the crash slice (every deferred closure queued by poll_for_messages as an Except-valued step, application despawns interleaved anywhere in the flush): with the guards the translator reads off the handlers on every run, "
             "every sequence of steps over every world completes (no panic) and a message about a vanished entity leaves the world unchanged; each guard is shown necessary by a kernel-checked witness. "
             "Tie = fault enumeration on real Apps: 16 message-kind x receiver-condition cases x both directions x 1-2 clients, panic/no-panic compared with the model under every flush order, then a fresh operation must still replicate.",
        note="Trusted: Lean kernel + standard axioms; translator's guard scan (regex: get_entity dominance, unwrap count in bin_to_reflect); panics originating inside dependencies on inputs the model treats as opaque are outside the model (only the crate's own call sites).",
        technique="Lean 4 proof (totality of Except-valued handlers for all step sequences) + fault enumeration on the real crate", ref="§7 C08"),
    "C16": dict(
        text="Machine-checked proof that the two translation functions (local joints -> uuids on the sender, uuids -> local replicas on the receiver, unknown ids skipped as in the code) compose to the identity on structure: same number of joints, same order, repetitions kept, each joint the receiver's replica of the same uuid, bind poses copied — for every joint list and arbitrary id spaces, also through the host relay; "
             "the necessity of 'receiver knows the joint' is shown by a witness (a joint unknown at apply time is dropped: the split-snapshot case). Tied to the code by translator facts on both loops, the mapper's fields and the token name (D5), by running the model's functions on the real uuid maps of every traced SkinnedMesh update (live, relayed and snapshot to a late joiner), and by the oracle (joints as uuids and bind-pose bits equal on every peer, traffic stops).",
        note="Trusted: Lean kernel + standard axioms; that every joint is known on the receiver when the update is applied (FIFO + entity replication) is checked per trace, not proved; snapshots larger than one renet tick (joint spawn and mapper split across frames) are exercised only in the thorough tier.",
        technique="Lean 4 proof (filterMap/map list theorem, relay composition) + model-vs-trace correspondence + oracle", ref="§7 C16"),
    "C17": dict(
        text="Machine-checked proof on the companion slice (the nine fix systems as a table regenerated from bundle_fix.rs, Added/Without filters, deferred inserts): after a kind lands, one frame in ANY order of the nine unordered systems adds every companion; no sequence of fix steps ever changes a replicated value or raises a change for it (so the component slice's convergence theorem applies to these types unchanged); present companions are not touched; a system does not fire twice. The pre-repair value re-insert (D8) is refuted by a kernel-checked witness. "
             "Tie: the real fix machinery of every peer replayed on the model frame by frame (dumped system order, companion presence after every frame), component-slice correspondence for Transform/Visibility/lights, oracle (companions within a frame, values converge, an existing GlobalTransform keeps its value).",
        note="Trusted: Lean kernel + standard axioms; Added<T>/Without<T> semantics and Commands flush points modelled, tied by sampled trace correspondence; companion values other than GlobalTransform are only checked for presence.",
        technique="Lean 4 proof (order-independent frame theorem, value-untouched invariant) + frame-by-frame trace correspondence + oracle", ref="§7 C17"),
    "C04": dict(
        text="Machine-checked proof on the emission-filter model (the decision logic of every origination site: change detection, asset reaction systems, snapshot): every message a peer originates — live or in the snapshot — names a synchronized entity and, for components, a type registered on that peer and not excluded on that entity, for assets a uuid id of a class enabled on that peer; an entity that is not synchronized is never named. "
             "Tie: nine translator facts on the real filters (query filters of sync_detect, run_if gates in both plugins, AssetId::Uuid let-else in all ten reaction/snapshot functions, registration and exclusion checks of the snapshot); every message seen in any receive tap of sessions with random per-peer registration subsets, switches, excludes, index/uuid ids and a late joiner is attributed to its originator and judged by the model's predicate on that peer's own configuration.",
        note="Trusted: Lean kernel + standard axioms; the attribution of a received message to its originator (sender id hook, host relays recognised by content) and the 4-frame window in which the originator's configuration is looked up; exclusion/registration are evaluated when the change is detected (a change queued before an exclusion is added still leaves).",
        technique="Lean 4 proof (decision-logic theorems over the emission sites) + translator facts + per-message attribution oracle", ref="§7 C04"),
    "C01": dict(
        text="Machine-checked proof on the entity slice (one uuid; host + a list of clients of any length; actions = entity_created, entity_removed, poll+flush, application mark/despawn, clients leaving): for an entity marked on the host and for one marked on any client (relayed client -> host -> other clients), for every interleaving, no peer ever holds two live replicas and at quiescence the host and every connected client hold exactly one. "
             "Partial for despawns: the step laws that make repeated/crossing deletes and duplicate spawns harmless are proved; the unbounded convergence theorem for histories with despawns from arbitrary peers is not — those histories are decided on every run by projecting each uuid of real sessions (spawns/despawns from random peers, several per frame, marks before the connection, clients leaving) onto the slice (count and tracker entry predicted after every frame) and by the oracle (no duplicate uuid ever, equal uuid sets on all connected peers at quiescence, tracker maps consistent). New joins are C03.",
        note="Trusted: as for C02 (scheduler/Commands/renet modelled, projection glue); poll and the end-of-frame flush are one model action, justified by the dumped schedule (poll follows the only sync point) and checked by the correspondence.",
        technique="Lean 4 proof (pipeline invariants for spawn epochs, any N, all interleavings) + per-uuid trace correspondence + oracle", ref="§7 C01"),
    "C05": dict(
        text="Machine-checked proof: a child's parent link is replicated by the component mechanism with an unconditional host relay, so the component-slice theorems are proved for both relay modes and instantiated: links converge over any sequence of single-writer epochs (one writer may re-parent in consecutive frames), any N, every interleaving; once drained nothing is sent any more; no peer echoes an applied link; bounded messages per operation for a host writer. "
             "A functional model of bevy_hierarchy's add_child proves the handlers keep Parent/Children well formed: the child is under the new parent, listed exactly once, under no other parent. "
             "Tie: translator facts on all four token sites, the relay and the set_parent/add_child pair; real sessions (chains, fan-out, moves, consecutive re-parents, hierarchies created in the marking frame) projected per child onto the slice (parent uuid and token after every frame); oracle (same parent on all peers, children lists consistent and duplicate-free, traffic stops).",
        note="Trusted: as for C02; bevy_hierarchy's push_children/update_old_parents are modelled from their 0.14 source, tied by the oracle's children-list checks only; conflicting simultaneous re-parents by different peers are outside the property.",
        technique="Lean 4 proof (component-slice invariants generalised over the relay mode; hierarchy well-formedness) + per-child trace correspondence + oracle", ref="§7 C05"),
    "C03": dict(
        text="Machine-checked proof on the snapshot slice (one key = entity uuid + component, or + parent link; the host's side is the component slice's peer; the joiner is a newcomer or a returning client still holding its replica and an old value; actions = host writes / applies-and-relays / detects / reacts, the transport accepting the joiner, the snapshot being read off the world at one flush and queued behind whatever was already sent, the joiner's poll / deferred handlers / detection): for every interleaving, in epochs where the host writes and in epochs where it relays another client's writes, once the joiner is through it holds the entity iff the host does, exactly one replica, the host's value, and it never announced anything — live traffic before the snapshot (ignored for unknown uuids, guarded against duplicates) and stale queue entries after it included. For downloadable assets the asset slice gains the snapshot action and the host-writer epoch theorem covers joins at any moment. Two genuine defects are recorded as known findings and kernel-checked on the models: D16 (entities despawned while a returning client was not connected stay on it) and D17 (a snapshot built while the host is still downloading a client's newer asset publication leaves the joiner with the host's outdated copy). "
             "Tie: nine translator facts (request -> queued closure, ordered send + FinishedInitialSync last, build order, EntitySpawn before components, tracked / registered / non-excluded filter, parent pairs, client ignores unknown uuid, duplicate-spawn guard, class gates); real sessions (host + 1..3 clients building entities, components, hierarchies, four asset kinds, despawns; then one writer keeps changing things every frame while a new client connects and/or a client that left returns; per-peer switch combinations): every message a joiner really received for every (entity, component) key is replayed through the model's handlers and replica / value / count are compared after every frame of the joiner; oracle at the final drain: same uuid set (none twice), same registered component values, same parent links, same uuid assets of the classes enabled on both as the host.",
        note="Trusted: as for C02 (scheduler, Commands, renet ordered channel modelled, projection glue); the moment the host's transport accepts the joiner is an input of the model; the snapshot's internal order across different entities is covered by translator facts and the oracle, not by the one-key slice; deletes are not part of the slice (the joiner-side correspondence skips keys whose entity is deleted; the oracle covers them). KNOWN-FINDING D16 and D17 are printed for exactly their recorded histories; any other difference is a violation.",
        technique="Lean 4 proof (snapshot-slice invariant for newcomers and returners, both epoch kinds, all interleavings; asset epoch invariant extended by the snapshot action) + per-key joiner-side trace correspondence + final-state oracle", ref="§7 C03"),
    "C07": dict(
        text="Machine-checked proof on the promotion slice (who holds which transport, the host_promotion_in_progress flag of both peers, the former host's snapshot request; frames of both peers with the network's part — delivery of PromoteToHost / NewHost, acceptance and report of the new connection — as arbitrary inputs): for a one-client session every schedule, once nothing moves any more, ends with the promoted client hosting alone without its client transport, the former host's server closed and its client connected, both flags clear and exactly one snapshot request by the former host; some peer hosts at every moment; the finitely many reachable states are enumerated and their closure under all nine actions is checked by the kernel (decide +kernel, no native_decide). The content of the session after the hand-over is C03 (the former host is a returning client that requests the snapshot), later joiners are C03 newcomers. Chains of promotions are chains of runs of the slice (D7a repaired). Promotions with two or more clients do not complete (D7, kernel-checked witness) and changes the former host's application makes while between roles are lost / divergent (D18): both recorded as known findings. "
             "Tie: nine translator facts (request, promoted handler, NewHost announcement on entering Connected, both NewHost handlers incl. the fresh RenetClient, close-when-empty-and-flagged, promoted drops its client transport, events before messages, verify skips the snapshot exactly on the flag); real sessions with distinct ports per peer (1..3 clients, any client promoted, hand-overs with the applications idle or busy, second promotions, joins after the hand-over, operations from every peer afterwards): every first hand-over of a one-client session is replayed frame by frame on the model (network inputs read off the trace; server transport, flag, client state and client count of both peers after every frame; snapshot requests at the end); oracle at every quiescent drain after a hand-over: exactly one host, everybody else connected to it as a client, former host's server gone, equal uuid sets (none twice), values and links.",
        note="Trusted: Lean kernel + standard axioms (propext only for the closure proofs); renet/netcode handshake, bevy run conditions and state transitions modelled, tied by the frame-by-frame correspondence; the correspondence replays first hand-overs of one-client sessions only (later ones are judged by the oracle); KNOWN-FINDING D7 is attributed to every failing history that promotes while two or more clients are connected, D18 to differences on keys the former host's application touched during the hand-over; anything else is a violation.",
        technique="Lean 4 proof (finite reachable-state closure checked by the kernel, lifted to all schedules; C03 theorems for the content) + frame-by-frame trace correspondence + role / content oracle", ref="§7 C07"),
    "C06": dict(
        text="Machine-checked proof on two slices — announcement + HTTP download (mesh, image, audio: react = debounce/serve/announce, poll = queue a download from the advertised owner and relay, fetch = GET returning what the owner's cache holds at that moment, process = apply + one debounce entry + one AssetEvent) and inline materials (react, poll, deferred apply + relay): over any sequence of writer epochs (host->clients, client->host->clients, the writer changing between epochs once drained, any number of overwrites per epoch in any rhythm), any number of clients and every schedule of reactions, deliveries, downloads and applications, every peer ends with the content of the last publication under the uuid and nothing (debounce entry, slot, download) is left over; readers never announce (no echo). The three repaired defects are refuted on the pre-repair models by kernel-checked witnesses. Identity of the bytes across encode / HTTP / decode is C11, C12, C13, C14. "
             "Tie: eight translator facts (counted debounce entries and their two sites, request() queues unconditionally, worker stores into the uuid's slot, process_* shape, the six react_* functions, both receivers and the host relay, the inline material path, serve_* overwrites); real sessions over localhost HTTP with all four kinds, bursts of overwrites, cross-peer overwrites after drains, 1..3 clients, IPv4/IPv6: per uuid the publications are replayed on the model, the model settles by fair rounds wherever the implementation drained and content / serve cache / pending debounce entries of every peer are compared; oracle: at every quiescent drain every peer holds byte-identical content (hash of the encoded asset) to the last publisher's.",
        note="Trusted: Lean kernel + standard axioms; a GET and the store into the slot are one model action — two worker threads finishing downloads of one uuid in the opposite order of their requests (runtime behaviour of the thread pool) are outside the model and recorded in DESIGN.md; the correspondence compares at quiescent drains only (the download thread makes per-frame prediction impossible); two peers publishing the same uuid concurrently are outside the property's single-writer reading.",
        technique="Lean 4 proof (single-writer epoch invariants for both transport paths, any N, all schedules) + per-uuid drain-point correspondence over real HTTP + oracle", ref="§7 C06"),
    "C15": dict(
        text="Machine-checked proof on the connection-state machines (run conditions resource_added / resource_removed with their change-detection flag and Local, in_state, NextState applied one frame later): from every state reachable by any sequence of start/stop hosting, connect, disconnect, reconnect, handshake events and frames, ServerState agrees with hosting after two undisturbed frames; ClientState requests Connected only in a frame in which the RenetClient reported connected and becomes Connected only through such a request; it is Disconnected two frames after the transport was removed from any state (Connecting included); the host raises InitialSyncFinished exactly with its transition to Connected and not again; one RequestInitialSync per join. The pre-repair condition (D10) is refuted by a kernel-checked witness. "
             "Tie: six translator facts (run conditions of the five state systems, gates of the three replication chains, the is_connected check, the three sync-finished sites); every peer of real connect/disconnect/reconnect histories with arbitrarily interleaved frames replayed on the model (published states after every frame); oracle: two-frame tracking, never-early, replication only in Connected, at most one InitialSyncFinished per join and exactly one for a completed join, and at that frame every entity and registered component of the host's snapshot is present on the client.",
        note="Trusted: Lean kernel + standard axioms; bevy's run-condition and state-transition semantics modelled from the 0.14 source, tied by sampled trace correspondence; the netcode handshake is an input of the model (observed is_connected); the content equation at InitialSyncFinished is an oracle check (theorems for it belong to C03); a transport removed and re-inserted between two frames is invisible to resource_removed (not generated: each operation is followed by a frame).",
        technique="Lean 4 proof (finite-state invariants by exhaustive case analysis, lifted to all operation sequences) + per-peer trace correspondence + oracle", ref="§7 C15"),
}
PENDING_REASON = "not claimed yet: machinery for this property is still being built (see DESIGN.md §10 build order); no check is registered until its theorems and tie run"

props = [json.loads(l)["id"] for l in open("properties.jsonl")]
commits = subprocess.run(["git", "-C", "/repo", "log", "--format=%H %s"], capture_output=True, text=True).stdout.strip().split("\n")
hook_commits = [c.split(" ")[0] for c in commits if "verif hooks" in c]

m = {
    "version": 1,
    "setup_cmd": "./check --setup",
    "hooks": {
        "guard": "verif_hooks",
        "enable": "cargo feature: the harness depends on bevy_sync = { path = \"/repo\", features = [\"verif_hooks\"] }",
        "baseline_off_cmd": "cd /repo && cargo test --workspace --no-fail-fast --offline",
        "source_commits": hook_commits,
        "add_only": True,
    },
    "engines": [
        {"name": "lean-model", "path": "lean/", "serves_properties": sorted(CLAIMED), "kind_free_text": "Lean 4.33 models, proofs (Props/Cxx.lean) and compiled model driver bsmodel"},
        {"name": "rust-harness", "path": "harness/", "serves_properties": sorted(CLAIMED), "kind_free_text": "in-process driver of the real crate (feature verif_hooks): case generators, implementation oracles"},
        {"name": "translator", "path": "translate/translate.py", "serves_properties": sorted(CLAIMED), "kind_free_text": "regenerates Lean descriptors from /repo's sources on every run"},
    ],
    "checks": [],
    "not_applicable": [],
    "notes": "Every check = proof build + axiom audit + translator + correspondence + implementation oracle; see DESIGN.md §4. known_findings.json lists recorded/fixed defects.",
}
for p in props:
    if p in CLAIMED:
        c = CLAIMED[p]
        m["checks"].append({
            "property_id": p,
            "quick_cmd": "./check %s --tier quick" % p,
            "thorough_cmd": "./check %s --tier thorough" % p,
            "evidence_file": "evidence/%s.json" % p,
            "replay_cmd_template": "./check %s --replay {path}" % p,
            "engine": "lean-model",
            "level_claimed": {"category": "proof", "text": c["text"], "design_ref": c["ref"]},
            "level_note": c["note"],
            "technique": c["technique"],
        })
    else:
        m["not_applicable"].append({"property_id": p, "reason": PENDING_REASON})
json.dump(m, open("MANIFEST.json", "w"), indent=1)
print("claimed:", sorted(CLAIMED))
