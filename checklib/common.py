"""Shared machinery of ./check: builds (translator, Lean, harness), proof audit, evidence, verdicts.
Stdlib only."""
import fcntl, hashlib, json, os, re, resource, subprocess, sys, time

VERIF = os.path.dirname(os.path.dirname(os.path.abspath(__file__)))
REPO = os.environ.get("VERIF_REPO", "/repo")
LEAN = os.path.join(VERIF, "lean")
HARNESS = os.path.join(VERIF, "harness")
BSMODEL = os.path.join(LEAN, ".lake", "build", "bin", "bsmodel")
ALLOWED_AXIOMS = {"propext", "Classical.choice", "Quot.sound"}
FORBIDDEN = re.compile(r"\b(sorry|admit|native_decide|bv_decide|implemented_by|unsafe)\b|^\s*axiom\s|maxHeartbeats\s+0")

ENV = dict(os.environ, CARGO_NET_OFFLINE="true", CARGO_TERM_COLOR="never")


class Lock:
    def __init__(self, name):
        self.path = os.path.join(VERIF, ".lock-" + name)

    def __enter__(self):
        self.f = open(self.path, "w")
        fcntl.flock(self.f, fcntl.LOCK_EX)
        return self

    def __exit__(self, *a):
        fcntl.flock(self.f, fcntl.LOCK_UN)
        self.f.close()


def run(cmd, cwd=None, timeout=None, input=None, big_stack=False):
    def pre():
        if big_stack:
            try:
                resource.setrlimit(resource.RLIMIT_STACK, (resource.RLIM_INFINITY, resource.RLIM_INFINITY))
            except Exception:
                pass
    p = subprocess.run(cmd, cwd=cwd, env=ENV, capture_output=True, text=True, timeout=timeout, input=input,
                       preexec_fn=pre)
    return p.returncode, p.stdout, p.stderr


def translate():
    """(T) translator obligations: regenerate Generated/*.lean from /repo's current source"""
    rc, out, err = run([sys.executable, os.path.join(VERIF, "translate", "translate.py")])
    return rc == 0, (out + err).strip()


def strip_lean_comments(src):
    out, i, n, depth = [], 0, len(src), 0
    while i < n:
        if src.startswith("/-", i):
            depth += 1
            i += 2
        elif src.startswith("-/", i) and depth > 0:
            depth -= 1
            i += 2
        elif depth > 0:
            i += 1
        elif src.startswith("--", i):
            while i < n and src[i] != "\n":
                i += 1
        else:
            out.append(src[i])
            i += 1
    return "".join(out)


def forbidden_scan():
    """reject sorry/admit/axiom/native_decide/bv_decide/implemented_by/unsafe/maxHeartbeats 0 outside comments"""
    hits = []
    for root, _, files in os.walk(LEAN):
        if ".lake" in root:
            continue
        for f in files:
            if f.endswith(".lean"):
                p = os.path.join(root, f)
                src = strip_lean_comments(open(p).read())
                for n, line in enumerate(src.split("\n"), 1):
                    # `partial`/`unsafe` glue is allowed only in the driver, which is not part of any proof
                    if FORBIDDEN.search(line) and not p.endswith("Driver.lean"):
                        hits.append("%s: %s" % (os.path.relpath(p, VERIF), line.strip()[:120]))
    return hits


def theorems_of(prop_id):
    p = os.path.join(LEAN, "BevySyncModel", "Props", prop_id + ".lean")
    src = strip_lean_comments(open(p).read())
    return re.findall(r"^theorem\s+(%s_\w+)" % prop_id, src, flags=re.M), len(re.findall(r"^example\b", src, flags=re.M))


def lean_build(prop_id, leanchecker=False):
    """(P) build the property module and the driver, audit axioms. Returns dict."""
    res = {"ok": True, "log": "", "theorems": [], "examples": 0, "axioms": {}, "failed": []}
    with Lock("lean"):
        t0 = time.time()
        rc, out, err = run(["lake", "build", "BevySyncModel.Props." + prop_id, "bsmodel"], cwd=LEAN, timeout=3600)
        res["build_s"] = round(time.time() - t0, 1)
        if rc != 0:
            res["ok"] = False
            errs = [l for l in (out + err).split("\n") if "error" in l]
            res["log"] = "\n".join(errs[:40])
            res["failed"] = sorted(set(re.findall(r"(BevySyncModel[\w./]*\.lean):\d+", out + err))) or ["lake build"]
            # name the theorems that no longer check
            return res
        thms, examples = theorems_of(prop_id)
        res["theorems"], res["examples"] = thms, examples
        audit = "import BevySyncModel.Props.%s\n" % prop_id + "".join(
            "#print axioms BevySync.Props.%s\n" % t for t in thms)
        apath = os.path.join(LEAN, ".lake", "audit_%s.lean" % prop_id)
        open(apath, "w").write(audit)
        rc, out, err = run(["lake", "env", "lean", apath], cwd=LEAN, timeout=1800)
        txt = out + err
        for t in thms:
            m = re.search(r"'BevySync\.Props\.%s' (does not depend on any axioms|depends on axioms: \[([^\]]*)\])" % re.escape(t), txt, flags=re.S)
            if not m:
                res["ok"] = False
                res["failed"].append(t + " (no audit output)")
                continue
            ax = set(a.strip() for a in (m.group(2) or "").replace("\n", " ").split(",") if a.strip())
            res["axioms"][t] = sorted(ax)
            if not ax <= ALLOWED_AXIOMS:
                res["ok"] = False
                res["failed"].append("%s depends on %s" % (t, sorted(ax - ALLOWED_AXIOMS)))
        hits = forbidden_scan()
        if hits:
            res["ok"] = False
            res["failed"] += ["forbidden token: " + h for h in hits[:10]]
        if leanchecker and res["ok"]:
            rc, out, err = run(["lake", "env", "leanchecker", "BevySyncModel.Props." + prop_id], cwd=LEAN, timeout=3600)
            res["leanchecker_rc"] = rc
            if rc != 0:
                res["ok"] = False
                res["failed"].append("leanchecker: " + (out + err)[-300:])
    return res


def harness_build():
    """rebuild the harness against /repo's current working tree (path dependency, feature verif_hooks)"""
    with Lock("cargo"):
        lock = os.path.join(HARNESS, "Cargo.lock")
        if not os.path.exists(lock) and os.path.exists(os.path.join(REPO, "Cargo.lock")):
            import shutil
            shutil.copy(os.path.join(REPO, "Cargo.lock"), lock)
        t0 = time.time()
        rc, out, err = run(["cargo", "build", "--offline", "--bins"], cwd=HARNESS, timeout=3600)
        return rc == 0, (out + err)[-3000:], round(time.time() - t0, 1)


def harness_bin(name):
    return os.path.join(HARNESS, "target", "debug", name)


def load_known_findings():
    p = os.path.join(VERIF, "known_findings.json")
    if not os.path.exists(p):
        return {"findings": [], "fixed": []}
    return json.load(open(p))


def write_replay(prop_id, name, payload):
    os.makedirs(os.path.join(VERIF, "replays"), exist_ok=True)
    path = os.path.join(VERIF, "replays", "%s-%s.json" % (prop_id, re.sub(r"[^\w.-]", "_", name)[:80]))
    with open(path, "w") as f:
        json.dump(payload, f, indent=1)
    return path


def write_evidence(prop_id, ev):
    # VERIF_EVIDENCE_DIR: used when a check is tried against a seeded change, so that the committed
    # evidence always describes a run on the unchanged tree
    d = os.environ.get("VERIF_EVIDENCE_DIR") or os.path.join(VERIF, "evidence")
    os.makedirs(d, exist_ok=True)
    with open(os.path.join(d, prop_id + ".json"), "w") as f:
        json.dump(ev, f, indent=1)


def digest(s):
    return hashlib.sha1(s.encode()).hexdigest()[:16]


TRUSTED_BASE_COMMON = [
    "Lean 4.33.0 kernel; axioms allowed in property theorems: propext, Classical.choice, Quot.sound (audited by #print axioms on every run)",
    "the models are hand-written; they are tied to /repo by the translator obligations and the differential correspondence of this run (sampled, not proved)",
    "/verif/translate/translate.py (Rust-subset parser) and /verif/check are trusted to report faithfully; an unparsable source fails the tie",
    "Driver.lean parsing glue and the Rust harness (case generation, canonical printing) are trusted test code",
]
