"""C11 / C12 / C13: codec properties. Proof (Lean) + tie (descriptors, byte-exact correspondence) +
implementation oracle (round trip on the real crate)."""
import concurrent.futures, json, os, re, subprocess, time
from . import common as C

PLAN = {
    # property: (design ref, [(kind, quick count, thorough count)])
    "C11": ("§7/C11", [("mesh", 420, 2400), ("lz4", 60, 400)]),
    "C12": ("§7/C12", [("message", 720, 7200), ("reflect", 800, 8000)]),
    "C13": ("§7/C13", [("image", 420, 2400), ("lz4", 50, 300)]),
}

TRUSTED = {
    "C11": ["modelled, tied by byte-exact differential runs only: lz4-compression 0.7.0 (its algorithm is modelled and proved), bincode 1.3.3 + serde derive for MeshData, bevy Mesh attribute accessors",
            "x86-64 little endian (lz4's native-endian 4-byte batch)",
            "a strong morph-target handle is documented lossy by the property (arrives as none)"],
    "C12": ["modelled, tied by byte-exact differential runs only: bincode 1.3.3, serde derive for Message, bevy_reflect's ReflectSerializer/ReflectDeserializer traversal",
            "wire descriptors of component shapes are derived at run time by the harness from bevy TypeInfo (leaf table: ints, floats, bool, String, Cow<str>, Uuid, Entity, Arc<_> = unserialisable)",
            "reflect equality is proved as bit-identical value trees (stronger than reflect_partial_eq, which is not reflexive on NaN); FromReflect reconstruction of the concrete Rust type is covered by the harness oracle only",
            "hash-map fields are outside the family (iteration order is not a function of the value); ordered maps are included; `char` fields are not modelled"],
    "C13": ["modelled, tied by byte-exact differential runs only: lz4-compression 0.7.0, bincode 1.3.3, serde of wgpu_types::TextureFormat (name table regenerated from the pinned source; every uncompressed format checked against the real serializer each run)",
            "bevy's Image::new debug assertion (size × pixel size = data length) is a precondition of the harness generator, not of the codec theorem"],
}


def run_kind(kind, seed, count, tier):
    """harness → cases → model driver; returns dict with lines, results"""
    t0 = time.time()
    rc, out, err = C.run([C.harness_bin("codec"), kind, str(seed), str(count), tier], timeout=3600)
    if rc != 0:
        return {"kind": kind, "error": "harness codec %s failed rc=%s: %s" % (kind, rc, err[-500:])}
    lines = out.split("\n")
    rc2, mout, merr = C.run([C.BSMODEL], input=out, timeout=7200, big_stack=True)
    if rc2 != 0:
        return {"kind": kind, "error": "model driver failed rc=%s: %s" % (rc2, merr[-500:])}
    cases = {}
    for l in lines:
        if l and not l.startswith("#"):
            parts = l.split(" ", 2)
            cid = parts[1] if parts[0] != "fmtname" else "fmtname"
            cases.setdefault(cid, l)
    results = []
    for l in mout.split("\n"):
        if not l:
            continue
        if l.startswith("ok "):
            results.append((l[3:].strip(), "ok"))
        else:
            m = re.match(r"(MISMATCH .*) (\S+)$", l)
            results.append((m.group(2), m.group(1)) if m else ("?", l))
    stats = {}
    oracle = []
    notes = []
    for l in lines:
        if l.startswith("#STAT "):
            k, v = l[6:].split("=")
            stats[k] = int(v)
        elif l.startswith("#ORACLE-FAIL "):
            p = l.split(" ", 3)
            oracle.append({"kind": p[1], "id": p[2], "what": p[3] if len(p) > 3 else ""})
        elif l.startswith("#NOTE "):
            notes.append(l[6:])
    return {"kind": kind, "cases": cases, "results": results, "stats": stats, "oracle": oracle, "notes": notes,
            "lines": [l for l in lines if l and not l.startswith("#")], "wall_s": round(time.time() - t0, 1)}


def sample_of(line, maxlen=300):
    return line if len(line) <= maxlen else line[:maxlen] + "…(%d chars)" % len(line)


def check(prop_id, tier, seed, replay=None):
    t0 = time.time()
    design_ref, plan = PLAN[prop_id]
    violations = []
    out_lines = []

    ok_t, tlog = C.translate()
    proof = C.lean_build(prop_id, leanchecker=(tier == "thorough"))
    ok_h, hlog, hbuild_s = C.harness_build()
    if not ok_h:
        print("ERROR: harness does not build against /repo's current tree:\n" + hlog[-1500:])
        return 2

    broken = (not ok_t) or (not proof["ok"])
    mult = 10 if broken else 1     # extended search when a proof obligation or the translator broke
    runs = []
    with concurrent.futures.ThreadPoolExecutor(max_workers=4) as ex:
        futs = [ex.submit(run_kind, kind, seed, (th if tier == "thorough" else q) * (mult if tier == "quick" else 1), tier)
                for kind, q, th in plan]
        runs = [f.result() for f in futs]
    for r in runs:
        if "error" in r:
            print("ERROR: " + r["error"])
            return 2

    evaluations = sum(len(r["results"]) for r in runs)
    mismatches = [(r["kind"], cid, what) for r in runs for cid, what in r["results"] if what != "ok"]
    oracle_fails = [o for r in runs for o in r["oracle"]]
    cases = {}
    for r in runs:
        cases.update(r["cases"])

    # (O) the implementation itself breaks the property on a generated input: the replay is that input
    seen = set()
    for o in oracle_fails:
        if o["id"] in seen:
            continue
        seen.add(o["id"])
        path = C.write_replay(prop_id, o["id"], {
            "property": prop_id, "kind": "implementation-oracle", "case_id": o["id"], "what": o["what"],
            "regenerate": "harness/target/debug/codec %s %s <count> %s  (case ids are <kind>-<seed>-<index>)" % (o["kind"], seed, tier),
            "case_line": sample_of(cases.get(o["id"], ""), 4000)})
        violations.append("VIOLATION property=%s replay=%s" % (prop_id, path))
    # (T) correspondence broke
    for kind, cid, what in mismatches:
        base = cid[:-1] if cid.endswith("m") else cid
        if base in seen or cid in seen:
            continue
        seen.add(cid)
        roundtrip = "roundtrip" in what or "enc:" in what and False
        path = C.write_replay(prop_id, cid, {
            "property": prop_id, "kind": "correspondence", "correspondence": "codec/%s: model vs implementation" % kind,
            "first_diverging_event": what, "case_id": cid, "case_line": sample_of(cases.get(cid, ""), 4000),
            "regenerate": "harness/target/debug/codec %s %s <count> %s" % (kind, seed, tier)})
        if "roundtrip" in what:
            violations.append("VIOLATION property=%s replay=%s" % (prop_id, path))
        else:
            violations.append("VIOLATION property=%s replay=%s no-failing-input-found" % (prop_id, path))
        if len(violations) >= 5:
            break
    # (P)/(T-translator) broke and nothing concrete was found
    if broken and not violations:
        what = []
        if not ok_t:
            what.append("translator obligation: " + tlog)
        if not proof["ok"]:
            what.append("proof obligations no longer check: " + "; ".join(proof["failed"]))
        path = C.write_replay(prop_id, "proof", {
            "property": prop_id, "kind": "proof-obligation", "no_longer_checks": what, "log": proof.get("log", "")[:4000],
            "extended_search": {"evaluations": evaluations, "oracle_failures": 0, "mismatches": 0}})
        violations.append("VIOLATION property=%s replay=%s no-failing-input-found" % (prop_id, path))

    # evidence
    distinct = {}
    for r in runs:
        for l in r["lines"]:
            parts = l.split(" ", 2)
            body = parts[2] if len(parts) > 2 else l
            distinct[C.digest(body)] = len(body)
    nontrivial = sum(1 for v in distinct.values() if v >= 64)
    thms = proof.get("theorems", [])
    stats = {}
    for r in runs:
        stats.update(r["stats"])
    samples = []
    for r in runs:
        for l in r["lines"][:1] + r["lines"][-1:]:
            samples.append(sample_of(l))
    ev = {
        "property_id": prop_id, "tier": tier, "seed": seed, "level": "proof",
        "coverage": {
            "obligations": len(thms) + proof.get("examples", 0) + 1,
            "discharged": (len(thms) + proof.get("examples", 0) if proof["ok"] else 0) + (1 if ok_t else 0),
            "checker_cmd": "cd /verif/lean && lake build BevySyncModel.Props.%s && lake env lean .lake/audit_%s.lean  (#print axioms)%s"
                           % (prop_id, prop_id, " && lake env leanchecker BevySyncModel.Props.%s" % prop_id if tier == "thorough" else ""),
            "trusted_base": C.TRUSTED_BASE_COMMON + TRUSTED[prop_id],
            "theorems": thms, "axioms": proof.get("axioms", {}), "non_vacuity_examples": proof.get("examples", 0),
            "translator": "ok" if ok_t else tlog,
            "evaluations": evaluations, "distinct_nontrivial": nontrivial,
            "rule": "cases generated by harness/src/bin/codec from one PRNG seed (structured, mostly valid; a malformed stream derived from valid encodings); "
                    "distinct = distinct case bodies (input + real bytes + real decoding), non-trivial = body of at least 64 characters",
            "samples": samples,
            "traces_validated_against_impl": sum(1 for r in runs for _, w in r["results"] if w == "ok"),
            "disagreements_checked": len(mismatches),
            "implementation_oracle_failures": len(oracle_fails),
            "input_distribution": stats,
            "notes": sorted(set(n for r in runs for n in r["notes"]))[:20],
            "build_s": {"lean": proof.get("build_s"), "harness": hbuild_s},
            "partial": False,
        },
        "assumptions": ["lengths fit their u64 prefix (every value the harness can build does)",
                        "quick and thorough differ in volume and payload sizes only"],
        "wall_s": round(time.time() - t0, 1),
        "violations": len(violations),
    }
    C.write_evidence(prop_id, ev)
    print("%s %s: proof %s (%d theorems, %d examples), translator %s, %d cases vs model: %d mismatches, %d oracle failures, %.0fs"
          % (prop_id, tier, "ok" if proof["ok"] else "BROKEN", len(thms), proof.get("examples", 0),
             "ok" if ok_t else "BROKEN", evaluations, len(mismatches), len(oracle_fails), time.time() - t0))
    for v in violations:
        print(v)
    return 1 if violations else 0
