"""Session traces (JSON lines written by harness/src/bin/session.rs): parsing, canonical views,
projection of a real history onto one slice instance (model actions + observed states for the
Lean driver), and the implementation oracles of the protocol properties.  Stdlib only."""
import json, struct

SYS_DETECT = {"PointLight": "sync_detect<PointLight>", "SpotLight": "sync_detect<SpotLight>", "DirLight": "sync_detect<DirectionalLight>",
              "A": "sync_detect<CompA>", "B": "sync_detect<CompB>", "E": "sync_detect<CompE>", "V": "sync_detect<CompV>",
              "Transform": "sync_detect<Transform>", "Name": "sync_detect<Name>", "Visibility": "sync_detect<Visibility>"}


class History:
    def __init__(self, header):
        self.header = header
        self.id = header["id"]
        self.family = header.get("family")
        self.nclients = header.get("clients", 0)
        self.events = []
        self.types = {}
        self.registered = []
        self.end = None

    def add(self, ev):
        if ev["ev"] == "types":
            self.types = ev["map"]
            self.registered = ev.get("registered", [])
        elif ev["ev"] == "end":
            self.end = ev
        self.events.append(ev)

    @property
    def panic(self):
        return self.end and self.end.get("panic")

    def peers(self):
        return list(range(self.nclients + 1))


def parse(text):
    out, cur = [], None
    for line in text.split("\n"):
        if not line.startswith("{"):
            continue
        ev = json.loads(line)
        if ev["ev"] == "history":
            cur = History(ev)
            out.append(cur)
        elif cur is not None:
            cur.add(ev)
    return out


def ent_of(state, uuid):
    for e in state["ents"]:
        if e["uuid"] == uuid:
            return e
    return None


def comp_value(state, uuid, ty):
    e = ent_of(state, uuid)
    if e is None:
        return None
    return e["comps"].get(ty)


def decode_vec_items(hexbytes):
    """CompV { items: Vec<u8> } inside reflect bytes: u64 1, u64 L, path, u64 n, n bytes"""
    b = bytes.fromhex(hexbytes)
    (l,) = struct.unpack_from("<Q", b, 8)
    off = 16 + l
    (n,) = struct.unpack_from("<Q", b, off)
    return list(b[off + 8: off + 8 + n])


class OpaqueValue(Exception):
    pass


class ValTokens:
    """values of one slice instance as tokens of the Lean driver (`-` none, `e` empty list, `a.b.c`)"""

    def __init__(self, list_type):
        self.list_type = list_type
        self.ids = {}

    def tok(self, hexbytes):
        if hexbytes is None:
            return "-"
        if self.list_type:
            if not all(c in "0123456789abcdef" for c in hexbytes[:16]):
                raise OpaqueValue(hexbytes[:24])     # a value too large to be dumped (digest only): no list to hand the model
            items = decode_vec_items(hexbytes)
            return ".".join(map(str, items)) if items else "e"
        if hexbytes not in self.ids:
            self.ids[hexbytes] = len(self.ids) + 1
        return str(self.ids[hexbytes])


def last_state(h, upto, peer):
    for ev in reversed(h.events[:upto]):
        if ev["ev"] == "frame" and ev["peer"] == peer and ev.get("state"):
            return ev["state"]
    return None


def has_token(state, uuid, path):
    return any(t[0] == uuid and t[1] == path for t in state["tracker"]["tokens"])


def queue_len(state, uuid, path):
    return sum(1 for t in state["tracker"]["queue"] if t[0] == uuid and t[1] == path)


def comp_instances(h, legacy, patch=False):
    """yield (instance id, lines for the Lean driver, meta) for every (uuid, ty) key with a phase"""
    for uuid, ty, start in comp_keys(h):
        try:
            for r in comp_instance(h, legacy, patch, uuid, ty, start):
                yield r
        except OpaqueValue as e:
            yield ("%s/%s/%s" % (h.id, uuid[:8], ty), None, {"skipped": "a value of this key is dumped as a digest only (%s)" % e})


def comp_keys(h):
    keys = []
    for idx, ev in enumerate(h.events):
        if ev["ev"] == "phase":
            uuid = None
            for b in h.events:
                if b["ev"] == "bind" and b["h"] == ev["h"]:
                    uuid = b["uuid"]
            if uuid and (uuid, ev["ty"]) not in [k[:2] for k in keys]:
                keys.append((uuid, ev["ty"], idx))
    # keys that ever carry a value not equal to itself (NaN) are outside the model's value domain: the oracle judges them
    nan_keys = set()
    binds_ = {b["h"]: b["uuid"] for b in h.events if b["ev"] == "bind"}
    for ev in h.events:
        if ev["ev"] == "phase" and ev.get("nan") and ev["h"] in binds_:
            nan_keys.add((binds_[ev["h"]], ev["ty"]))
    return [(uuid, ty, start) for uuid, ty, start in keys if ty in SYS_DETECT and (uuid, ty) not in nan_keys]


def comp_instance(h, legacy, patch, uuid, ty, start):
    if True:
        path = h.types[ty]
        vt = ValTokens(ty == "V" and patch)
        n = h.nclients
        # initial state: must be clean for this key on every peer, and every peer must know the entity
        init, clean = [], True
        for p in h.peers():
            st = last_state(h, start, p)
            if st is None or ent_of(st, uuid) is None or has_token(st, uuid, path) or queue_len(st, uuid, path):
                clean = False
                break
            init.append(vt.tok(comp_value(st, uuid, ty)))
        if not clean:
            yield ("%s/%s/%s" % (h.id, uuid[:8], ty), None, {"skipped": "state not clean at the first phase"})
            return
        inst = "%s/%s/%s" % (h.id, uuid[:8], ty)
        lines = ["sbegin comp %s %d %d %s %s" % (inst, n, 1 if legacy else 0, "l" if (ty == "V" and patch) else "r", " ".join(init))]
        sched = {}
        for ev in h.events[:start]:
            if ev["ev"] == "sched":
                sched[ev["peer"]] = ev["order"]
        nacts = 0
        for ev in h.events[start:]:
            if ev["ev"] == "sched":
                sched[ev["peer"]] = ev["order"]
            elif ev["ev"] == "op" and ev["op"] == "write" and ev.get("uuid") == uuid and ev["val"]["ty"] == ty:
                v = vt.tok(ev["bytes"])
                lines.append("a writeH %s" % v if ev["peer"] == 0 else "a writeC %d %s" % (ev["peer"], v))
                nacts += 1
            elif ev["ev"] == "frame" and ev.get("state") is not None:
                p = ev["peer"]
                recv = [m for m in ev["recv"] if m["msg"]["k"] == "comp" and m["msg"]["id"] == uuid and m["msg"]["name"] == path]
                order = sched.get(p, [])
                role = "server." if p == 0 else "client."
                flushes = 0
                for sysname in order:
                    if sysname == SYS_DETECT[ty]:
                        lines.append("a detectH" if p == 0 else "a detectC %d" % p)
                        nacts += 1
                    elif sysname == role + "react_on_changed_components":
                        lines.append("a reactH" if p == 0 else "a reactC %d" % p)
                        nacts += 1
                    elif sysname == role + "poll_for_messages":
                        if p == 0:
                            # messages are polled client by client; the tap has them in processing order
                            i = 0
                            while i < len(recv):
                                j = i
                                while j < len(recv) and recv[j].get("from") == recv[i].get("from"):
                                    j += 1
                                lines.append("a pollH %s %d" % (recv[i].get("from"), j - i))
                                nacts += 1
                                i = j
                        elif recv:
                            lines.append("a pollC %d %d" % (p, len(recv)))
                            nacts += 1
                        flushes = len(recv)
                for _ in range(flushes):
                    lines.append("a flushH" if p == 0 else "a flushC %d" % p)
                    nacts += 1
                st = ev["state"]
                obs = "%s %d %d" % (vt.tok(comp_value(st, uuid, ty)), 1 if has_token(st, uuid, path) else 0, queue_len(st, uuid, path))
                lines.append("x H " + obs if p == 0 else "x C %d %s" % (p, obs))
        lines.append("send")
        yield (inst, lines, {"actions": nacts})


# ------------------------------------------------------------------ implementation oracles

def is_subsequence(a, b):
    it = iter(b)
    return all(any(x == y for y in it) for x in a)


def oracle_components(h):
    """C02 / C09 / C10 evaluated on the implementation's own trace. Returns list of (prop, what, detail)."""
    fails = []
    n = h.nclients
    binds = {b["h"]: b["uuid"] for b in h.events if b["ev"] == "bind"}
    phases = [(i, ev) for i, ev in enumerate(h.events) if ev["ev"] == "phase"]
    for pi, (idx, ph) in enumerate(phases):
        uuid = binds.get(ph["h"])
        ty = ph["ty"]
        if uuid is None or ty not in h.types:
            continue
        path = h.types[ty]
        end = phases[pi + 1][0] if pi + 1 < len(phases) else len(h.events)
        # the drain that closes this phase
        drain = None
        for j in range(idx, end):
            if h.events[j]["ev"] == "drain":
                drain = (j, h.events[j])
        writes = [ev["bytes"] for ev in h.events[idx:end] if ev["ev"] == "op" and ev["op"] == "write" and ev.get("uuid") == uuid and ev["val"]["ty"] == ty]
        if not writes:
            continue
        start_vals = {p: comp_value(last_state(h, idx, p) or {"ents": []}, uuid, ty) for p in h.peers()}
        shown = {p: [start_vals[p]] for p in h.peers()}
        msgs = 0
        for ev in h.events[idx:end]:
            if ev["ev"] == "frame" and ev.get("state") is not None:
                v = comp_value(ev["state"], uuid, ty)
                if shown[ev["peer"]][-1] != v:
                    shown[ev["peer"]].append(v)
                msgs += sum(1 for m in ev["recv"] if m["msg"]["k"] == "comp" and m["msg"]["id"] == uuid and m["msg"]["name"] == path)
        w = ph["writer"]
        for p in h.peers():
            if p == w:
                continue
            seq = shown[p][1:]
            if not is_subsequence(seq, writes):
                fails.append(("C10", "reader %d showed a value sequence that is not a subsequence of the writes" % p,
                              {"phase": ph, "shown": len(seq), "writes": len(writes)}))
        if drain and drain[1]["quiescent"]:
            for p in h.peers():
                if shown[p][-1] != writes[-1]:
                    fails.append(("C02", "peer %d holds a value different from the most recent write after the drain" % p,
                                  {"phase": ph, "uuid": uuid, "ty": ty, "writer": w}))
                    if p != w:
                        fails.append(("C10", "reader %d does not end with the last written value" % p, {"phase": ph}))
                    break
        elif drain and not drain[1]["quiescent"]:
            fails.append(("C09", "message flow did not stop within the cap after the last operation", {"phase": ph, "rounds": drain[1]["rounds"]}))
        if msgs > len(writes) * max(n, 1):
            fails.append(("C09", "%d ComponentUpdated messages for %d writes with %d clients (bound: writes x clients)" % (msgs, len(writes), n),
                          {"phase": ph}))
    fails += oracle_initial_values(h)
    fails += oracle_wide(h)
    fails += oracle_side_writes(h)
    return fails


def oracle_side_writes(h):
    """writes another peer makes to *another* entity while a phase lasts (one writer per key): at the drain that closes the
    phase every connected peer holds what that writer wrote last"""
    fails = []
    binds = {b["h"]: b["uuid"] for b in h.events if b["ev"] == "bind"}
    pending = {}      # (uuid, ty) -> (peer, bytes of its last write)
    expect = None
    for i, e in enumerate(h.events):
        if e["ev"] == "phase":
            pending = {}
        elif e["ev"] == "side_write":
            expect = (e["peer"], e["h"], e["ty"])
        elif e["ev"] == "op" and e["op"] == "write" and expect and (e["peer"], e["h"], e["val"]["ty"]) == expect:
            u = e.get("uuid") or binds.get(e["h"])
            if u is not None and e["val"]["ty"] in h.registered:
                pending[(u, e["val"]["ty"])] = (e["peer"], e["bytes"])
            expect = None
        elif e["ev"] == "drain" and e["quiescent"]:
            for (u, ty), (w, want) in pending.items():
                sw = last_state(h, i, w)
                if sw is None or ent_of(sw, u) is None or (w != 0 and sw.get("client_state") != "Connected"):
                    continue
                for p in h.peers():
                    st = last_state(h, i, p)
                    if st is None or (p != 0 and st.get("client_state") != "Connected") or ent_of(st, u) is None:
                        continue
                    if comp_value(st, u, ty) != want:
                        fails.append(("C02", "peer %d holds a value different from the most recent write of peer %d to another entity (written while "
                                      "pushes of the same type were arriving)" % (p, w), {"uuid": u[:8], "ty": ty, "writer": w}))
                        break
            pending = {}
    return fails


def oracle_wide(h):
    """a frame in which one peer changes more than a thousand components at once: every other peer shows, for each of
    them, a subsequence of what was written, in order, and ends with the last value (C10); after the drain every peer holds
    it (C02); the traffic stops (C09)"""
    fails = []
    binds = {b["h"]: b["uuid"] for b in h.events if b["ev"] == "bind"}
    for wi, we in enumerate(h.events):
        if we["ev"] != "wide":
            continue
        w, ty = we["writer"], we["ty"]
        uu = set(binds[x] for x in we["hs"] if x in binds)
        drain = next(((j, e) for j, e in enumerate(h.events) if j > wi and e["ev"] == "drain" and e.get("wide")), None)
        end = drain[0] if drain else len(h.events)
        start_states = {p: last_state(h, wi, p) for p in h.peers()}
        written = {u: [] for u in uu}
        for p, st in start_states.items():
            if p == w and st is not None:
                for e in st["ents"]:
                    if e["uuid"] in written:
                        written[e["uuid"]].append(e["comps"].get(ty))
        shown = {p: {} for p in h.peers()}
        for p, st in start_states.items():
            if st is not None:
                for e in st["ents"]:
                    if e["uuid"] in uu:
                        shown[p][e["uuid"]] = [e["comps"].get(ty)]
        for e in h.events[wi:end]:
            if e["ev"] == "op" and e["op"] == "write" and e.get("uuid") in written and e["val"]["ty"] == ty:
                written[e["uuid"]].append(e["bytes"])
            elif e["ev"] == "frame" and e.get("state") is not None:
                sp = shown[e["peer"]]
                for x in e["state"]["ents"]:
                    u = x["uuid"]
                    if u in uu:
                        v = x["comps"].get(ty)
                        l = sp.setdefault(u, [])
                        if not l or l[-1] != v:
                            l.append(v)
        if drain and not drain[1]["quiescent"]:
            fails.append(("C09", "message flow did not stop within the cap after a frame with %d changes" % len(uu), {"writer": w}))
            continue
        for p in h.peers():
            if p == w:
                continue
            bad_seq = [u for u in uu if not is_subsequence(shown[p].get(u, []), written[u])]
            bad_end = [u for u in uu if not shown[p].get(u) or shown[p][u][-1] != written[u][-1]]
            if bad_seq:
                fails.append(("C10", "reader %d showed a value sequence that is not a subsequence of the writes (%d of %d components changed in one frame)"
                              % (p, len(bad_seq), len(uu)), {"writer": w, "uuid": bad_seq[0][:8]}))
            if bad_end and drain:
                fails.append(("C10", "reader %d does not end with the last written value (%d of %d components changed in one frame)"
                              % (p, len(bad_end), len(uu)), {"writer": w, "uuid": bad_end[0][:8]}))
                fails.append(("C02", "peer %d holds a value different from the most recent write after the drain (%d of %d components changed in one frame)"
                              % (p, len(bad_end), len(uu)), {"writer": w, "uuid": bad_end[0][:8]}))
    return fails


def oracle_initial_values(h):
    """C02, 'values the entity already carried when it was marked': at every quiescent drain every connected peer holds,
    for every component a marked entity was spawned with, what the spawning peer holds"""
    fails = []
    binds = {b["h"]: b["uuid"] for b in h.events if b["ev"] == "bind"}
    carried = []    # (event index, peer, uuid, ty)
    for i, e in enumerate(h.events):
        if e["ev"] == "op" and e["op"] == "spawn" and e.get("mark") and e.get("comps"):
            u = binds.get(e["h"])
            if u is None:
                continue
            for cv in e["comps"]:
                if cv["ty"] in h.registered:
                    carried.append((i, e["peer"], u, cv["ty"]))
        if e["ev"] == "drain" and e["quiescent"]:
            for (j, origin, u, ty) in carried:
                so = last_state(h, i, origin)
                if so is None or ent_of(so, u) is None:
                    continue
                if origin != 0 and so.get("client_state") != "Connected":
                    continue
                want = comp_value(so, u, ty)
                for p in h.peers():
                    st = last_state(h, i, p)
                    if p == origin or st is None or (p != 0 and st.get("client_state") != "Connected"):
                        continue
                    if ent_of(st, u) is None:
                        continue      # entity-level convergence is C01
                    got = comp_value(st, u, ty)
                    if got != want:
                        fails.append(("C02", "peer %d does not hold the %s value the entity carried when peer %d marked it (%s)"
                                      % (p, ty, origin, "absent" if got is None else "different"), {"uuid": u[:8], "ty": ty, "origin": origin}))
                        break
    return fails


def mark_lines(h, legacy):
    """one Mark-slice instance per (marked spawn after the connection, carried component): how often the marking peer
    announced the value before anybody wrote that key again, against the model under this run's system order"""
    out = []
    binds = {b["h"]: b["uuid"] for b in h.events if b["ev"] == "bind"}
    sched = {e["peer"]: e["order"] for e in h.events if e["ev"] == "sched"}
    connected_at = next((i for i, e in enumerate(h.events) if e["ev"] == "connected"), None)
    if connected_at is None or any(e["ev"] in ("late_join", "left") for e in h.events):
        return out
    for i, e in enumerate(h.events):
        if i < connected_at or not (e["ev"] == "op" and e["op"] == "spawn" and e.get("mark") and e.get("comps")):
            continue
        u = binds.get(e["h"])
        p = e["peer"]
        order = sched.get(p)
        if u is None or order is None or "apply_deferred" not in order:
            continue
        for cv in e["comps"]:
            ty = cv["ty"]
            if ty not in h.registered or ty not in h.types:
                continue
            path = h.types[ty]
            sysname = "sync_detect<%s>" % path.split("::")[-1]
            if sysname not in order:
                continue
            before = order.index(sysname) < order.index("apply_deferred")
            # until the key is written again (by anybody) or the history ends
            end = len(h.events)
            for j in range(i + 1, len(h.events)):
                x = h.events[j]
                if x["ev"] == "op" and x["op"] == "write" and x.get("uuid") == u and x["val"]["ty"] == ty:
                    end = j
                    break
                if x["ev"] == "op" and x["op"] in ("despawn", "exclude") and x.get("h") == e["h"]:
                    end = j
                    break
            frames = sum(1 for x in h.events[i:end] if x["ev"] == "frame" and x["peer"] == p)
            if frames < 2:
                continue
            # announcements as seen by one receiver: the host for a client's mark, the first client for the host's
            rcv = 0 if p != 0 else 1
            if rcv > h.nclients:
                continue
            # everything the marking peer sent until `end` has to be counted: look a few frames further at the receiver
            seen = 0
            for x in h.events[i:]:
                if x["ev"] == "frame" and x["peer"] == rcv:
                    for m in x["recv"]:
                        if m["msg"]["k"] == "comp" and m["msg"]["id"] == u and m["msg"]["name"] == path and (p == 0 or m.get("from") == p):
                            seen += 1
            if end != len(h.events):
                continue      # a later write would add its own announcement to the count: only untouched keys are compared
            out.append("mark %s/%s.%s %d %d %d %d" % (h.id, u[:8], ty, 1 if legacy else 0, 1 if before else 0, frames, seen))
    return out


# ------------------------------------------------------------------ C08: fault cases

FAULT_STEPS = {
    # receiver world: x = 1, y = 2, z = 3 ; {P} = spc on a client receiver, sph on the host
    "comp+despawn_cmd": ("1.2.3", ["ad:1;ac:1:1", "ac:1:1;ad:1"]),
    "comp+despawn_between": ("2.3", ["ac:1:1", "in"]),
    "comp+delete_same_frame": ("1.2.3", ["ac:1:1;dc:1", "dc:1;ac:1:1"]),
    "comp_unregistered_on_receiver": ("1.2.3", ["ac:1:0"]),
    "parented+child_despawn_cmd": ("1.2.3", ["ad:1;{P}:1:2:1", "{P}:1:2:1;ad:1"]),
    "parented+parent_despawn_cmd": ("1.2.3", ["ad:2;{P}:1:2:1", "{P}:1:2:1;ad:2"]),
    "parented+parent_despawn_between": ("1.3", ["{P}:1:2:1", "in"]),
    "parented+child_despawn_between": ("2.3", ["{P}:1:2:1", "in"]),
    "delete+delete_crossing": ("2.3", ["dc:1", "in"]),
    "delete+despawn_cmd": ("1.2.3", ["ad:1;dc:1", "dc:1;ad:1"]),
    "spawn+delete_same_frame": ("1.2.3", ["sp:4;ac:4:1;dc:4"]),
    "comp_burst+despawn_cmd": ("1.2.3", ["ad:1;ac:1:1;ac:1:1;ac:1:1", "ac:1:1;ac:1:1;ac:1:1;ad:1"]),
    "parented_chain+despawn_cmd": ("1.2.3", ["ad:2;{P}:1:2:1;{P}:2:3:1", "{P}:1:2:1;{P}:2:3:1;ad:2"]),
    "comp+sender_despawns_after_write": ("1.2.3", ["ac:1:1;dc:1"]),
    "reparent+old_parent_despawn_cmd": ("1.2.3", ["ad:2;{P}:1:3:1", "{P}:1:3:1;ad:2"]),
    "delete_parent_with_child": ("1.2.3", ["dc:2"]),
    "comp_large_value": ("1.2.3", ["ac:1:1"]),
}


def fault_lines(h, guards):
    """the model's verdict for every ordering of the flush of this fault case vs what the implementation did.
    The implementation picks one order per run (topological order is random), so the comparison is:
    implementation panicked  =>  the model panics for at least one order;  the model panics for every
    order  =>  the implementation panicked."""
    case = h.header.get("case")
    if case not in FAULT_STEPS:
        return []
    world, variants = FAULT_STEPS[case]
    p = "sph" if h.header.get("to_host") else "spc"
    g = "".join("1" if guards.get(k, True) else "0" for k in
                ("guardApplyLooksUp", "guardClientParentLooksUp", "guardServerParentLooksUp", "guardDecodeTotal"))
    fault_end = next((i for i, e in enumerate(h.events) if e["ev"] == "fault_done"), len(h.events))
    panicked_in_fault = any(e["ev"] == "frame" and e.get("panic") for e in h.events[:fault_end])
    out = []
    for k, v in enumerate(variants):
        out.append(("%s#%d" % (h.id, k), v.replace("{P}", p), world, g, panicked_in_fault))
    return out


def oracle_fault(h):
    fails = []
    if h.panic:
        fails.append(("C08", "a peer panicked on conforming traffic (%s, %s): %s" % (
            h.header.get("case"), "client->host" if h.header.get("to_host") else "host->client", str(h.panic.get("msg"))[:160]), {"case": h.header.get("case")}))
        return fails
    fin = [e for e in h.events if e["ev"] == "drain" and e.get("final")]
    if not fin or not fin[0]["quiescent"]:
        fails.append(("C08", "replication did not settle after the fault case", {"case": h.header.get("case")}))
        return fails
    fresh = fin[0].get("fresh")
    uuid = next((b["uuid"] for b in h.events if b["ev"] == "bind" and b["h"] == fresh), None)
    if fresh is not None:
        vals = set()
        for p in h.peers():
            st = last_state(h, len(h.events), p)
            vals.add(comp_value(st, uuid, "A") if (st and uuid) else None)
        if len(vals) != 1 or None in vals:
            fails.append(("C08", "the peer stopped replicating after the fault case: a fresh entity/value did not reach every peer", {"case": h.header.get("case")}))
    if h.header.get("case") == "comp_large_value":
        # the message is meaningful: it must have been applied, not ignored
        big = set()
        for p in h.peers():
            st = last_state(h, len(h.events), p)
            big.add(tuple(sorted(x["comps"].get("V", "") for x in (st["ents"] if st else []) if x["comps"].get("V", "").startswith("sha:"))))
        if len(big) != 1 or () in big:
            fails.append(("C08", "a large component value (one message of 70 - 300 kB) was not applied on every peer", {"case": "comp_large_value"}))
    return fails


# ------------------------------------------------------------------ C16: skinned meshes

def skin_cases(h):
    """for every drained SkinnedMesh phase: (instance, driver line, oracle failures)"""
    binds = {b["h"]: b["uuid"] for b in h.events if b["ev"] == "bind"}
    out, fails = [], []
    phases = [(i, e) for i, e in enumerate(h.events) if e["ev"] == "phase" and e["ty"] == "Skinned"]
    for k, (idx, ph) in enumerate(phases):
        end = phases[k + 1][0] if k + 1 < len(phases) else len(h.events)
        drains = [e for e in h.events[idx:end] if e["ev"] == "drain"]
        if not drains:
            continue
        if not drains[-1]["quiescent"]:
            fails.append(("C16", "traffic caused by a SkinnedMesh update did not stop", {"phase": ph}))
            continue
        uuid = binds.get(ph["h"])
        want = [binds.get(j) for j in ph["joints"]]
        w = ph["writer"]
        peers = [p for p in range(h.nclients + 1 + sum(1 for e in h.events[:end] if e["ev"] == "late_join"))]
        wst = last_state(h, end, w)
        went = ent_of(wst, uuid) if wst else None
        if not went or not went.get("skinned"):
            continue
        ids = {}
        def uid(u):
            return ids.setdefault(u, len(ids) + 1)
        for p in peers:
            st = last_state(h, end, p)
            if st is None:
                continue
            e = ent_of(st, uuid)
            if e is None or not e.get("skinned"):
                fails.append(("C16", "peer %d has no SkinnedMesh after the drain" % p, {"phase": ph}))
                continue
            if e["skinned"]["joints"] != want:
                fails.append(("C16", "peer %d: joints differ from the writer's list (number, order or identity)" % p,
                              {"phase": ph, "got": len(e["skinned"]["joints"]), "want": len(want)}))
            if e["skinned"]["poses"] != went["skinned"]["poses"]:
                fails.append(("C16", "peer %d: inverse bind poses differ from the writer's" % p, {"phase": ph}))
            if p != w:
                e2u = " ".join("%d:%d" % (x[0], uid(x[1])) for x in wst["tracker"]["e2u"])
                u2e = " ".join("%d:%d" % (uid(x[0]), x[1]) for x in st["tracker"]["u2e"])
                jl = ".".join(map(str, went["skinned"]["joints_local"])) or "-"
                exp = ".".join(map(str, e["skinned"]["joints_local"])) or "-"
                out.append("skin %s/%d/%d E2U %s U2E %s JOINTS %s EXPECT %s" % (h.id, k, p, e2u.replace(" ", ",") or "-", u2e.replace(" ", ",") or "-", jl, exp))
    # at the final drain every peer — a client that joined through the snapshot included — holds, for every skinned entity,
    # the joints and bind poses of its last writer
    fin = [i for i, e in enumerate(h.events) if e["ev"] == "drain" and e.get("final")]
    if fin and h.events[fin[-1]]["quiescent"]:
        i = fin[-1]
        lastph = {}
        for idx, ph in phases:
            lastph[ph["h"]] = ph
        npeers = h.nclients + 1 + sum(1 for e in h.events if e["ev"] == "late_join" and e.get("ok"))
        for hh, ph in lastph.items():
            uuid = binds.get(hh)
            wst = last_state(h, i, ph["writer"])
            went = ent_of(wst, uuid) if wst and uuid else None
            if not went or not went.get("skinned"):
                continue
            for p in range(npeers):
                st = last_state(h, i, p)
                if st is None or (p != 0 and st.get("client_state") != "Connected"):
                    continue
                e = ent_of(st, uuid)
                if e is None or not e.get("skinned"):
                    fails.append(("C16", "peer %d has no SkinnedMesh at the end" % p, {"phase": ph}))
                elif e["skinned"]["joints"] != went["skinned"]["joints"]:
                    fails.append(("C16", "peer %d: at the end the joints differ from the writer's (number, order or identity)" % p, {"phase": ph}))
                elif e["skinned"]["poses"] != went["skinned"]["poses"]:
                    fails.append(("C16", "peer %d: at the end the inverse bind poses differ from the writer's" % p, {"phase": ph}))
    return out, fails


# ------------------------------------------------------------------ C17: companions of replicated render components

FIX_SYSTEMS = ["fix_visibility_bundle", "fix_missing_global_transforms", "fix_missing_cubemap_frusta",
               "fix_missing_cubemap_visible_entities", "fix_missing_cubemap_frustum_spot", "fix_missing_cubemap_frusta_directional",
               "fix_missing_cubemap_visible_entities_directional", "fix_missing_cascades_directional",
               "fix_missing_cascades_shadow_config_directional"]
KIND_TOK = {"Transform": "transform", "Visibility": "visibility", "PointLight": "pointLight", "SpotLight": "spotLight", "DirLight": "dirLight"}
COMPANIONS = {"Transform": ["GlobalTransform"], "Visibility": ["InheritedVisibility", "ViewVisibility"],
              "PointLight": ["CubemapFrusta", "CubemapVisibleEntities"], "SpotLight": ["Frustum"],
              "DirLight": ["CascadesFrusta", "CascadesVisibleEntities", "Cascades", "CascadeShadowConfig"]}
ALL_COMPANIONS = ["GlobalTransform", "InheritedVisibility", "ViewVisibility", "CubemapFrusta", "CubemapVisibleEntities", "Frustum",
                  "CascadesFrusta", "CascadesVisibleEntities", "Cascades", "CascadeShadowConfig"]


def fix_cases(h, reinserts):
    """per peer: the fix machinery of that peer replayed on the model, plus the oracle"""
    lines, fails = [], []
    fc = next((e for e in h.events if e["ev"] == "fix_case"), None)
    if fc is None:
        return lines, fails
    uuid = next((b["uuid"] for b in h.events if b["ev"] == "bind" and b["h"] == fc["h"]), None)
    if uuid is None:
        return lines, fails
    start = h.events.index(fc)
    # frames before the case: find for each peer the index from which we replay (entity known, nothing of the kinds present)
    for p in h.peers():
        script = []
        sched = None
        for ev in h.events:
            if ev["ev"] == "sched" and ev["peer"] == p:
                sched = ev["order"]
        have = {k: False for k in KIND_TOK}
        comp_present = set()
        first_seen = {}
        frame_no = 0
        prev_val = {}
        for ev in h.events[start:]:
            if ev["ev"] == "sched" and ev["peer"] == p:
                sched = ev["order"]
            elif ev["ev"] == "op" and ev["op"] == "add_companions" and ev["peer"] == p:
                for k in ev["kinds"]:
                    for c in COMPANIONS[k]:
                        script.append("ac:%s" % c)
                        comp_present.add(c)
            elif ev["ev"] == "op" and ev["op"] == "write" and ev["peer"] == p and ev.get("uuid") == uuid and ev["val"]["ty"] in KIND_TOK:
                # a local write lands before the peer's next frame
                script.append("ar:%s:%d" % (KIND_TOK[ev["val"]["ty"]], ev["val"]["n"]))
                have[ev["val"]["ty"]] = True
            elif ev["ev"] == "frame" and ev["peer"] == p and ev.get("state") is not None:
                frame_no += 1
                order = [str(FIX_SYSTEMS.index(s)) for s in (sched or []) if s in FIX_SYSTEMS]
                script.append("fr:" + ".".join(order))
                e = ent_of(ev["state"], uuid)
                if e is None:
                    continue
                # values that arrived from the network in this frame land at its end, after the fix systems ran
                for k in KIND_TOK:
                    v = e["comps"].get(k)
                    if v is not None and prev_val.get(k) != v and not have[k]:
                        script.append("ar:%s:%d" % (KIND_TOK[k], 0))
                        have[k] = True
                        first_seen[k] = frame_no
                    elif v is not None and k not in first_seen:
                        first_seen.setdefault(k, frame_no - 1)
                    prev_val[k] = v
                script.append("x:" + ".".join(sorted(e["companions"])) if e["companions"] else "x:-")
                # oracle: one frame after a kind landed all its companions are present
                for k, f0 in first_seen.items():
                    if frame_no >= f0 + 1:
                        missing = [c for c in COMPANIONS[k] if c not in e["companions"]]
                        if missing:
                            fails.append(("C17", "peer %d: %s landed but %s is still missing a frame later" % (p, k, missing[0]), {"case": fc}))
                if fc["present"] and p != fc["origin"] and "Transform" in fc["kinds"]:
                    if e.get("gt") not in (None, "411000004110000041100000"):
                        fails.append(("C17", "peer %d: an already present GlobalTransform was overwritten" % p, {"case": fc}))
        if script:
            lines.append("fixrun %s/%d %d %s" % (h.id, p, 1 if reinserts else 0, ";".join(script)))
    return lines, fails


# ------------------------------------------------------------------ C04: only opted-in data leaves a peer

TY_NUM = {"A": 1, "B": 2, "E": 3, "V": 4, "U": 5, "Transform": 6, "Name": 7, "Visibility": 8, "PointLight": 9, "SpotLight": 10,
          "DirLight": 11, "HMesh": 12, "HMat": 13, "Skinned": 14}
ASSET_KEYS = {"mat": "material", "mesh": "mesh", "image": "image", "audio": "audio"}


def peer_cfgs(h):
    cfg = {}
    for e in h.events:
        if e["ev"] == "cfg":
            for p in e["peers"]:
                cfg[p["peer"]] = p
    return cfg


def filter_checks(h):
    """attribute every received message to the peer that originated it and evaluate the property's
    predicate on that peer's own configuration (implementation oracle) and through the model (lines)"""
    lines, fails = [], []
    cfg = peer_cfgs(h)
    path_ty = {v: k for k, v in h.types.items()}
    # per peer: list of (event index, state)
    states = {}
    for i, e in enumerate(h.events):
        if e["ev"] == "frame" and e.get("state") is not None:
            states.setdefault(e["peer"], []).append((i, e["state"]))
    relayed = set()     # (kind, uuid, payload) the host received from a client: the host relays these
    n = 0
    for i, e in enumerate(h.events):
        if e["ev"] != "frame":
            continue
        rcv = e["peer"]
        for m in e["recv"]:
            msg = m["msg"]
            k = msg["k"]
            if k not in ("spawn", "comp", "mat", "mesh", "image", "audio"):
                continue
            key = (k, msg.get("id"), msg.get("name"), msg.get("data"), msg.get("url"))
            if m["as_server"]:
                origin = m.get("from")
                relayed.add(key)
            else:
                if key in relayed:
                    continue          # relayed by the host, already judged at its origin
                origin = 0
            if origin is None or origin not in cfg:
                continue
            window = [s for (j, s) in states.get(origin, []) if j < i][-4:]
            if not window:
                continue
            n += 1
            inst = "%s/%d" % (h.id, n)
            c = cfg[origin]
            reg = ".".join(str(TY_NUM[t]) for t in c["registered"]) or "-"
            if k == "comp":
                ty = path_ty.get(msg["name"])
                tnum = TY_NUM.get(ty, 99)
                ok_any, line = False, None
                for st in window:
                    en = ent_of(st, msg["id"])
                    if en is None:
                        continue
                    comps = ".".join(str(TY_NUM[t]) for t in en["comps"] if t in TY_NUM) or "-"
                    excl = ".".join(str(TY_NUM[t]) for t in en["excl"]) or "-"
                    line = "filter %s comp %s 1 %s %s %d" % (inst, reg, comps, excl, tnum)
                    if ty in c["registered"] and ty in en["comps"] and ty not in en["excl"]:
                        ok_any = True
                        break
                if line is None:
                    continue      # the entity is gone on the originator: cannot be judged
                lines.append(line if ok_any else line)
                if not ok_any:
                    fails.append(("C04", "peer %d originated a ComponentUpdated for %s which is %s there" % (
                        origin, ty, "not registered" if ty not in c["registered"] else "excluded or absent"), {"msg": {"k": k, "id": msg["id"], "name": msg["name"]}}))
            elif k == "spawn":
                ok_any = any(ent_of(st, msg["id"]) is not None for st in window)
                later = any(ent_of(s, msg["id"]) is not None for (j, s) in states.get(origin, []))
                lines.append("filter %s spawn %d" % (inst, 1 if (ok_any or later) else 0))
                if not (ok_any or later):
                    fails.append(("C04", "peer %d announced an entity it never held as a SyncEntity" % origin, {"msg": msg}))
            else:
                cls = ASSET_KEYS[k]
                sw = {"material": c["materials"], "image": c["materials"], "mesh": c["meshes"], "audio": c["audios"]}[cls]
                has = any(msg["id"] in (st["assets"].get(cls) or {}) for st in window)
                lines.append("filter %s asset %d%d%d %s %d" % (inst, c["materials"], c["meshes"], c["audios"], cls, 1 if has else 0))
                if not sw:
                    fails.append(("C04", "peer %d originated a %s update although that class is disabled there" % (origin, cls), {"msg": {"k": k, "id": msg["id"]}}))
                elif not has:
                    fails.append(("C04", "peer %d originated a %s update for an id it does not hold as a uuid asset" % (origin, cls), {"msg": {"k": k, "id": msg["id"]}}))
    return lines, fails


# ------------------------------------------------------------------ C01: synchronized entities

def oracle_entities(h):
    fails = []
    npeers = h.nclients + 1
    for i, e in enumerate(h.events):
        if e["ev"] == "frame" and e.get("state") is not None:
            uu = [x["uuid"] for x in e["state"]["ents"]]
            if len(uu) != len(set(uu)):
                fails.append(("C01", "peer %d holds two live entities with the same uuid" % e["peer"], {"frame": e["n"]}))
        if e["ev"] == "drain" and e["quiescent"]:
            sets = {}
            for p in range(npeers + sum(1 for x in h.events[:i] if x["ev"] == "late_join")):
                st = last_state(h, i, p)
                if st is None:
                    continue
                if p != 0 and st.get("client_state") != "Connected":
                    continue
                sets[p] = set(x["uuid"] for x in st["ents"])
                tr = st["tracker"]
                u2e = {a: b for a, b in tr["u2e"]}
                live = {x["uuid"]: x["local"] for x in st["ents"]}
                for u, loc in live.items():
                    if u2e.get(u) != loc:
                        fails.append(("C01", "peer %d: uuid_to_entity does not map a live synchronized entity to itself" % p, {"uuid": u}))
                        break
            # exactly the entities the applications created and did not despawn (histories in which nobody leaves)
            if not any(x["ev"] == "op" and x["op"] in ("disconnect", "stop_host") for x in h.events):
                binds = {b["h"]: b["uuid"] for b in h.events[:i] if b["ev"] == "bind"}
                gone = set(x["h"] for x in h.events[:i] if x["ev"] == "op" and x["op"] in ("despawn", "despawn_cmd") and x.get("done", True))
                expected = set(binds[x["h"]] for x in h.events[:i]
                               if x["ev"] == "op" and x["op"] == "spawn" and x.get("mark") and x["h"] in binds and x["h"] not in gone)
                for p, got in sets.items():
                    lost = expected - got
                    if lost:
                        fails.append(("C01", "peer %d no longer holds a synchronized entity that no application despawned" % p,
                                      {"uuids": sorted(u[:8] for u in lost)[:6]}))
                        break
                despawned = set(binds[hh] for hh in gone if hh in binds)
                spurious = set()
                for x in h.events[:i]:
                    if x["ev"] == "frame":
                        for m in x["recv"]:
                            if m["msg"]["k"] == "delete" and m["msg"]["id"] not in despawned and m["msg"]["id"] in binds.values():
                                spurious.add(m["msg"]["id"])
                if spurious:
                    fails.append(("C09", "an EntityDelete was sent for an entity no application despawned (a peer turned an applied change into a change of its own)",
                                  {"uuids": sorted(u[:8] for u in spurious)[:6]}))
            vals = list(sets.values())
            if vals and any(v != vals[0] for v in vals):
                allu = set().union(*vals)
                diff = [(u[:8], [p for p, s in sets.items() if u in s]) for u in allu if any(u not in s for s in vals)]
                fails.append(("C01", "after the drain the peers hold different sets of synchronized entities", {"differences": diff[:6]}))
    return fails


def ent_instances(h):
    """one slice instance per uuid that is created in the history (marks before or after the connection)"""
    binds = {b["h"]: b["uuid"] for b in h.events if b["ev"] == "bind"}
    spawns = [e for e in h.events if e["ev"] == "op" and e["op"] == "spawn" and e["mark"]]
    if any(e["ev"] == "late_join" for e in h.events):
        return
    n = h.nclients
    for sp in spawns:
        uuid = binds.get(sp["h"])
        if uuid is None:
            continue
        inst = "%s/%s" % (h.id, uuid[:8])
        lines = ["sbegin ent %s %d" % (inst, n)]
        sched = {}
        left = set()
        started = False
        connected = set([0])
        for ev in h.events:
            if ev["ev"] == "sched":
                sched[ev["peer"]] = ev["order"]
            if ev is sp:
                started = True
                lines.append("a markH" if sp["peer"] == 0 else "a markC %d" % sp["peer"])
                continue
            if not started:
                continue
            if ev["ev"] == "op" and ev["op"] == "despawn" and ev["h"] == sp["h"] and ev.get("done"):
                lines.append("a despawnH" if ev["peer"] == 0 else "a despawnC %d" % ev["peer"])
            elif ev["ev"] == "op" and ev["op"] == "disconnect":
                left.add(ev["peer"])
            elif ev["ev"] == "frame" and ev.get("state") is not None:
                p = ev["peer"]
                st = ev["state"]
                if p in left:
                    continue
                running = (st.get("server_state") == "Connected") if p == 0 else (st.get("client_state") == "Connected")
                # the host stops listing a client once renet has dropped it
                recv = [m for m in ev["recv"] if m["msg"]["k"] in ("spawn", "delete") and m["msg"]["id"] == uuid]
                order = sched.get(p, [])
                role = "server." if p == 0 else "client."
                if running or recv:
                    for sysname in order:
                        if sysname == role + "entity_removed_from_" + ("server" if p == 0 else "client"):
                            lines.append("a removedH" if p == 0 else "a removedC %d" % p)
                        elif sysname == role + "entity_created_on_" + ("server" if p == 0 else "client"):
                            lines.append("a createdH" if p == 0 else "a createdC %d" % p)
                    if recv:
                        if p == 0:
                            i = 0
                            while i < len(recv):
                                j = i
                                while j < len(recv) and recv[j].get("from") == recv[i].get("from"):
                                    j += 1
                                lines.append("a pollH %s %d" % (recv[i].get("from"), j - i))
                                i = j
                        else:
                            lines.append("a pollC %d %d" % (p, len(recv)))
                if p == 0:
                    # clients the host no longer lists have left as far as the model is concerned
                    pass
                cnt = sum(1 for x in st["ents"] if x["uuid"] == uuid)
                tr = st["tracker"]
                tracked = any(x[1] == uuid for x in tr["e2u"]) if p == 0 else any(x[0] == uuid for x in tr["u2e"])
                marked_unknown = 0
                lines.append(("x H %d %d" % (cnt, 1 if tracked else 0)) if p == 0 else ("x C %d %d %d" % (p, cnt, 1 if tracked else 0)))
        lines.append("send")
        yield inst, lines, {}


# ------------------------------------------------------------------ C05: parent links

def oracle_parents(h):
    fails = []
    npeers = h.nclients + 1
    for i, e in enumerate(h.events):
        if e["ev"] != "drain":
            continue
        if not e["quiescent"]:
            fails.append(("C05", "the exchange triggered by set-parent operations did not terminate (still traffic after %d rounds)" % e["rounds"], {}))
            continue
        views = {}
        for p in range(npeers):
            st = last_state(h, i, p)
            if st is None:
                continue
            par = {x["uuid"]: x["parent"] for x in st["ents"]}
            views[p] = par
            # hierarchy well-formedness on this peer
            listed = {}
            for x in st["ents"]:
                for c in x["children"]:
                    listed.setdefault(c, []).append(x["uuid"])
            for x in st["ents"]:
                u, pu = x["uuid"], x["parent"]
                if pu not in (None, "unsynced"):
                    n = listed.get(u, []).count(pu)
                    if n != 1:
                        fails.append(("C05", "peer %d: a child is listed %d times among its parent's children" % (p, n), {"child": u[:8]}))
                    if any(q != pu for q in listed.get(u, [])):
                        fails.append(("C05", "peer %d: a child is also listed under another parent" % p, {"child": u[:8]}))
        if views:
            base = views[0]
            for p, v in views.items():
                for u in set(base) & set(v):
                    if base[u] != v[u] and "unsynced" not in (base[u], v[u]):
                        fails.append(("C05", "after the drain peer %d and the host disagree on an entity's parent" % p, {"child": u[:8], "host": str(base[u])[:8], "peer": str(v[u])[:8]}))
                        break
    return fails


def parent_instances(h):
    """parent slice = component slice with relayAlways: key = child uuid, value = parent uuid"""
    binds = {b["h"]: b["uuid"] for b in h.events if b["ev"] == "bind"}
    ppath = "bevy_hierarchy::components::parent::Parent"
    first_drain = next((i for i, e in enumerate(h.events) if e["ev"] == "drain"), None)
    if first_drain is None:
        return
    children = []
    for e in h.events[first_drain:]:
        if e["ev"] == "op" and e["op"] == "set_parent" and binds.get(e["h"]) and binds[e["h"]] not in children:
            children.append(binds[e["h"]])
    n = h.nclients
    for uuid in children:
        ids = {}
        def tok(u):
            if u is None:
                return "-"
            return str(ids.setdefault(u, len(ids) + 1))
        init, ok = [], True
        for p in h.peers():
            st = last_state(h, first_drain, p)
            en = ent_of(st, uuid) if st else None
            if en is None or en["parent"] == "unsynced":
                ok = False
                break
            init.append(tok(en["parent"]))
        if not ok:
            continue
        inst = "%s/%s/parent" % (h.id, uuid[:8])
        lines = ["sbegin comp %s %d 0 R %s" % (inst, n, " ".join(init))]
        sched = {}
        for ev in h.events[:first_drain]:
            if ev["ev"] == "sched":
                sched[ev["peer"]] = ev["order"]
        for ev in h.events[first_drain:]:
            if ev["ev"] == "sched":
                sched[ev["peer"]] = ev["order"]
            elif ev["ev"] == "op" and ev["op"] == "set_parent" and binds.get(ev["h"]) == uuid:
                v = tok(binds.get(ev["parent"]))
                lines.append("a writeH %s" % v if ev["peer"] == 0 else "a writeC %d %s" % (ev["peer"], v))
            elif ev["ev"] == "frame" and ev.get("state") is not None:
                p = ev["peer"]
                recv = [m for m in ev["recv"] if m["msg"]["k"] == "parented" and m["msg"]["id"] == uuid]
                role = "server." if p == 0 else "client."
                flushes = 0
                for sysname in sched.get(p, []):
                    if sysname == role + "entity_parented_on_" + ("server" if p == 0 else "client"):
                        lines += ["a detectH", "a reactH"] if p == 0 else ["a detectC %d" % p, "a reactC %d" % p]
                    elif sysname == role + "poll_for_messages":
                        if p == 0:
                            i = 0
                            while i < len(recv):
                                j = i
                                while j < len(recv) and recv[j].get("from") == recv[i].get("from"):
                                    j += 1
                                lines.append("a pollH %s %d" % (recv[i].get("from"), j - i))
                                i = j
                        elif recv:
                            lines.append("a pollC %d %d" % (p, len(recv)))
                        flushes = len(recv)
                for _ in range(flushes):
                    lines.append("a flushH" if p == 0 else "a flushC %d" % p)
                st = ev["state"]
                en = ent_of(st, uuid)
                if en is None:
                    break
                obs = "%s %d 0" % (tok(en["parent"]), 1 if has_token(st, uuid, ppath) else 0)
                lines.append("x H " + obs if p == 0 else "x C %d %s" % (p, obs))
        lines.append("send")
        yield inst, lines, {}


# ------------------------------------------------------------------ C15: connection states

def oracle_conn(h):
    fails = []
    npeers = h.nclients + 1
    # per peer: sequence of (event index, kind, payload)
    for p in range(npeers):
        seq = []
        for i, e in enumerate(h.events):
            if e["ev"] == "op" and e.get("peer") == p and e["op"] in ("connect", "disconnect", "start_host", "stop_host", "remove_client_transport"):
                seq.append((i, "op", e["op"]))
            elif e["ev"] == "frame" and e["peer"] == p and e.get("state") is not None:
                seq.append((i, "frame", e))
        frames = [(i, x) for (i, k, x) in seq if k == "frame"]
        # (a) ServerState follows hosting within two frames
        for k in range(2, len(frames)):
            i0, i2 = frames[k - 2][0], frames[k][0]
            if any(kk == "op" and i0 < ii < i2 for (ii, kk, _) in seq):
                continue
            a, b, c_ = (frames[k - 2][1]["state"], frames[k - 1][1]["state"], frames[k][1]["state"])
            if a["server_transport"] == b["server_transport"] == c_["server_transport"]:
                want = "Connected" if c_["server_transport"] else "Disconnected"
                if c_["server_state"] != want:
                    fails.append(("C15", "peer %d: ServerState is %s although the server transport has been %s for two frames" % (
                        p, c_["server_state"], "present" if c_["server_transport"] else "absent"), {"frame": frames[k][1]["n"]}))
                    break
        # (b) ClientState
        last_connect = None
        for k in range(len(frames)):
            i, fr = frames[k]
            st = fr["state"]
            prev = frames[k - 1][1]["state"] if k > 0 else None
            if st["client_state"] == "Connected" and (prev is None or prev["client_state"] != "Connected"):
                if prev is None or not prev["client_connected"]:
                    fails.append(("C15", "peer %d: ClientState became Connected although the transport was not connected when it was verified" % p, {"frame": fr["n"]}))
            if fr["recv"] and p != 0 and st["client_state"] != "Connected" and not any(m["as_server"] for m in fr["recv"]):
                fails.append(("C15", "peer %d: replication acted (messages polled) while ClientState was %s" % (p, st["client_state"]), {"frame": fr["n"]}))
            if k >= 2:
                i0 = frames[k - 2][0]
                ops = [(ii, x) for (ii, kk, x) in seq if kk == "op" and i0 < ii < i]
                a, b = frames[k - 2][1]["state"], frames[k - 1][1]["state"]
                if not ops and not a["client_transport"] and not b["client_transport"] and not st["client_transport"]:
                    if st["client_state"] != "Disconnected":
                        fails.append(("C15", "peer %d: ClientState is still %s two frames after the application removed its transport" % (p, st["client_state"]), {"frame": fr["n"]}))
                        break
        # (d) InitialSyncFinished once per join / once per start of hosting: per connected stretch at most one,
        # and exactly one for a stretch that lasts until the (drained) end
        final_drain = [e for e in h.events if e["ev"] == "drain" and e.get("final")]
        drained = bool(final_drain and final_drain[0]["quiescent"])
        stretch_start_sf, in_stretch = None, False
        for k in range(len(frames)):
            st = frames[k][1]["state"]
            conn = (st["client_state"] == "Connected") if p != 0 else (st["server_state"] == "Connected")
            if conn and not in_stretch:
                in_stretch = True
                # the host raises the event in the frame that requests the state change, one frame before the state shows
                back = 2 if p == 0 else 1
                stretch_start_sf = frames[k - back][1]["state"]["sync_finished"] if k >= back else 0
            if not conn and in_stretch:
                # the stretch is over; an event counted in this frame already belongs to the next start (the host raises it
                # in the frame that requests Connected, while the state still shows Disconnected)
                in_stretch = False
            if in_stretch and st["sync_finished"] - stretch_start_sf > 1:
                fails.append(("C15", "peer %d observed InitialSyncFinished %d times within one join" % (p, st["sync_finished"] - stretch_start_sf), {"frame": frames[k][1]["n"]}))
                break
        if in_stretch and drained and frames:
            st = frames[-1][1]["state"]
            if st["sync_finished"] - stretch_start_sf != 1:
                heavy = next((e for e in h.events if e["ev"] == "heavy_world"), None)
                if (p != 0 and heavy and heavy["bytes"] >= 5 * 1024 * 1024 and st["sync_finished"] - stretch_start_sf == 0
                        and st.get("client_connected") is False and not st.get("ents")):
                    # D20: renet's reliable channel keeps at most 5 MiB of unacknowledged bytes per client; the whole snapshot is
                    # queued in one call, the channel reports exhaustion and renet disconnects the joiner
                    fails.append(("C15", "peer %d: the join is refused: the snapshot (%d bytes of component values) exceeds the reliable channel's "
                                  "memory budget, renet disconnects the joiner, nothing of the snapshot arrives and InitialSyncFinished is never observed" % (p, heavy["bytes"]), {}))
                else:
                    fails.append(("C15", "peer %d observed InitialSyncFinished %d times for its current join" % (p, st["sync_finished"] - stretch_start_sf), {}))
        # at the frame the event is raised on a client, the snapshot content has been applied
        if p != 0:
            sf = 0
            for k in range(len(frames)):
                i, fr = frames[k]
                st = fr["state"]
                if st["sync_finished"] > sf:
                    sf = st["sync_finished"]
                    # the host frame that processed this client's RequestInitialSync
                    hostreq = None
                    for j in range(i, -1, -1):
                        e = h.events[j]
                        if e["ev"] == "frame" and e["peer"] == 0 and any(m["msg"]["k"] == "reqsync" and m.get("from") == p for m in e["recv"]):
                            hostreq = e
                            break
                    if hostreq is not None and hostreq.get("state"):
                        mine = {x["uuid"]: x for x in st["ents"]}
                        for x in hostreq["state"]["ents"]:
                            y = mine.get(x["uuid"])
                            if y is None:
                                fails.append(("C15", "peer %d: InitialSyncFinished was raised before an entity of the snapshot had been created" % p, {"uuid": x["uuid"][:8]}))
                                break
                            for t, v in x["comps"].items():
                                if t in h.registered and t not in x["excl"] and y["comps"].get(t) is None:
                                    fails.append(("C15", "peer %d: InitialSyncFinished was raised before a component of the snapshot had been applied" % p, {"uuid": x["uuid"][:8], "ty": t}))
                                    break
    return fails


def conn_lines(h, legacy, strict=False):
    """per peer: transport operations, the handshake as observed, frames; the model must publish the same states"""
    out = []
    for p in range(h.nclients + 1):
        script = []
        prev_conn = False
        for e in h.events:
            if e["ev"] == "op" and e.get("peer") == p:
                if e["op"] == "start_host":
                    script.append("si")
                elif e["op"] == "stop_host":
                    script.append("sr")
                elif e["op"] == "connect":
                    script.append("ci")
                    prev_conn = False
                elif e["op"] in ("disconnect", "remove_client_transport"):
                    script.append("cr")
                    prev_conn = False
            elif e["ev"] == "frame" and e["peer"] == p and e.get("state") is not None:
                st = e["state"]
                if st["client_connected"] != prev_conn:
                    script.append("k1" if st["client_connected"] else "k0")
                    prev_conn = st["client_connected"]
                script.append("f")
                script.append("x:%s:%s" % (st["server_state"], st["client_state"]))
        if script:
            out.append("conn %s/%d %d %s" % (h.id, p, (1 if legacy else 0) + (2 if strict else 0), ";".join(script)))
    return out


# ------------------------------------------------------------------ C06: uuid assets

def oracle_assets(h):
    """at every quiescent drain: every uuid asset published so far is held by every peer with the content last published"""
    fails = []
    cfg = peer_cfgs(h)
    last = {}     # (kind, uuid) -> (publisher, event index)
    for i, e in enumerate(h.events):
        if e["ev"] == "op" and e["op"] == "asset_insert" and e.get("uuid"):
            last[(e["kind"], e["uuid"])] = (e["peer"], i)
        if e["ev"] == "drain" and e["quiescent"]:
            for (kind, uuid), (pub, j) in last.items():
                pst = last_state(h, i, pub)
                if pst is None:
                    continue
                want = (pst["assets"].get(kind) or {}).get(uuid)
                sw = {"material": "materials", "image": "materials", "mesh": "meshes", "audio": "audios"}[kind]
                if not cfg.get(pub, {}).get(sw, False):
                    continue
                joined = [x["peer"] for x in h.events[:i] if x["ev"] == "late_join" and x.get("ok")]
                for p in h.peers() + joined:
                    if p == pub or not cfg.get(p, {}).get(sw, False):
                        continue
                    st = last_state(h, i, p)
                    if st is None:
                        continue
                    got = (st["assets"].get(kind) or {}).get(uuid)
                    if got is None:
                        fails.append(("C06", "a %s published by peer %d never reached peer %d" % (kind, pub, p), {"uuid": uuid[:8]}))
                    elif got != want:
                        fails.append(("C06", "peer %d holds a %s whose content differs from what peer %d last published under that uuid" % (p, kind, pub), {"uuid": uuid[:8]}))
        if e["ev"] == "slow_endpoint" and e.get("half_sent") and e.get("gets", 0) >= 2 and all(e.get("new_applied", [])):
            # the uuid was announced twice; the first download got its headers and half of its body before the second
            # announcement and finished after the second download had been applied
            for k, f in enumerate(e.get("final", [])):
                if f != "new":
                    fails.append(("C06", "peer %d ends with the answer to an outdated request (%s) after the answer to the newer request "
                                  "of the same uuid had been applied: a slow first download overwrote it" % (k + 1, f), {"uuid": e["uuid"][:8]}))
    return fails


def oracle_asset_traffic(h):
    """C09 on uuid assets: traffic stops (every drain of the history is reached) and every publication costs at most
    clients + 1 announcements, whatever the switches are"""
    fails = []
    for e in h.events:
        if e["ev"] == "drain" and not e["quiescent"]:
            fails.append(("C09", "asset traffic does not stop: the session is not quiescent %d rounds after the last operation" % e.get("rounds", 0), {}))
            break
    pubs, anns = {}, {}
    for e in h.events:
        if e["ev"] == "op" and e["op"] == "asset_insert" and e.get("uuid"):
            pubs[e["uuid"]] = pubs.get(e["uuid"], 0) + 1
        if e["ev"] == "frame":
            for m in e["recv"]:
                k = m["msg"]["k"]
                if k in ("mesh", "image", "audio", "mat") and m["msg"].get("id") in pubs:
                    anns[m["msg"]["id"]] = anns.get(m["msg"]["id"], 0) + 1
    for u, n in anns.items():
        bound = pubs[u] * (h.nclients + 1)
        if n > bound:
            fails.append(("C09", "%d announcements were received for an asset published %d times in a session of %d clients (bound: publications x (clients + 1) = %d)" % (n, pubs[u], h.nclients, bound), {"uuid": u[:8]}))
    return fails


def asset_lines(h, count_tokens=True, skip_served=False):
    """downloadable classes (mesh / image / audio): one model instance per uuid.  The publications are replayed on
    the model, the model settles by fair rounds wherever the implementation drained, and what every peer holds
    (content, own serve cache, pending debounce entries) is compared there."""
    out = []
    per = {}     # (kind, uuid) -> {"script": [], "ids": {hash: n}}
    npeers = h.nclients + 1
    for i, e in enumerate(h.events):
        if e["ev"] == "late_join":
            # the slice has a fixed set of peers: what happens once somebody has joined is judged by the oracle alone
            break
        if e["ev"] == "op" and e["op"] == "asset_insert" and e.get("uuid"):
            d = per.setdefault((e["kind"], e["uuid"]), {"script": [], "ids": {}})
            hsh = e.get("hash")
            if hsh is None:
                d["bad"] = True
                continue
            n = d["ids"].setdefault(hsh, len(d["ids"]) + 1)
            d["script"].append("p:%d:%d" % (e["peer"], n))
        if e["ev"] == "drain" and e["quiescent"]:
            for (kind, uuid), d in per.items():
                d["script"].append("d")
                for p in range(npeers):
                    st = last_state(h, i, p)
                    if st is None:
                        d["bad"] = True
                        continue
                    def name(x):
                        if x is None:
                            return "-"
                        return str(d["ids"].get(x, 999))
                    content = (st["assets"].get(kind) or {}).get(uuid)
                    served = (st.get("served", {}).get(kind) or {}).get(uuid)
                    tokens = sum(1 for t in st["tracker"]["htokens"] if t == uuid)
                    if kind == "material":
                        d["script"].append("x:%d:%s:%d" % (p, name(content), tokens))
                    else:
                        d["script"].append("x:%d:%s:%s:%d" % (p, name(content), name(served), tokens))
    cfg = peer_cfgs(h)
    for (kind, uuid), d in per.items():
        if d.get("bad") or not any(t == "d" for t in d["script"]):
            continue
        # the slice models peers that all replicate the class; where a switch is off the oracle alone judges
        sw = {"material": "materials", "image": "materials", "mesh": "meshes", "audio": "audios"}[kind]
        if not all(cfg.get(p, {}).get(sw, False) for p in range(npeers)):
            continue
        inst = "%s/%s.%s" % (h.id, kind, uuid[:8])
        if kind == "material":
            out.append("mat %s %d %d %s" % (inst, 1 if count_tokens else 0, h.nclients, ";".join(d["script"])))
        else:
            out.append("asset %s %d %d %d %s" % (inst, 1 if count_tokens else 0, 1 if skip_served else 0, h.nclients, ";".join(d["script"])))
    return out


def stale_snapshot_copy(h, upto, p, kind, uuid, final_hash):
    """recorded finding D17, recognised by its history: the last announcement of the uuid that peer p received advertises
    the host's own endpoint (a snapshot entry), p had received the owner's announcement in the same or the previous
    frame, the host itself received that owner's announcement no earlier than two frames before it built the snapshot,
    and what p ends with is what the host held when it built the snapshot"""
    owner_urls = set()
    host_recv = []      # (event index, url) of owner announcements received by the host
    for k, e in enumerate(h.events[:upto]):
        if e["ev"] == "frame" and e["peer"] == 0:
            for m in e["recv"]:
                if m["msg"]["k"] == kind and m["msg"]["id"] == uuid:
                    owner_urls.add(m["msg"]["url"])
                    host_recv.append((k, m["msg"]["url"]))
    got = []            # (event index, url) received by p
    for k, e in enumerate(h.events[:upto]):
        if e["ev"] == "frame" and e["peer"] == p:
            for m in e["recv"]:
                if m["msg"]["k"] == kind and m["msg"]["id"] == uuid:
                    got.append((k, m["msg"]["url"]))
    if len(got) < 2 or got[-1][1] in owner_urls or got[-2][1] not in owner_urls:
        return False
    # the host's copy when it built the snapshot = its copy at its last frame before p received the entry
    # the host's copy when it built p's snapshot: its state at the end of the frame in which it received p's request
    hst = None
    for k, e in enumerate(h.events[:got[-1][0]]):
        if e["ev"] == "frame" and e["peer"] == 0 and e.get("state") and any(m["msg"]["k"] == "reqsync" and m.get("from") == p for m in e["recv"]):
            hst = e["state"]
    if hst is None:
        return False
    held = (hst["assets"].get(kind) or {}).get(uuid)
    pframes = [k for k, e in enumerate(h.events[:got[-1][0] + 1]) if e["ev"] == "frame" and e["peer"] == p]
    near = len([k for k in pframes if got[-2][0] <= k <= got[-1][0]]) <= 2
    return near and held == final_hash and final_hash != (last_state(h, upto, 0)["assets"].get(kind) or {}).get(uuid)


def oracle_join(h):
    """C03: at the final quiescent drain every connected client — newcomers and returners in particular — holds what
    the host holds: synchronized entities by uuid (none twice), registered component values, parent links, uuid
    assets of the classes enabled on both"""
    fails = []
    cfg = peer_cfgs(h)
    comers = set(e["peer"] for e in h.events if e["ev"] == "join_begin")
    fin = [i for i, e in enumerate(h.events) if e["ev"] == "drain" and e.get("final")]
    if not fin:
        return fails
    i = fin[-1]
    if not h.events[i]["quiescent"]:
        fails.append(("C03", "the session never drains after the join", {}))
        return fails
    for e in h.events:
        if e["ev"] == "late_join" and not e["ok"]:
            fails.append(("C03", "peer %d never completes its join (Connected + InitialSyncFinished)" % e["peer"], {}))
    host = last_state(h, i, 0)
    npeers = 1 + max([0] + [p for p in cfg])
    binds_ = {b["h"]: b["uuid"] for b in h.events if b["ev"] == "bind"}
    away_linked = set((e["peer"], binds_.get(e["h"])) for e in h.events if e["ev"] == "away_link")
    for p in range(1, npeers):
        st = last_state(h, i, p)
        if st is None or st.get("client_state") != "Connected":
            continue
        who = "returning client" if (p in comers and any(e["ev"] == "left" and e["peer"] == p for e in h.events)) else ("joining client" if p in comers else "client")
        uu = [x["uuid"] for x in st["ents"]]
        if len(uu) != len(set(uu)):
            fails.append(("C03", "%s %d holds two live entities with the same uuid" % (who, p), {}))
        hs, ps = {x["uuid"]: x for x in host["ents"]}, {x["uuid"]: x for x in st["ents"]}
        missing = [u[:8] for u in hs if u not in ps]
        extra = [u[:8] for u in ps if u not in hs]
        if missing:
            fails.append(("C03", "%s %d lacks synchronized entities the host holds" % (who, p), {"uuids": missing[:6]}))
        away_despawned = set()
        li = 0
        if who == "returning client":
            # uuids despawned by some application between this client's leaving and its return (recorded finding D16)
            binds = {b["h"]: b["uuid"] for b in h.events if b["ev"] == "bind"}
            li = next(k for k, e in enumerate(h.events) if e["ev"] == "left" and e.get("peer") == p)
            ri = next(k for k, e in enumerate(h.events) if e["ev"] == "join_begin" and e["peer"] == p)
            # "away" lasts until the host builds this client's snapshot (until then no broadcast is sure to reach it)
            for k in range(ri, len(h.events)):
                e = h.events[k]
                if e["ev"] == "frame" and e["peer"] == 0 and any(m["msg"]["k"] == "reqsync" and m.get("from") == p for m in e["recv"]):
                    ri = k
                    break
            for e in h.events[li:ri]:
                if e["ev"] == "op" and e["op"] in ("despawn", "despawn_cmd") and e.get("done", True) and e["h"] in binds:
                    away_despawned.add(binds[e["h"]])
        if extra:
            full = [u for u in ps if u not in hs]
            own = set(binds_.get(e["h"]) for e in h.events if e["ev"] == "away_despawn" and e["peer"] == p)
            if who == "returning client" and all(u in own for u in full):
                # D22 (despawns): the delete leaves one frame after RequestInitialSync; the snapshot brings the entity back on
                # the returning client, the delete then removes it everywhere else
                fails.append(("C03", "%s %d despawned an entity while its link was down: the snapshot brought it back on this client only" % (who, p),
                              {"uuids": extra[:6]}))
            elif who == "returning client" and all(u in away_despawned for u in full):
                fails.append(("C03", "%s %d still holds synchronized entities that were despawned while it was away" % (who, p), {"uuids": extra[:6]}))
            else:
                fails.append(("C03", "%s %d holds synchronized entities the host does not (any more)" % (who, p), {"uuids": extra[:6]}))
        regs = set(cfg.get(0, {}).get("registered", [])) & set(cfg.get(p, {}).get("registered", []))
        for u in hs:
            if u not in ps:
                continue
            a, b = hs[u], ps[u]
            for ty in regs:
                if ty in ("HMat", "HMesh") and False:
                    continue
                if a["comps"].get(ty) != b["comps"].get(ty):
                    fails.append(("C03", "%s %d holds a different %s value than the host" % (who, p, "component"), {"uuid": u[:8], "ty": ty,
                                  "host": (a["comps"].get(ty) or "absent")[-12:], "peer": (b["comps"].get(ty) or "absent")[-12:]}))
                    break
            # a Parent pointing at something that is not a synchronized entity (e.g. left dangling by a despawn) is not a replicated link
            pa_, pb_ = (None if a["parent"] == "unsynced" else a["parent"]), (None if b["parent"] == "unsynced" else b["parent"])
            # links of clients that were connected all along are C05's subject (and an application that re-parents under an
            # entity it despawns before the link was announced leaves them different by its own doing)
            if pa_ != pb_ and p in comers:
                held_when_left = None
                if who == "returning client":
                    stl = last_state(h, li, p)
                    el = ent_of(stl, u) if stl else None
                    held_when_left = el["parent"] if el else None
                if pa_ is None and pb_ in away_despawned:
                    fails.append(("C03", "%s %d keeps a child under an entity that was despawned while it was away" % (who, p), {"uuid": u[:8], "peer": b["parent"]}))
                elif who == "returning client" and pa_ is None and pb_ is not None and pb_ == held_when_left:
                    # the host's link went away (its parent was despawned later, the child left dangling): the snapshot cannot say so
                    fails.append(("C03", "%s %d keeps a parent link the host dropped while it was away" % (who, p), {"uuid": u[:8], "peer": b["parent"]}))
                elif who == "returning client" and (p, u) in away_linked:
                    # D22: a link set while away is announced when the client is Connected again, one frame after its
                    # RequestInitialSync: the snapshot, built from the host's old link, and the announcement cross
                    fails.append(("C03", "%s %d re-parented an entity while its link was down: after the join its link and the host's have crossed" % (who, p),
                                  {"uuid": u[:8], "host": a["parent"], "peer": b["parent"]}))
                else:
                    fails.append(("C03", "%s %d has a different parent link than the host" % (who, p), {"uuid": u[:8], "host": a["parent"], "peer": b["parent"]}))
        for kind, sw in (("material", "materials"), ("image", "materials"), ("mesh", "meshes"), ("audio", "audios")):
            if not (cfg.get(0, {}).get(sw) and cfg.get(p, {}).get(sw)):
                continue
            ha, pa = host["assets"].get(kind) or {}, st["assets"].get(kind) or {}
            for u, hsh in ha.items():
                if u not in pa:
                    fails.append(("C03", "%s %d lacks a uuid %s the host holds" % (who, p, kind), {"uuid": u[:8]}))
                    break
                if pa[u] != hsh:
                    if p in comers and kind != "material" and stale_snapshot_copy(h, i, p, kind, u, pa[u]):
                        fails.append(("C03", "%s %d ends with the host's outdated copy of a uuid %s: its snapshot was built while the host was still downloading a newer publication it had already relayed" % (who, p, kind), {"uuid": u[:8]}))
                    else:
                        fails.append(("C03", "%s %d holds a uuid %s whose content differs from the host's" % (who, p, kind), {"uuid": u[:8]}))
                    break
    return fails


def snap_lines(h):
    """the joiner's side of every (entity, component) key: the messages it really received, in order, handled by the
    model's `recv`; replica / value / count compared after every frame of the joiner"""
    out = []
    comers = [e["peer"] for e in h.events if e["ev"] == "join_begin"]
    path_ty = {v: k for k, v in h.types.items()}
    for j in comers:
        start = next(i for i, e in enumerate(h.events) if e["ev"] == "join_begin" and e["peer"] == j)
        st0 = last_state(h, start, j) or {"ents": []}
        keys = {}      # (uuid, ty) -> {"script": [...], "vals": {bytes: n}, "bad": bool}
        deleted = set()
        def key(u, ty):
            k = keys.get((u, ty))
            if k is None:
                e0 = ent_of(st0, u)
                k = {"script": [], "vals": {}, "p0": 1 if e0 is not None else 0, "v0": None}
                if e0 is not None and e0["comps"].get(ty) is not None:
                    k["v0"] = k["vals"].setdefault(e0["comps"][ty], len(k["vals"]) + 1)
                keys[(u, ty)] = k
            return k
        # every key the joiner or the host ever holds
        for e in h.events[start:]:
            if e["ev"] == "frame" and e["peer"] in (0, j) and e.get("state"):
                for en in e["state"]["ents"]:
                    for ty in en["comps"]:
                        if ty in h.registered:
                            key(en["uuid"], ty)
        for e in h.events[start:]:
            if e["ev"] != "frame" or e["peer"] != j:
                continue
            for m in e["recv"]:
                mm = m["msg"]
                if mm["k"] == "delete":
                    deleted.add(mm["id"])
                for (u, ty), k in keys.items():
                    if mm["k"] == "spawn" and mm["id"] == u:
                        k["script"].append("s")
                    elif mm["k"] == "comp" and mm["id"] == u and path_ty.get(mm["name"]) == ty:
                        # the value as the receiver will hold it: reflect bytes of the message are the component's bytes
                        k["script"].append("u:%d" % k["vals"].setdefault(mm["data"], len(k["vals"]) + 1))
            if e.get("state") is None:
                continue
            for (u, ty), k in keys.items():
                en = [x for x in e["state"]["ents"] if x["uuid"] == u]
                v = en[0]["comps"].get(ty) if en else None
                k["script"].append("f")
                k["script"].append("x:%d:%s:%d" % (1 if en else 0, "-" if v is None else str(k["vals"].get(v, 999)), len(en)))
        for (u, ty), k in keys.items():
            if u in deleted or not any(t in ("s",) or t.startswith("u:") for t in k["script"]):
                continue
            out.append("snapj %s/%d.%s.%s %d %s %s" % (h.id, j, u[:8], ty, k["p0"], "-" if k["v0"] is None else str(k["v0"]), ";".join(k["script"])))
    return out


def oracle_promo(h):
    """C07 at every quiescent drain after a hand-over: exactly one peer hosts, everybody else is connected to it as a
    client (the former host included, with its server gone), all peers hold the same synchronized entities (none
    twice), registered component values and parent links"""
    fails = []
    cfg = peer_cfgs(h)
    npeers_all = 1 + max([0] + [p for p in cfg])
    handed = None
    peers_now, many = h.nclients + 1, False
    window = None
    raw = []
    for i, e in enumerate(h.events):
        if e["ev"] == "late_join":
            peers_now += 1
        if e["ev"] == "promotion":
            many = many or peers_now >= 3
            window = [i, None, e["host"]]
        if e["ev"] == "handover" and window is not None:
            window[1] = i
    fails = raw
    for i, e in enumerate(h.events):
        if e["ev"] == "promotion" and not e["sent"]:
            fails.append(("C07", "the promotion could not even be requested (no connected client)", {}))
        if e["ev"] == "handover":
            handed = e
            if e["new"] == e["old"]:
                fails.append(("C07", "after the promotion no other peer is hosting", {"old": e["old"]}))
        if e["ev"] == "late_join" and not e["ok"]:
            fails.append(("C07", "peer %d never completes its join with the new host" % e["peer"], {}))
        if e["ev"] == "promotion":
            handed = None        # a new hand-over is under way: judged from its own `handover` event on
        if e["ev"] == "drain" and handed is not None and handed["new"] != handed["old"]:
            if not e["quiescent"]:
                fails.append(("C07", "the session does not drain after the hand-over", {}))
                continue
            host = handed["new"]
            states = {p: last_state(h, i, p) for p in range(npeers_all)}
            states = {p: s for p, s in states.items() if s is not None}
            hosts = [p for p, s in states.items() if s["server_transport"] or s["server_state"] == "Connected"]
            if hosts != [host]:
                fails.append(("C07", "not exactly one peer is host after the hand-over", {"hosting": hosts, "promoted": host}))
            for p, s in states.items():
                if p == host:
                    if s["client_transport"]:
                        fails.append(("C07", "the new host still holds its client transport", {"peer": p}))
                    continue
                if not (s["client_state"] == "Connected" and s["client_connected"] and s["client_transport"]):
                    who = "the former host" if p == handed["old"] else "client"
                    fails.append(("C07", "%s %d is not connected to the new host as a client" % (who, p),
                                  {"client_state": s["client_state"], "renet_connected": s["client_connected"], "transport": s["client_transport"]}))
            if states[host]["server_clients"] != len(states) - 1:
                fails.append(("C07", "the new host serves %d clients, the session has %d other peers" % (states[host]["server_clients"], len(states) - 1), {}))
            for p, s in states.items():
                # (an entry left behind for an entity that has been despawned since cannot swallow anything: no change of that key
                # can happen any more)
                alive = set(x["uuid"] for x in s["ents"])
                left = [t for t in s["tracker"]["tokens"] if t[0] in alive] + [[t, "asset"] for t in s["tracker"]["htokens"]]
                if left:
                    fails.append(("C07", "peer %d is drained but still holds a debounce entry: its next own change of that key would be taken for an echo and never sent" % p,
                                  {"uuid": left[0][0][:8], "key": left[0][1].split("::")[-1], "count": len(left)}))
            ref = states.get(host)
            for p, s in states.items():
                uu = [x["uuid"] for x in s["ents"]]
                if len(uu) != len(set(uu)):
                    fails.append(("C07", "peer %d holds two live entities with the same uuid" % p,
                                  {"only_peer": sorted(set(u[:8] for u in uu if uu.count(u) > 1))[:5]}))
                if p == host or ref is None:
                    continue
                if not (s["client_state"] == "Connected" and s["client_connected"]):
                    continue
                a, b = {x["uuid"]: x for x in ref["ents"]}, {x["uuid"]: x for x in s["ents"]}
                if set(a) != set(b):
                    fails.append(("C07", "peer %d and the new host hold different sets of synchronized entities" % p,
                                  {"only_host": [u[:8] for u in a if u not in b][:5], "only_peer": [u[:8] for u in b if u not in a][:5]}))
                    continue
                regs = set(cfg.get(host, {}).get("registered", [])) & set(cfg.get(p, {}).get("registered", []))
                for u in a:
                    bad = [ty for ty in regs if a[u]["comps"].get(ty) != b[u]["comps"].get(ty)]
                    if bad:
                        fails.append(("C07", "peer %d holds a different component value than the new host" % p, {"uuid": u[:8], "ty": bad[0]}))
                        break
                    pa = None if a[u]["parent"] == "unsynced" else a[u]["parent"]
                    pb = None if b[u]["parent"] == "unsynced" else b[u]["parent"]
                    if pa != pb:
                        fails.append(("C07", "peer %d has a different parent link than the new host" % p, {"uuid": u[:8]}))
                        break
                # uuid assets: what the new host holds is what every connected peer holds
                for kind in ("material", "mesh", "image", "audio"):
                    ha, pb2 = (ref["assets"].get(kind) or {}), (s["assets"].get(kind) or {})
                    for u in set(ha) | set(pb2):
                        if ha.get(u) != pb2.get(u):
                            fails.append(("C07", "peer %d and the new host hold different content for a uuid %s after the hand-over" % (p, kind), {"uuid": u[:8]}))
                            break
    return classify_promo(h, fails)


def classify_promo(h, fails):
    """recorded findings, recognised by their histories: D7 — any hand-over in a session that has two or more clients at
    the time; D18 — an entity the former host marked during the hand-over of a one-client session"""
    peers_now, many = h.nclients + 1, False
    windows = []
    for i, e in enumerate(h.events):
        if e["ev"] == "late_join":
            peers_now += 1
        if e["ev"] == "promotion":
            many = many or peers_now >= 3
            windows.append([i, len(h.events), e["host"]])
        if e["ev"] == "handover" and windows:
            windows[-1][1] = i
    binds = {b["h"]: b["uuid"] for b in h.events if b["ev"] == "bind"}
    touched = set()      # uuids some application touched while the hand-over was under way
    for a, b, old in windows:
        # the former host's part of the window starts when it has handled `NewHost` (its promoted client is disconnected, the
        # flag is set): until then it is the host of an ordinary session and what its application does is delivered as ever
        handled = b
        for i in range(a, b):
            e = h.events[i]
            if e["ev"] == "frame" and e["peer"] == old and e.get("state") and (e["state"]["tracker"]["promo"] or not e["state"]["server_transport"]):
                handled = i
                break
        for i in range(a, b):
            e = h.events[i]
            # (an operation needs its frames to get out: marked in one frame, announced in the next, on the wire after that — only
            # what was followed by three whole frames of the former host before `NewHost` is certain to have left in time)
            # (marks and despawns only: a value or a link the former host writes lands on the promoted peer while that one holds
            # both roles, is seen by both of its chains and crosses the snapshot later on — recorded under D18 wherever in the
            # window it is written)
            if e["ev"] == "op" and e.get("peer") == old and i < handled and (e["op"] == "despawn" or (e["op"] == "spawn" and e.get("parent") is None)):
                later = sum(1 for x in h.events[i:handled] if x["ev"] == "frame" and x["peer"] == old)
                if later >= 3:
                    continue
            # the recorded cases: anything the former host's application does; marks, links and despawns on the promoted peer
            # (a despawn there is D16 once more: the former host is a returning client and the snapshot cannot say 'drop it')
            # (a component written there is repaired by the snapshot the former host requests and stays checked)
            if e["ev"] == "op" and e.get("h") in binds and (
                    (e["peer"] == old and e["op"] in ("spawn", "write", "set_parent", "despawn"))
                    or (e["peer"] != old and e["op"] in ("spawn", "set_parent", "despawn"))):
                touched.add(binds[e["h"]][:8])
                if e.get("parent") in binds:
                    touched.add(binds[e["parent"]][:8])
    # uuids no application operation is bound to (a peer in both roles processed one mark twice) that first show up after a promotion
    known = set(u[:8] for u in binds.values())
    first_window = windows[0][0] if windows else len(h.events)
    before = set()
    for e in h.events[:first_window]:
        if e["ev"] == "frame" and e.get("state"):
            before |= set(x["uuid"][:8] for x in e["state"]["ents"])
    ghosts = set()
    for e in h.events[first_window:]:
        if e["ev"] == "frame" and e.get("state"):
            for x in e["state"]["ents"]:
                if x["uuid"][:8] not in known and x["uuid"][:8] not in before:
                    ghosts.add(x["uuid"][:8])
    touched |= ghosts
    out = []
    for f in fails:
        uu = list(f[2].get("only_peer", [])) + list(f[2].get("only_host", [])) + ([f[2]["uuid"]] if "uuid" in f[2] else [])
        if many:
            out.append((f[0], "promotion in a session with two or more clients: " + f[1], f[2]))
        elif uu and all(u in touched for u in uu):
            out.append((f[0], "a change an application made during the hand-over is lost, duplicated or left divergent: " + f[1], f[2]))
        else:
            out.append(f)
    return out


def promo_lines(h):
    """first hand-over of a two-peer session: every frame of the former host and of the promoted client between the
    promotion request and the end of the hand-over, with the network's part read off the trace (message delivered to this
    frame? connection accepted / reported in this frame?), replayed on the model; roles, flag, transports and client
    counts compared after every frame, the number of snapshot requests at the end"""
    out = []
    if h.nclients != 1:
        return out
    pis = [i for i, e in enumerate(h.events) if e["ev"] == "promotion"]
    his = [i for i, e in enumerate(h.events) if e["ev"] == "handover"]
    if not pis or not his or not h.events[pis[0]]["sent"] or h.events[pis[0]]["host"] != 0:
        return out
    start, end = pis[0], his[0]
    script = []
    prev = {0: last_state(h, start, 0), 1: last_state(h, start, 1)}
    reqs = 0
    b = lambda x: "1" if x else "0"
    for e in h.events[start:end]:
        if e["ev"] != "frame" or e["peer"] not in (0, 1) or e.get("state") is None:
            continue
        st, pv = e["state"], prev[e["peer"]]
        kinds = [m["msg"]["k"] for m in e["recv"]]
        if e["peer"] == 0:
            progress = st["client_connected"] and not (pv or {}).get("client_connected", False)
            script.append("h:%s:%s" % (b("newhost" in kinds), b(progress)))
            cli = 0 if not st["client_transport"] else (3 if st["client_connected"] else 1)
            script.append("xh:%s:%s:%d:%d" % (b(st["server_transport"]), b(st["tracker"]["promo"]), cli, st["server_clients"]))
        else:
            accepted = st["server_clients"] > (pv or {}).get("server_clients", 0)
            reqs += sum(1 for k in kinds if k == "reqsync")
            script.append("p:%s:%s" % (b("promote" in kinds), b(accepted)))
            script.append("xp:%s:%s:%s:%d" % (b(st["server_transport"]), b(st["tracker"]["promo"]), b(st["client_transport"]), st["server_clients"]))
        prev[e["peer"]] = st
    script.append("q:%d" % reqs)
    out.append("promo %s/handover 0 %s" % (h.id, ";".join(script)))
    return out


def chain_lines(h):
    """every hand-over of a two-peer session (`Slice/Chain.lean`: both peers with both roles): from the first promotion
    request to the first later join, every frame of either peer with the network's part read off the trace, every request,
    replayed on the model; roles, flag, client stage and client counts compared after every frame, the former host's
    snapshot requests at the end of every hand-over"""
    out = []
    if h.nclients != 1:
        return out
    pis = [i for i, e in enumerate(h.events) if e["ev"] == "promotion"]
    if not pis or not h.events[pis[0]]["sent"] or h.events[pis[0]]["host"] != 0:
        return out
    start = pis[0]
    end = next((i for i, e in enumerate(h.events) if i > start and e["ev"] == "join_begin"), len(h.events))
    script = []
    prev = {0: last_state(h, start, 0), 1: last_state(h, start, 1)}
    if prev[0] is None or prev[1] is None:
        return out
    b = lambda x: "1" if x else "0"
    reqs = {0: 0, 1: 0}       # snapshot requests *received* by each peer in the current hand-over
    n_hand = 0
    for e in h.events[start:end]:
        if e["ev"] == "promotion":
            if not e["sent"]:
                break
            script.append("r:%d" % e["host"])
            reqs = {0: 0, 1: 0}
        elif e["ev"] == "handover":
            if e["new"] == e["old"]:
                break                     # the oracle reports it; the model has nothing to compare from here on
            n_hand += 1
            script.append("q:%d:%d" % (e["old"], reqs[e["new"]]))
        elif e["ev"] == "frame" and e["peer"] in (0, 1) and e.get("state") is not None:
            w, st, pv = e["peer"], e["state"], prev[e["peer"]]
            kinds = [m["msg"]["k"] for m in e["recv"]]
            reqs[w] += sum(1 for k in kinds if k == "reqsync")
            deliver = ("newhost" in kinds) or ("promote" in kinds)
            accept = st["server_clients"] > pv.get("server_clients", 0)
            progress = st["client_connected"] and not pv.get("client_connected", False)
            script.append("f:%d:%s:%s:%s" % (w, b(deliver), b(accept), b(progress)))
            cli = 0 if not st["client_transport"] else (3 if st["client_connected"] else 1)
            script.append("x:%d:%s:%s:%d:%d" % (w, b(st["server_transport"]), b(st["tracker"]["promo"]), cli, st["server_clients"]))
            prev[w] = st
    if n_hand:
        out.append("chain %s/chain %s" % (h.id, ";".join(script)))
    return out


def budget_lines(h):
    """heavy worlds (conn family): the byte lengths of the snapshot's messages as the host encodes them, against the reliable
    channel's budget on the model (`Slice/Budget.lean`); compared: is the joiner served or refused"""
    hw = next((e for e in h.events if e["ev"] == "heavy_world" and e.get("msg_sizes")), None)
    if hw is None:
        return []
    st = None
    for e in h.events:
        if e["ev"] == "frame" and e["peer"] == 1 and e.get("state") is not None:
            st = e["state"]
    if st is None:
        return []
    if st["sync_finished"] >= 1 and st.get("ents"):
        refused = 0
    elif st["sync_finished"] == 0 and st.get("client_connected") is False and not st.get("ents"):
        refused = 1
    else:
        return []          # neither served nor refused: the oracle's business
    return ["budget %s/budget %d 0 %s %d" % (h.id, 5 * 1024 * 1024, ".".join(str(x) for x in hw["msg_sizes"]), refused)]


WORLD_TYS = ("A", "B", "E", "U", "V", "Transform", "Name", "Visibility")


def world_lines(h):
    """every completed join of every client, whole world at once (`Slice/World.lean`): everything the joiner received from the
    moment it was last seen disconnected up to `FinishedInitialSync`, in order, through the model's handlers; at the frame of
    the marker the joiner's uuids, the values of the components it was sent and its parent links are compared"""
    out = []
    path_ty = {v: k for k, v in h.types.items()}
    cfg = peer_cfgs(h)
    peers = sorted(set(e["peer"] for e in h.events if e["ev"] == "frame" and e["peer"] != 0))
    for j in peers:
        reg = set(cfg.get(j, {}).get("registered", h.registered))
        seg, known, skip, nseg = [], [], False, 0
        for e in h.events:
            if e["ev"] == "op" and e.get("peer") == j and e["op"] in ("spawn", "write", "set_parent", "despawn", "add_companions"):
                skip = True          # the joiner's own application is at work: outside this model
            if e["ev"] != "frame" or e["peer"] != j or e.get("state") is None:
                continue
            st = e["state"]
            fin = False
            for m in e["recv"]:
                if m.get("as_server"):
                    continue
                mm = m["msg"]
                if mm["k"] == "spawn":
                    seg.append(("s", mm["id"]))
                elif mm["k"] == "comp":
                    seg.append(("c", mm["id"], path_ty.get(mm["name"]), mm["data"]))
                elif mm["k"] == "parented":
                    seg.append(("p", mm["id"], mm["parent"]))
                elif mm["k"] == "delete":
                    skip = True
                elif mm["k"] == "finsync":
                    fin = True
            if fin:
                nseg += 1
                if not skip and not st.get("server_transport"):
                    uidx, vidx = {}, {}
                    U = lambda u: uidx.setdefault(u, len(uidx) + 1)
                    V = lambda b: vidx.setdefault(b, len(vidx) + 1)
                    toks = ["k:%d" % U(u) for u in known]
                    sent_comp, sent_par = set(), set()
                    for t in seg:
                        if t[0] == "s":
                            toks.append("s:%d" % U(t[1]))
                        elif t[0] == "c":
                            if t[2] in WORLD_TYS and t[2] in reg and len(t[3]) < 2000:
                                toks.append("c:%d:%d:%d" % (U(t[1]), TY_NUM[t[2]], V(t[3])))
                                sent_comp.add((t[1], t[2]))
                        else:
                            toks.append("p:%d:%d" % (U(t[1]), U(t[2])))
                            sent_par.add(t[1])
                    ents = st["ents"]
                    if len(set(x["uuid"] for x in ents)) == len(ents):
                        toks.append("E:" + ".".join(str(U(x["uuid"])) for x in ents))
                        for x in ents:
                            for ty in WORLD_TYS:
                                if (x["uuid"], ty) in sent_comp:
                                    v = x["comps"].get(ty)
                                    toks.append("C:%d:%d:%s" % (U(x["uuid"]), TY_NUM[ty], "-" if v is None else str(vidx.get(v, 9999))))
                            if (not known or x["uuid"] in sent_par) and x["parent"] != "unsynced":
                                toks.append("P:%d:%s" % (U(x["uuid"]), "-" if x["parent"] is None else str(U(x["parent"]))))
                        out.append("world %s/%d.join%d %s" % (h.id, j, nseg, ";".join(toks)))
                seg, skip = [], False
                known = [x["uuid"] for x in st["ents"]]
            elif not st.get("client_connected") and not st.get("client_transport"):
                # not connected: whatever comes next belongs to the next join; what it holds now is what it returns with
                seg, skip = [], False
                known = [x["uuid"] for x in st["ents"]]
    return out

