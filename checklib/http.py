"""C14: HTTP asset endpoint. Proof (routing theorems) + tie (route table / exits regenerated from the
source, real endpoint vs `route` on every response, linearisability for concurrent requests) + oracle."""
import re, time
from . import common as C

TRUSTED = [
    "modelled, tied by differential runs against the real endpoint only: tiny_http 0.12 (a Request dropped without response is answered 500; Content-Length iff body < chunked threshold for HTTP/1.1 without TE), Uuid::parse_str, ureq-style authority split",
    "runtime not in the model (partial): OS sockets, thread scheduling inside tiny_http / the two server_pool threads, a client that stops reading a large body (the responder is one thread); requests use HTTP/1.1, Connection: close, no TE header",
    "translator facts about `respond` (order of contains tests, prefixes, caches read, no break/return/expect, ≤ 6 unwraps) are regexes over the function body",
]


def run_once(seed, count, tier):
    rc, out, err = C.run([C.harness_bin("http"), str(seed), str(count), tier], timeout=3600)
    if rc != 0:
        return {"error": "harness http failed rc=%s: %s" % (rc, err[-500:])}
    rc2, mout, merr = C.run([C.BSMODEL], input=out, timeout=3600, big_stack=True)
    if rc2 != 0:
        return {"error": "model driver failed rc=%s: %s" % (rc2, merr[-500:])}
    lines = [l for l in out.split("\n") if l and not l.startswith("#")]
    results = []
    for l in mout.split("\n"):
        if not l:
            continue
        if l.startswith("ok "):
            results.append((l[3:].strip(), "ok"))
        else:
            m = re.match(r"(MISMATCH .*) (\S+)$", l)
            results.append((m.group(2), m.group(1)) if m else ("?", l))
    stats, oracle = {}, []
    for l in out.split("\n"):
        if l.startswith("#STAT "):
            k, v = l[6:].split("=")
            stats[k] = int(v)
        elif l.startswith("#ORACLE-FAIL "):
            p = l.split(" ", 3)
            oracle.append({"id": p[2], "what": p[3] if len(p) > 3 else ""})
    return {"lines": lines, "results": results, "stats": stats, "oracle": oracle, "raw": out}


def check(prop_id, tier, seed, replay=None):
    t0 = time.time()
    ok_t, tlog = C.translate()
    proof = C.lean_build(prop_id, leanchecker=(tier == "thorough"))
    ok_h, hlog, hbuild_s = C.harness_build()
    if not ok_h:
        print("ERROR: harness does not build against /repo's current tree:\n" + hlog[-1500:])
        return 2
    broken = (not ok_t) or (not proof["ok"])
    count = 2500 if tier == "thorough" else 350
    if broken and tier == "quick":
        count *= 10
    runs = []
    nruns = 3 if tier == "thorough" else 1
    for i in range(nruns):
        r = run_once(seed + 1000 * i, count, tier)
        if "error" in r:
            print("ERROR: " + r["error"])
            return 2
        mism = [x for x in r["results"] if x[1] != "ok"]
        if mism and not r["oracle"]:
            # real sockets and threads are in the loop: a mismatch is re-run once from the same seed before it is believed
            r2 = run_once(seed + 1000 * i, count, tier)
            if "error" not in r2 and not [x for x in r2["results"] if x[1] != "ok"]:
                r = r2
                r["stats"]["http.rerun_cleared_mismatch"] = 1
        runs.append(r)
    violations, seen = [], set()
    lines_by_id = {}
    for r in runs:
        for l in r["lines"]:
            p = l.split(" ")
            if p[0] in ("req", "creq"):
                lines_by_id[p[1]] = l
    evaluations = sum(len(r["results"]) for r in runs)
    mismatches = [(cid, what) for r in runs for cid, what in r["results"] if what != "ok"]
    oracle_fails = [o for r in runs for o in r["oracle"]]
    for o in oracle_fails:
        if o["id"] in seen:
            continue
        seen.add(o["id"])
        path = C.write_replay(prop_id, o["id"], {"property": prop_id, "kind": "implementation-oracle", "case_id": o["id"],
                                                 "what": o["what"], "case_line": lines_by_id.get(o["id"], "")[:4000],
                                                 "regenerate": "harness/target/debug/http %s %s %s" % (seed, count, tier)})
        violations.append("VIOLATION property=%s replay=%s" % (prop_id, path))
    for cid, what in mismatches[:5]:
        if cid in seen:
            continue
        seen.add(cid)
        path = C.write_replay(prop_id, cid, {"property": prop_id, "kind": "correspondence",
                                             "correspondence": "http: real endpoint vs Http.route / Http.publish",
                                             "first_diverging_event": what, "case_line": lines_by_id.get(cid, "")[:4000],
                                             "regenerate": "harness/target/debug/http %s %s %s" % (seed, count, tier)})
        # the response itself contradicts the property when a published body is not returned / wrong status
        violations.append("VIOLATION property=%s replay=%s" % (prop_id, path))
    if broken and not violations:
        what = []
        if not ok_t:
            what.append("translator obligation: " + tlog)
        if not proof["ok"]:
            what.append("proof obligations no longer check: " + "; ".join(proof["failed"]))
        path = C.write_replay(prop_id, "proof", {"property": prop_id, "kind": "proof-obligation", "no_longer_checks": what,
                                                 "log": proof.get("log", "")[:4000],
                                                 "extended_search": {"evaluations": evaluations, "oracle_failures": 0, "mismatches": 0}})
        violations.append("VIOLATION property=%s replay=%s no-failing-input-found" % (prop_id, path))
    distinct = {}
    for r in runs:
        for l in r["lines"]:
            p = l.split(" ")
            if p[0] in ("req", "creq"):
                body = " ".join(p[2:])
                distinct[C.digest(body)] = p
    nontrivial = sum(1 for p in distinct.values() if "RESP" in p and p[p.index("RESP") + 1] in ("200", "404"))
    stats = {}
    for r in runs:
        for k, v in r["stats"].items():
            stats[k] = stats.get(k, 0) + v
    thms = proof.get("theorems", [])
    samples = [l[:300] for l in (runs[0]["lines"][:3] + runs[0]["lines"][-2:])]
    ev = {
        "property_id": prop_id, "tier": tier, "seed": seed, "level": "proof",
        "coverage": {
            "obligations": len(thms) + proof.get("examples", 0) + 1,
            "discharged": (len(thms) + proof.get("examples", 0) if proof["ok"] else 0) + (1 if ok_t else 0),
            "checker_cmd": "cd /verif/lean && lake build BevySyncModel.Props.C14 && lake env lean .lake/audit_C14.lean  (#print axioms)",
            "trusted_base": C.TRUSTED_BASE_COMMON + TRUSTED,
            "theorems": thms, "axioms": proof.get("axioms", {}), "non_vacuity_examples": proof.get("examples", 0),
            "translator": "ok" if ok_t else tlog,
            "evaluations": evaluations, "distinct_nontrivial": nontrivial,
            "rule": "every publication and every HTTP response of the real endpoint (127.0.0.1 and ::1) is compared with Http.publish / Http.route; "
                    "concurrent responses must match route on some cache state between send and receive; distinct = distinct (endpoint, method, path, response), non-trivial = status 200 or 404",
            "samples": samples,
            "traces_validated_against_impl": sum(1 for r in runs for _, w in r["results"] if w == "ok"),
            "disagreements_checked": len(mismatches),
            "implementation_oracle_failures": len(oracle_fails),
            "input_distribution": stats,
            "partial": True,
            "partial_reason": "routing, publication, status/body/length and liveness of the responder loop are proved on the model; OS sockets, thread scheduling and a stalled reader are runtime behaviour the model cannot exhibit",
            "build_s": {"lean": proof.get("build_s"), "harness": hbuild_s},
        },
        "assumptions": ["HTTP/1.1 requests without TE header, Connection: close", "ids are 16 bytes"],
        "wall_s": round(time.time() - t0, 1),
        "violations": len(violations),
    }
    C.write_evidence(prop_id, ev)
    print("%s %s: proof %s (%d theorems, %d examples), translator %s, %d publications/responses vs model: %d mismatches, %d oracle failures, %.0fs"
          % (prop_id, tier, "ok" if proof["ok"] else "BROKEN", len(thms), proof.get("examples", 0),
             "ok" if ok_t else "BROKEN", evaluations, len(mismatches), len(oracle_fails), time.time() - t0))
    for v in violations:
        print(v)
    return 1 if violations else 0
