"""Protocol properties decided on real sessions: proof (Lean slice theorems) + tie (translator flags,
slice correspondence: the real trace projected onto the slice must be predicted step by step by the
model) + implementation oracle (the property's predicate on the implementation's own trace)."""
import collections, concurrent.futures, json, os, re, time
from . import common as C
from . import trace as T

# property -> configuration
PLAN = {
    "C02": dict(families=[("comp", 36, 400)], oracle=lambda h: [f for f in T.oracle_components(h) if f[0] == "C02"],
                slices=["comp", "mark"], ref="§7 C02"),
    "C10": dict(families=[("comp", 36, 400)], oracle=lambda h: [f for f in T.oracle_components(h) if f[0] == "C10"],
                slices=["comp"], ref="§7 C10"),
    "C09": dict(families=[("comp", 30, 300), ("ent", 16, 160), ("asset", 18, 180), ("parent", 14, 140)],
                oracle=lambda h: (T.oracle_asset_traffic(h) if h.family == "asset" else
                                  [("C09",) + f[1:] for f in T.oracle_parents(h) if "did not terminate" in f[1]] if h.family == "parent" else
                                  [f for f in (T.oracle_components(h) if h.family != "ent" else T.oracle_entities(h)) if f[0] == "C09"]),
                slices=["comp"], slice_families=("comp", "ent"), ref="§7 C09"),
    # join histories (new clients joining while others spawn / despawn): the entity-set part of the join oracle, for
    # newcomers and established clients (what a *returning* client keeps is C03's subject, finding D16; a second replica of a
    # uuid on a returning client is C01's)
    "C01": dict(families=[("ent", 40, 400), ("join", 12, 120)],
                oracle=lambda h: ([f for f in T.oracle_entities(h) if f[0] == "C01"] if h.family == "ent" else
                                  [("C01",) + f[1:] for f in T.oracle_join(h)
                                   if "live entities with the same uuid" in f[1] or ("returning client" not in f[1] and "synchronized entities" in f[1])]),
                slices=["ent"], slice_families=("ent",), ref="§7 C01"),
    "C15": dict(families=[("conn", 40, 400)], oracle=lambda h: T.oracle_conn(h), slices=["conn"], ref="§7 C15"),
    # join histories: hierarchies delivered through the joining snapshot while links keep being set (the parent-link part of
    # the join oracle, newcomers and established clients; what a returning client keeps is C03's subject)
    "C05": dict(families=[("parent", 36, 400), ("join", 18, 120)],
                oracle=lambda h: (T.oracle_parents(h) if h.family == "parent" else
                                  [("C05",) + f[1:] for f in T.oracle_join(h) if "returning client" not in f[1] and "parent link" in f[1]]),
                slices=["parent", "hier"], slice_families=("parent",), ref="§7 C05"),
    "C04": dict(families=[("filter", 30, 300)], oracle=lambda h: T.filter_checks(h)[1], slices=["filter"], ref="§7 C04"),
    "C17": dict(families=[("fix", 30, 300)],
                oracle=lambda h: T.fix_cases(h, False)[1] + [("C17",) + f[1:] for f in T.oracle_components(h) if f[0] == "C02"],
                slices=["fixrun", "comp"], ref="§7 C17"),
    "C16": dict(families=[("skin", 30, 300)], oracle=lambda h: T.skin_cases(h)[1], slices=["skin"], ref="§7 C16"),
    "C03": dict(families=[("join", 36, 360)], oracle=lambda h: T.oracle_join(h), slices=["snapj"], ref="§7 C03"),
    "C07": dict(families=[("promo", 30, 300)], oracle=lambda h: T.oracle_promo(h), slices=["promo"], ref="§7 C07"),
    "C06": dict(families=[("asset", 36, 360)],
                oracle=lambda h: T.oracle_assets(h) + [("C06",) + f[1:] for f in T.oracle_asset_traffic(h) if "does not stop" in f[1]],
                slices=["asset"], ref="§7 C06"),
    "C08": dict(families=[("fault", 240, 880)], oracle=lambda h: T.oracle_fault(h), slices=["fault"], ref="§7 C08"),
}

# properties whose unbounded theorems cover only part of the statement (what is missing is decided by the
# correspondence + oracle on every run and spelled out in MANIFEST.json / DESIGN.md)
PARTIAL = {}

TRUSTED = [
    "modelled, tied by trace correspondence only: bevy's scheduler (atomic systems, one shared sync point, end-of-schedule flush in topological order; the harness forces the single-threaded executor on Update so that run order = dumped order), change detection ticks, Commands, renet's reliable ordered channel (FIFO, no loss/duplication within its budget), netcode handshake",
    "the projection of a real trace onto slice actions (checklib/trace.py) is trusted glue: detect/react/poll positions from the dumped schedule order, deliveries from the receive tap, closures flushed at the end of the frame",
    "assumptions: Uuid::new_v4 never collides; bevy Entity values are not reused within a run; localhost UDP delivers; reflect equality is reflexive on the generated values (no NaN in session values)",
    "the multi-threaded executor's extra freedom (run order differs from flush order) is covered by the small-step theorems but not by correspondence runs",
]


def run_family(family, seed, count, tier):
    rc, out, err = C.run([C.harness_bin("session"), family, str(seed), str(count), tier], timeout=3600)
    if rc != 0:
        return None, "harness session %s failed rc=%s: %s" % (family, rc, (err or out)[-800:])
    return T.parse(out), None


def slice_lines(h, kind, flags):
    if kind == "parent":
        for inst, lines, meta in T.parent_instances(h):
            yield inst, lines, meta
    if kind == "ent":
        for inst, lines, meta in T.ent_instances(h):
            yield inst, lines, meta
    if kind == "comp":
        for inst, lines, meta in T.comp_instances(h, legacy=flags.get("applySkipsOnToken", False), patch=flags.get("applyIsPatch", False)):
            yield inst, lines, meta


def read_flags():
    flags = {}
    for f in ("Sync.lean", "Guards.lean", "Conn.lean", "Asset.lean", "Snap.lean", "Ent.lean", "Promo.lean"):
        p = os.path.join(C.LEAN, "BevySyncModel", "Generated", f)
        if os.path.exists(p):
            for m in re.finditer(r"def (\w+) : Bool := (true|false)", open(p).read()):
                flags[m.group(1)] = m.group(2) == "true"
    return flags


def history_summary(h, maxops=80):
    ops = [e for e in h.events if e["ev"] in ("op", "phase", "drain", "connected")]
    return {"id": h.id, "clients": h.nclients, "ops": ops[:maxops], "n_events": len(h.events), "panic": h.panic}


def check(prop_id, tier, seed, replay=None):
    t0 = time.time()
    plan = PLAN[prop_id]
    ok_t, tlog = C.translate()
    proof = C.lean_build(prop_id, leanchecker=(tier == "thorough"))
    ok_h, hlog, hbuild_s = C.harness_build()
    if not ok_h:
        print("ERROR: harness does not build against /repo's current tree:\n" + hlog[-1500:])
        return 2
    flags = read_flags()
    broken = (not ok_t) or (not proof["ok"])
    mult = 6 if (broken and tier == "quick") else 1
    histories = []
    for family, q, th in plan["families"]:
        count = (th if tier == "thorough" else q) * mult
        # split over a few processes: sessions use real UDP sockets and are independent
        parts = max(1, min(8, count // 10))
        if family == "fault":
            # the fault family enumerates its cases by history index (case x direction x number of clients = 68 combinations):
            # one process walks them in order so that every combination is reached
            # ... and a few processes do so, because the order of the unordered systems (the application's despawn system
            # against the replication chain) is drawn once per process
            parts = min(6, max(1, count // 80))
        per = (count + parts - 1) // parts
        with concurrent.futures.ThreadPoolExecutor(max_workers=parts) as ex:
            futs = [ex.submit(run_family, family, seed * 100 + k, per, tier) for k in range(parts)]
            for f in futs:
                hs, e = f.result()
                if e:
                    print("ERROR: " + e)
                    return 2
                histories += hs
    known = C.load_known_findings()
    known_here = [k for k in known.get("findings", []) if k["property"] == prop_id]

    # (O) implementation oracle
    oracle_fails = []
    for h in histories:
        if h.panic and prop_id != "C08":
            # a crash is C08's finding; for the other properties the history is simply not usable
            continue
        for f in plan["oracle"](h):
            oracle_fails.append((h, f))
    # (T) slice correspondence
    lines, inst_of, skipped = [], {}, 0
    fault_groups = {}
    if "hier" in plan["slices"]:
        # bevy_hierarchy itself against `Slice/Hier` (order of the `Children` lists included): random sequences of local
        # set_parent operations and guarded handler applications on a bare World, no networking
        rc, hout, herr = C.run([C.harness_bin("hier"), str(seed), str((20000 if tier == "thorough" else 500) * mult)], timeout=600)
        if rc != 0:
            print("ERROR: hier harness failed: " + herr[-500:])
            return 2
        for l in hout.split("\n"):
            if l.startswith("hier "):
                inst_of[l.split(" ")[1]] = (None, {})
                lines.append(l)
    for h in histories:
        if "fault" in plan["slices"]:
            for inst, steps, world, g, panicked in T.fault_lines(h, flags):
                # ask the model for its verdict under this ordering; observed is filled in below
                lines.append("fault %s %s %s %s %s" % (inst, g, world, steps, "ok"))
                fault_groups.setdefault(h.id, {"h": h, "panicked": panicked, "insts": []})["insts"].append(inst)
        if "skin" in plan["slices"]:
            for l in T.skin_cases(h)[0]:
                inst_of[l.split(" ")[1]] = (h, {})
                lines.append(l)
        if "filter" in plan["slices"]:
            for l in T.filter_checks(h)[0]:
                inst_of[l.split(" ")[1]] = (h, {})
                lines.append(l)
        if "conn" in plan["slices"]:
            for l in T.conn_lines(h, flags.get("connClientDisconnectLegacy", False), flags.get("connConnectingOnlyFromDisconnected", False)) + T.budget_lines(h):
                inst_of[l.split(" ")[1]] = (h, {})
                lines.append(l)
        if "asset" in plan["slices"]:
            for l in T.asset_lines(h, flags.get("assetTokensCounted", True), flags.get("assetRequestSkipsServed", False)):
                inst_of[l.split(" ")[1]] = (h, {})
                lines.append(l)
        if "promo" in plan["slices"]:
            for l in T.promo_lines(h) + T.chain_lines(h):
                inst_of[l.split(" ")[1]] = (h, {})
                lines.append(l)
        if "snapj" in plan["slices"] or "conn" in plan["slices"]:
            for l in T.world_lines(h):
                inst_of[l.split(" ")[1]] = (h, {})
                lines.append(l)
        if "snapj" in plan["slices"]:
            for l in T.snap_lines(h):
                inst_of[l.split(" ")[1]] = (h, {})
                lines.append(l)
        if "mark" in plan["slices"]:
            for l in T.mark_lines(h, not flags.get("detectSeesNewSyncEntity", True)):
                inst_of[l.split(" ")[1]] = (h, {})
                lines.append(l)
        if "fixrun" in plan["slices"]:
            for l in T.fix_cases(h, flags.get("fixReinsertsValue", False))[0]:
                inst_of[l.split(" ")[1]] = (h, {})
                lines.append(l)
        for kind in [k for k in plan["slices"] if k not in ("fault", "skin", "fixrun", "filter", "conn", "asset", "mark", "snapj", "promo", "hier")]:
            if plan.get("slice_families") and h.family not in plan["slice_families"]:
                continue
            for inst, ls, meta in slice_lines(h, kind, flags):
                if ls is None:
                    skipped += 1
                    continue
                inst_of[inst] = (h, meta)
                lines += ls
    mismatches, validated = [], 0
    if lines:
        rc, mout, merr = C.run([C.BSMODEL], input="\n".join(lines) + "\n", timeout=3600, big_stack=True)
        if rc != 0:
            print("ERROR: model driver failed: " + merr[-500:])
            return 2
        model_ok = {}
        for l in mout.split("\n"):
            inst = l.split(" ")[-1] if l else ""
            if "#" in inst and inst.split("#")[0] in fault_groups:
                model_ok[inst] = l.startswith("ok ")      # asked with "ok": ok = the model's flush completes
                continue
            if l.startswith("ok "):
                validated += 1
            elif l.startswith("MISMATCH"):
                mismatches.append((inst, l[: l.rfind(" ")]))
        for hid, grp in fault_groups.items():
            verdicts = [model_ok.get(i, True) for i in grp["insts"]]
            inst_of[hid] = (grp["h"], {})
            if grp["panicked"] and all(verdicts):
                mismatches.append((hid, "MISMATCH fault: the implementation panicked, the model's flush completes in every order"))
            elif (not grp["panicked"]) and not any(verdicts):
                mismatches.append((hid, "MISMATCH fault: the model panics in every order, the implementation did not"))
            else:
                validated += 1

    violations, known_lines, seen = [], [], set()
    for h, f in oracle_fails:
        if f[0] != prop_id and not (prop_id == "C08"):
            continue
        matched = [k for k in known_here if k.get("match") and k["match"] in f[1]]
        if matched:
            known_lines.append("KNOWN-FINDING: property=%s %s" % (prop_id, matched[0]["what"]))
            continue
        key = h.id
        if key in seen:
            continue
        seen.add(key)
        path = C.write_replay(prop_id, h.id, {"property": prop_id, "kind": "implementation-oracle", "what": f[1], "detail": f[2],
                                              "history": history_summary(h),
                                              "regenerate": "harness/target/debug/session %s <seed> <count> %s  (history ids are <family>-<seed>-<index>; the Update schedule order is random per run)" % (h.family, tier)})
        violations.append("VIOLATION property=%s replay=%s" % (prop_id, path))
        if len(violations) >= 5:
            break
    if not violations:
        for inst, what in mismatches[:5]:
            h, meta = inst_of.get(inst, (None, None))
            path = C.write_replay(prop_id, inst, {"property": prop_id, "kind": "correspondence",
                                                  "correspondence": "slice %s: real trace vs model" % plan["slices"],
                                                  "first_diverging_event": what,
                                                  "history": history_summary(h) if h else None})
            violations.append("VIOLATION property=%s replay=%s no-failing-input-found" % (prop_id, path))
    if broken and not violations:
        what = []
        if not ok_t:
            what.append("translator obligation: " + tlog)
        if not proof["ok"]:
            what.append("proof obligations no longer check: " + "; ".join(proof["failed"]))
        path = C.write_replay(prop_id, "proof", {"property": prop_id, "kind": "proof-obligation", "no_longer_checks": what,
                                                 "log": proof.get("log", "")[:4000], "code_path_flags": flags,
                                                 "extended_search": {"histories": len(histories), "oracle_failures": 0, "mismatches": len(mismatches)}})
        violations.append("VIOLATION property=%s replay=%s no-failing-input-found" % (prop_id, path))

    # evidence
    frames = sum(1 for h in histories for e in h.events if e["ev"] == "frame")
    ops = collections.Counter(e["op"] for h in histories for e in h.events if e["ev"] == "op")
    dist = {
        "histories": len(histories), "frames": frames, "ops": dict(ops),
        "clients": dict(collections.Counter(h.nclients for h in histories)),
        "phases_by_type": dict(collections.Counter(e["ty"] for h in histories for e in h.events if e["ev"] == "phase")),
        "writer_roles": dict(collections.Counter(("host" if e["writer"] == 0 else "client") for h in histories for e in h.events if e["ev"] == "phase")),
        "system_orders_seen": len(set(tuple(e["order"]) for h in histories for e in h.events if e["ev"] == "sched")),
        "drains_quiescent": sum(1 for h in histories for e in h.events if e["ev"] == "drain" and e["quiescent"]),
        "drains_not_quiescent": sum(1 for h in histories for e in h.events if e["ev"] == "drain" and not e["quiescent"]),
        "slice_instances": len(inst_of), "slice_instances_skipped_unclean": skipped,
    }
    distinct = set()
    for h in histories:
        sig = json.dumps([(e.get("op"), e.get("peer"), e.get("ty")) for e in h.events if e["ev"] in ("op", "phase")])
        if sum(1 for e in h.events if e["ev"] == "op" and e["op"] in ("write", "spawn", "despawn", "set_parent", "asset_insert")) >= 2:
            distinct.add(C.digest(sig))
    thms = proof.get("theorems", [])
    sample = history_summary(histories[0], 12) if histories else {}
    ev = {
        "property_id": prop_id, "tier": tier, "seed": seed, "level": "proof",
        "coverage": {
            "obligations": len(thms) + proof.get("examples", 0) + 1,
            "discharged": (len(thms) + proof.get("examples", 0) if proof["ok"] else 0) + (1 if ok_t else 0),
            "checker_cmd": "cd /verif/lean && lake build BevySyncModel.Props.%s && lake env lean .lake/audit_%s.lean  (#print axioms)" % (prop_id, prop_id),
            "trusted_base": C.TRUSTED_BASE_COMMON + TRUSTED,
            "theorems": thms, "axioms": proof.get("axioms", {}), "non_vacuity_examples": proof.get("examples", 0),
            "translator": "ok" if ok_t else tlog, "code_path_flags": flags,
            "evaluations": len(histories), "distinct_nontrivial": len(distinct),
            "rule": "session histories generated from one PRNG seed by harness/src/bin/session.rs on real Apps over localhost UDP; "
                    "distinct = distinct (operation, peer, type) sequences, non-trivial = at least two application operations",
            "samples": [sample],
            "traces_validated_against_impl": validated,
            "disagreements_checked": len(mismatches),
            "implementation_oracle_failures": len([1 for h, f in oracle_fails if f[0] == prop_id]) - len(known_lines),
            "known_finding_instances": len(known_lines),
            "input_distribution": dist,
            "known_findings_replayed": len(known_lines),
            "build_s": {"lean": proof.get("build_s"), "harness": hbuild_s},
            "partial": prop_id in PARTIAL, "partial_what": PARTIAL.get(prop_id),
        },
        "assumptions": ["single writer per key between drains (the property excludes simultaneous conflicting writes)",
                        "the component type is registered on every peer and not excluded"],
        "wall_s": round(time.time() - t0, 1),
        "violations": len(violations),
    }
    C.write_evidence(prop_id, ev)
    n_or = len([1 for h, f in oracle_fails if f[0] == prop_id])
    n_known = len(known_lines)
    print("%s %s: proof %s (%d theorems, %d examples), translator %s, %d histories (%d frames), %d slice instances vs model: %d mismatches, %d oracle failures%s, %.0fs"
          % (prop_id, tier, "ok" if proof["ok"] else "BROKEN", len(thms), proof.get("examples", 0), "ok" if ok_t else "BROKEN",
             len(histories), frames, len(inst_of), len(mismatches), n_or - n_known,
             (" (+ %d instances of recorded findings)" % n_known) if n_known else "", time.time() - t0))
    # one line per listed finding of this property, whether or not this run's sample happened to walk into it
    for k in sorted(set(known_lines) | set("KNOWN-FINDING: property=%s %s" % (prop_id, k["what"]) for k in known_here)):
        print(k)
    for v in violations:
        print(v)
    return 1 if violations else 0
