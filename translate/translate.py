#!/usr/bin/env python3
"""Translator: regenerates, from /repo's current sources (and the pinned wgpu-types source named by
`cargo metadata --offline`), the Lean data the models are parameterised by:

  Generated/MeshData.lean        wire descriptor of `struct MeshData`           (mesh_serde.rs)
  Generated/ImageData.lean       wire descriptor of `struct ImageData`          (image_serde.rs)
  Generated/Proto.lean           variants of `enum Message`, `SyncConnectionParameters` (proto.rs, lib.rs)
  Generated/SkinMapper.lean      wire descriptor of `struct SkinnedMeshSyncMapper` (lib_priv.rs)
  Generated/TextureFormats.lean  serde names of `wgpu_types::TextureFormat`
  Generated/Http.lean            routing facts read off `SyncAssetTransfer::respond` / `new`

A construct the Rust-subset parser does not understand is an error (exit 2): the tie fails, nothing is
defaulted.  Stdlib only."""
import json, os, re, subprocess, sys

REPO = os.environ.get("VERIF_REPO", "/repo")
OUT = os.path.join(os.path.dirname(os.path.abspath(__file__)), "..", "lean", "BevySyncModel", "Generated")


class TranslateError(Exception):
    pass


def strip_comments(src):
    """remove // and /* */ comments, leaving string literals intact"""
    out, i, n = [], 0, len(src)
    while i < n:
        c = src[i]
        if c == '"':
            j = i + 1
            while j < n and src[j] != '"':
                j += 2 if src[j] == "\\" else 1
            out.append(src[i : j + 1])
            i = j + 1
        elif src.startswith("//", i):
            while i < n and src[i] != "\n":
                i += 1
        elif src.startswith("/*", i):
            i = src.index("*/", i) + 2
        else:
            out.append(c)
            i += 1
    return "".join(out)


def find_block(src, header_re):
    m = re.search(header_re, src)
    if not m:
        raise TranslateError("cannot find %s" % header_re)
    i = src.index("{", m.end() - 1)
    depth, j = 0, i
    while True:
        c = src[j]
        if c == "{":
            depth += 1
        elif c == "}":
            depth -= 1
            if depth == 0:
                return src[i + 1 : j]
        j += 1


def split_top(s, sep=","):
    out, depth, cur = [], 0, ""
    for c in s:
        if c in "<([{":
            depth += 1
        elif c in ">)]}":
            depth -= 1
        if c == sep and depth == 0:
            out.append(cur)
            cur = ""
        else:
            cur += c
    if cur.strip():
        out.append(cur)
    return [x.strip() for x in out if x.strip()]


def strip_attrs(s):
    # drop #[...] attributes and visibility
    s = re.sub(r"#\[[^\]]*\]", "", s)
    s = re.sub(r"\bpub(\([^)]*\))?\s+", "", s)
    return s.strip()


class Types:
    def __init__(self, aliases, named):
        self.aliases = aliases  # name -> rust type string
        self.named = named      # name -> lean expression

    def ty(self, t):
        t = t.strip()
        prim = {
            "u8": "(Ty.uint 1)", "i8": "(Ty.uint 1)", "u16": "(Ty.uint 2)", "i16": "(Ty.uint 2)",
            "u32": "(Ty.uint 4)", "i32": "(Ty.uint 4)", "f32": "(Ty.uint 4)",
            "u64": "(Ty.uint 8)", "i64": "(Ty.uint 8)", "f64": "(Ty.uint 8)", "usize": "(Ty.uint 8)", "isize": "(Ty.uint 8)",
            "u128": "(Ty.uint 16)", "i128": "(Ty.uint 16)",
            "bool": "Ty.bool", "String": "Ty.str", "Uuid": "Ty.uuid", "uuid::Uuid": "Ty.uuid",
            # serde of wgpu_types::TextureFormat is `serialize_str(name)`
            "TextureFormat": "Ty.str",
            # glam Mat4 under bincode: 16 f32
            "Mat4": "(Ty.tup (TyList.ofList (List.replicate 16 (Ty.uint 4))))",
        }
        if t in prim:
            return prim[t]
        if t in self.named:
            return self.named[t]
        if t in self.aliases:
            return self.ty(self.aliases[t])
        m = re.fullmatch(r"Vec<(.*)>", t)
        if m:
            inner = m.group(1).strip()
            if inner == "u8":
                return "Ty.bytes"
            return "(Ty.seq %s)" % self.ty(inner)
        m = re.fullmatch(r"Option<(.*)>", t)
        if m:
            return "(Ty.opt %s)" % self.ty(m.group(1))
        m = re.fullmatch(r"\[(.*);\s*(\d+)\]", t)
        if m:
            return "(Ty.tup (TyList.ofList (List.replicate %s %s)))" % (m.group(2), self.ty(m.group(1)))
        m = re.fullmatch(r"AssetId<.*>", t)
        if m:
            # bevy_asset 0.14: enum AssetId { Index { index: AssetIndex{generation:u32,index:u32}, marker: PhantomData }, Uuid { uuid } }
            return ("(Ty.enm (TyList.ofList [Ty.tup (TyList.ofList [Ty.tup (TyList.ofList [Ty.uint 4, Ty.uint 4]), Ty.tup TyList.nil]), "
                    "Ty.tup (TyList.ofList [Ty.uuid])]))")
        if t == "IpAddr":
            # serde (non human readable): enum { V4([u8;4]), V6([u8;16]) }
            return ("(Ty.enm (TyList.ofList [Ty.tup (TyList.ofList [Ty.tup (TyList.ofList (List.replicate 4 (Ty.uint 1)))]), "
                    "Ty.tup (TyList.ofList [Ty.tup (TyList.ofList (List.replicate 16 (Ty.uint 1)))])]))")
        raise TranslateError("unsupported Rust type: %r" % t)


def parse_aliases(src):
    return {m.group(1): m.group(2).strip() for m in re.finditer(r"\btype\s+(\w+)\s*=\s*([^;]+);", src)}


def parse_struct_fields(body):
    fields = []
    for f in split_top(body):
        f = strip_attrs(f)
        m = re.fullmatch(r"(\w+)\s*:\s*(.+)", f, flags=re.S)
        if not m:
            raise TranslateError("cannot parse field %r" % f)
        fields.append((m.group(1), re.sub(r"\s+", "", m.group(2)).replace(";", "; ")))
    return fields


def parse_enum_variants(body):
    """returns [(name, [(fieldname|None, type)], discriminant|None)]"""
    out = []
    for v in split_top(body):
        v = strip_attrs(v)
        disc = None
        m = re.match(r"^(\w+)\s*(\{.*\}|\(.*\))?\s*(=\s*(\d+))?$", v, flags=re.S)
        if not m:
            raise TranslateError("cannot parse variant %r" % v)
        name, payload, disc = m.group(1), m.group(2), m.group(4)
        fields = []
        if payload:
            inner = payload[1:-1]
            if payload[0] == "{":
                fields = parse_struct_fields(inner)
            else:
                fields = [(None, re.sub(r"\s+", "", t)) for t in split_top(inner)]
        out.append((name, fields, disc))
    return out


def lean_str(s):
    return '"' + s.replace("\\", "\\\\").replace('"', '\\"') + '"'


HEADER = "import BevySyncModel.Wire\n/-! GENERATED by /verif/translate/translate.py from %s — do not edit; rewritten on every run. -/\nnamespace BevySync\nnamespace Generated\nopen Wire\n\n"
FOOTER = "\nend Generated\nend BevySync\n"


def write(name, text):
    os.makedirs(OUT, exist_ok=True)
    path = os.path.join(OUT, name)
    old = open(path).read() if os.path.exists(path) else None
    if old != text:
        with open(path, "w") as f:
            f.write(text)


def gen_struct(src_path, struct_name, lean_name, out_file, extra_aliases=None):
    src = strip_comments(open(os.path.join(REPO, src_path)).read())
    body = find_block(src, r"struct\s+%s\s*\{" % struct_name)
    fields = parse_struct_fields(body)
    types = Types(dict(parse_aliases(src), **(extra_aliases or {})), {})
    rows = ",\n   ".join("(%s, %s)" % (lean_str(n), types.ty(t)) for n, t in fields)
    text = HEADER % src_path
    text += "def %sFields : List (String × Ty) :=\n  [%s]\n\n" % (lean_name, rows)
    text += "def %sTy : Ty := Ty.tup (TyList.ofList (%sFields.map (·.2)))\n" % (lean_name, lean_name)
    text += FOOTER
    write(out_file, text)
    return fields


def gen_proto():
    lib = strip_comments(open(os.path.join(REPO, "src/lib.rs")).read())
    proto = strip_comments(open(os.path.join(REPO, "src/proto.rs")).read())
    aliases = parse_aliases(proto)
    # SyncConnectionParameters
    body = find_block(lib, r"enum\s+SyncConnectionParameters\s*\{")
    cvars = parse_enum_variants(body)
    types = Types(aliases, {})
    cv = []
    for name, fields, _ in cvars:
        cv.append("(%s, [%s])" % (lean_str(name), ", ".join(types.ty(t) for _, t in fields)))
    text = HEADER % "src/proto.rs, src/lib.rs"
    text += "def connParamsVariants : List (String × List Ty) :=\n  [%s]\n\n" % ",\n   ".join(cv)
    text += "def connParamsTy : Ty := Ty.enm (TyList.ofList (connParamsVariants.map (fun v => Ty.tup (TyList.ofList v.2))))\n\n"
    types = Types(aliases, {"SyncConnectionParameters": "connParamsTy"})
    body = find_block(proto, r"enum\s+Message\s*\{")
    mvars = parse_enum_variants(body)
    mv = []
    for name, fields, _ in mvars:
        mv.append("(%s, [%s])" % (lean_str(name), ", ".join(types.ty(t) for _, t in fields)))
    text += "def messageVariants : List (String × List Ty) :=\n  [%s]\n\n" % ",\n   ".join(mv)
    text += "def messageTy : Ty := Ty.enm (TyList.ofList (messageVariants.map (fun v => Ty.tup (TyList.ofList v.2))))\n\n"
    text += "def messageFieldNames : List (String × List String) :=\n  [%s]\n" % ",\n   ".join(
        "(%s, [%s])" % (lean_str(n), ", ".join(lean_str(f or "") for f, _ in fs)) for n, fs, _ in mvars)
    text += FOOTER
    write("Proto.lean", text)
    return mvars


def wgpu_source():
    try:
        meta = json.loads(subprocess.run(
            ["cargo", "metadata", "--offline", "--format-version", "1"], cwd=REPO, capture_output=True, text=True,
            check=True, env=dict(os.environ, CARGO_NET_OFFLINE="true")).stdout)
    except Exception as e:
        raise TranslateError("cargo metadata failed: %s" % e)
    for p in meta["packages"]:
        if p["name"] == "wgpu-types":
            return os.path.join(os.path.dirname(p["manifest_path"]), "src", "lib.rs")
    raise TranslateError("wgpu-types not in cargo metadata")


def gen_texture_formats():
    path = wgpu_source()
    src = strip_comments(open(path).read())
    m = re.search(r"impl\s+Serialize\s+for\s+TextureFormat\s*\{", src)
    if not m:
        raise TranslateError("no Serialize impl for TextureFormat")
    body = find_block(src, r"impl\s+Serialize\s+for\s+TextureFormat\s*\{")
    names = re.findall(r"TextureFormat::(\w+)\s*=>\s*\"([^\"]+)\"", body)
    blocks = re.findall(r"AstcBlock::(\w+)\s*=>\s*\"([^\"]+)\"", body)
    chans = re.findall(r"AstcChannel::(\w+)\s*=>\s*\"([^\"]+)\"", body)
    if len(names) < 40 or not blocks or not chans or "astc-{block}-{channel}" not in body:
        raise TranslateError("TextureFormat serializer has an unexpected shape")
    entries = [(v, n) for v, n in names]
    for bv, bn in blocks:
        for cv, cn in chans:
            entries.append(("Astc_%s_%s" % (bv, cv), "astc-%s-%s" % (bn, cn)))
    text = "/-! GENERATED by /verif/translate/translate.py from %s (impl Serialize for TextureFormat) — do not edit. -/\nnamespace BevySync\nnamespace Generated\n\n" % path
    text += "/-- serde names of wgpu_types::TextureFormat, in match order; ASTC = block × channel -/\n"
    text += "def textureFormatNames : List (List UInt8) :=\n  [" + ",\n   ".join(
        "/- %s %s -/ [" % (v, n) + ", ".join(str(b) for b in n.encode()) + "]" for v, n in entries) + "]\n"
    text += "\ndef textureFormatCount : Nat := %d\n" % len(entries)
    text += FOOTER
    write("TextureFormats.lean", text)
    return entries


def gen_http():
    """Facts about `respond` and `new`/`serve_*` read off the source: class order of the `contains`
    tests, prefixes, status codes, the URL formats; plus the escape hatches (`continue`, `unwrap`)."""
    src = strip_comments(open(os.path.join(REPO, "src/networking/assets/mod.rs")).read())
    body = find_block(src, r"fn\s+respond\s*\(")
    # strip the parameter list: find the function body (second block)
    m = re.search(r"fn\s+respond\s*\([^{]*\)\s*\{", src, flags=re.S)
    if not m:
        raise TranslateError("respond signature")
    body = find_block(src[m.start():], r"fn\s+respond\s*\([^{]*\)\s*\{")
    order = re.findall(r"url\.contains\(\"(/\w+/)\"\)", body)
    prefixes = re.findall(r"url\.strip_prefix\(\"(/\w+/)\"\)", body)
    classes = re.findall(r"\(SyncAssetType::(\w+),\s*id\)", body)
    codes = sorted(set(int(x) for x in re.findall(r"with_status_code\((\d+)\)", body)))
    lookups = re.findall(r"SyncAssetType::(\w+)\s*=>\s*\{\s*let\s+Ok\((\w+)\)\s*=\s*(\w+)\.read\(\)", body)
    n_continue = len(re.findall(r"\bcontinue\b", body))
    n_break = len(re.findall(r"\bbreak\b", body))
    n_return = len(re.findall(r"\breturn\b", body))
    n_unwrap = len(re.findall(r"\.unwrap\(\)", body))
    n_expect = len(re.findall(r"\.expect\(", body))
    # every accepted request reaches the responder: unbounded hand-over channel, blocking send
    newb = re.sub(r"\s+", "", find_block(src, r"fn\s+new\s*\("))
    handover = "let(server_tx,server_rx)=channel::<Request>();" in newb and "server_tx.send(request)" in newb and "try_send" not in newb and "sync_channel" not in src
    urls = re.findall(r"format!\(\"\{\}(/\w+/)\{\}\"", src)
    base = re.findall(r"format!\(\"(http://[^\"]*)\"", src)
    # publication semantics of serve_*: `entry(id).or_insert_with(..)` (first wins) or `insert(id, ..)` (last wins)
    serve_bodies = [find_block(src, r"fn\s+serve_%s\s*\(" % k) for k in ("mesh", "image", "audio")]
    # find_block returns the parameter-less first brace block, i.e. the function body
    keep = [bool(re.search(r"\.entry\([^)]*\)\s*\.or_insert_with\(", b)) for b in serve_bodies]
    over = [bool(re.search(r"\bmap\.insert\(", b)) for b in serve_bodies]
    if all(keep) and not any(over):
        overwrite = "false"
    elif all(over) and not any(keep):
        overwrite = "true"
    else:
        raise TranslateError("serve_* publication semantics not recognised: keep=%r overwrite=%r" % (keep, over))
    if len(order) != 3 or len(prefixes) != 3 or len(classes) != 3 or len(lookups) != 3:
        raise TranslateError("respond has an unexpected shape: %r %r %r %r" % (order, prefixes, classes, lookups))
    text = "/-! GENERATED by /verif/translate/translate.py from src/networking/assets/mod.rs — do not edit. -/\nnamespace BevySync\nnamespace Generated\n\n"
    text += "/-- (`contains` test, `strip_prefix` argument, class chosen), in the order of the if/else chain of `respond` -/\n"
    text += "def httpRoutes : List (String × String × String) :=\n  [%s]\n\n" % ", ".join(
        "(%s, %s, %s)" % (lean_str(o), lean_str(p), lean_str(c)) for o, p, c in zip(order, prefixes, classes))
    text += "/-- per class: which cache the match arm reads -/\n"
    text += "def httpLookups : List (String × String) :=\n  [%s]\n\n" % ", ".join(
        "(%s, %s)" % (lean_str(c), lean_str(v)) for c, _, v in lookups)
    text += "def httpStatusCodes : List Nat := [%s]\n" % ", ".join(map(str, codes))
    text += "def httpServeUrlPaths : List String := [%s]\n" % ", ".join(lean_str(u) for u in urls)
    text += "def httpBaseUrlFormats : List String := [%s]\n" % ", ".join(lean_str(u) for u in base)
    text += "/-- `serve_*`: false = `entry(id).or_insert_with(..)` (first publication wins), true = `insert` (last wins) -/\n"
    text += "def httpServeOverwrites : Bool := %s\n" % overwrite
    text += "/-- the acceptor hands every request to the responder over an unbounded channel with a blocking send -/\n"
    text += "def httpEveryRequestReachesResponder : Bool := %s\n" % str(bool(handover)).lower()
    text += "/-- escape hatches inside `respond`: (continue, break, return, unwrap, expect) -/\n"
    text += "def httpRespondExits : Nat × Nat × Nat × Nat × Nat := (%d, %d, %d, %d, %d)\n" % (
        n_continue, n_break, n_return, n_unwrap, n_expect)
    text += FOOTER
    write("Http.lean", text)


def fn_body(src, name):
    m = re.search(r"fn\s+%s\s*(<[^>]*>)?\s*\(" % name, src)
    if not m:
        raise TranslateError("cannot find fn %s" % name)
    # skip the parameter list (balanced parentheses), then take the first brace block
    i = src.index("(", m.start())
    depth = 0
    while True:
        if src[i] == "(":
            depth += 1
        elif src[i] == ")":
            depth -= 1
            if depth == 0:
                break
        i += 1
    j = src.index("{", i)
    depth, k = 0, j
    while True:
        if src[k] == "{":
            depth += 1
        elif src[k] == "}":
            depth -= 1
            if depth == 0:
                return src[j + 1 : k]
        k += 1


def gen_sync():
    """Facts about the replication code paths that the slice models are parameterised by."""
    lib = strip_comments(open(os.path.join(REPO, "src/lib_priv.rs")).read())
    fixsrc = strip_comments(open(os.path.join(REPO, "src/bundle_fix.rs")).read())
    apply_body = fn_body(lib, "apply_component_change_from_network")
    # D1: an early `return false` guarded by a lookup in pushed_component_from_network, before the value test
    pre = apply_body.split("is_value_different")[0]
    skips = "pushed_component_from_network" in pre and bool(
        re.search(r"return\s+false", pre.split("pushed_component_from_network", 1)[1]))
    # D13: patch (apply / apply_or_insert) or replace (insert)
    if re.search(r"reflect_component\s*\.\s*(apply_or_insert|apply)\s*\(", apply_body):
        patch = True
    elif re.search(r"reflect_component\s*\.\s*insert\s*\(", apply_body):
        patch = False
    else:
        raise TranslateError("apply_component_change_from_network: how the value is written is not recognised")
    if "insert(change_id)" not in re.sub(r"\s+", "", apply_body):
        raise TranslateError("apply_component_change_from_network: token insertion not found")
    signal_body = fn_body(lib, "signal_component_changed")
    if not (re.search(r"pushed_component_from_network\s*\.\s*contains", signal_body)
            and re.search(r"pushed_component_from_network\s*\.\s*remove", signal_body)
            and re.search(r"changed_components_to_send\s*\.\s*push_back", signal_body)):
        raise TranslateError("signal_component_changed has an unexpected shape")
    # D8: do the companion fixes re-insert the replicated value itself?
    vis = fn_body(fixsrc, "fix_visibility_bundle")
    glob = fn_body(fixsrc, "fix_missing_global_transforms")
    reinserts = bool(re.search(r"\.insert\(\s*\*\s*v\s*\)", vis)) or bool(re.search(r"\.insert\(\s*t\s*\)", glob))
    # detection filter of sync_detect (D2)
    detect_hdr = lib[lib.index("fn sync_detect"):]
    detect_hdr = detect_hdr[: detect_hdr.index("{")]
    skin_hdr = lib[lib.index("fn sync_skinned_mesh"):]
    skin_hdr = re.sub(r"\s+", "", skin_hdr[: skin_hdr.index("{")])
    dh = re.sub(r"\s+", "", detect_hdr)
    detects_added_entity = ("Or<(Changed<T>,Added<SyncEntity>)>" in dh) and ("Or<(Changed<SkinnedMesh>,Added<SyncEntity>)>" in skin_hdr)
    if not detects_added_entity and ("Added<SyncEntity>" in dh or "Added<SyncEntity>" in skin_hdr):
        raise TranslateError("sync_detect / sync_skinned_mesh: detection filters not recognised")
    for need in ("With<SyncEntity>", "Without<SyncExclude<T>>", "Changed<T>"):
        if need not in detect_hdr.replace(" ", ""):
            raise TranslateError("sync_detect filter lacks %s" % need)
    text = "/-! GENERATED by /verif/translate/translate.py from src/lib_priv.rs, src/bundle_fix.rs — do not edit. -/\nnamespace BevySync\nnamespace Generated\n\n"
    text += "/-- apply_component_change_from_network returns early while a debounce token is present (D1) -/\n"
    text += "def applySkipsOnToken : Bool := %s\n" % str(skips).lower()
    text += "/-- the received value is applied as a reflect patch (apply / apply_or_insert) rather than inserted (D13) -/\n"
    text += "def applyIsPatch : Bool := %s\n" % str(patch).lower()
    text += "/-- the companion fixes re-insert the Visibility / Transform value they captured (D8) -/\n"
    text += "def fixReinsertsValue : Bool := %s\n" % str(reinserts).lower()
    text += "/-- sync_detect also fires for entities that just became SyncEntity (values carried at mark time, D2) -/\n"
    text += "def detectSeesNewSyncEntity : Bool := %s\n" % str(detects_added_entity).lower()
    # every entity the detection query yields is queued, each on its own (no state carried from one entity of the loop to the next)
    db = re.sub(r"\s+", "", fn_body(lib, "sync_detect"))
    sb = re.sub(r"\s+", "", fn_body(lib, "sync_skinned_mesh"))
    queues_each = (db == "for(sup,component)inq.iter(){push.signal_component_changed(sup.uuid,component.clone_value());}"
                   and sb == "for(sup,component)inq.iter(){letcomponent_to_send=tracker.to_skinned_mapper(&assets,component);"
                             "tracker.signal_component_changed(sup.uuid,component_to_send.clone_value());}")
    text += "/-- both detection systems queue every entity their query yields, independently of the others in the same frame -/\n"
    text += "def detectQueuesEveryMatch : Bool := %s\n" % str(queues_each).lower()
    # C16: the two translation loops and the name a SkinnedMesh change is signalled under
    tm = fn_body(lib, "to_skinned_mapper")
    ts = fn_body(lib, "to_skinned_mesh")
    loops_ok = (bool(re.search(r"for\s+e\s+in\s+&component\.joints\s*\{\s*if\s+let\s+Some\(uuid\)\s*=\s*self\.entity_to_uuid\.get\(e\)\s*\{\s*joints_uuid\.push\(\*uuid\)", tm))
                and bool(re.search(r"for\s+uuid\s+in\s+&mapper\.joints\s*\{\s*if\s+let\s+Some\(e\)\s*=\s*tracker\.uuid_to_entity\.get\(uuid\)\s*\{\s*joints\.push\(\*e\)", ts))
                and "mapper.inverse_bindposes" in ts and "inverse_bindposes: poses" in tm)
    # token name: apply stores under SkinnedMesh's path when the data is a mapper; the signal site must do the same
    stores_as_skinned = bool(re.search(r"SkinnedMeshSyncMapper>\(\)\s*\{\s*SkinnedMesh::default\(\)\.reflect_type_path\(\)", apply_body))
    signals_as_skinned = bool(re.search(r"SkinnedMeshSyncMapper>\(\)\s*\{\s*SkinnedMesh::default\(\)\.reflect_type_path\(\)", signal_body))
    text += "/-- both joint translation loops keep the order and skip unknown ids; bind poses are copied -/\n"
    text += "def skinLoopsSkipUnknown : Bool := %s\n" % str(loops_ok).lower()
    text += "/-- a SkinnedMesh change is signalled under the name apply_component_change_from_network stores its token with (D5) -/\n"
    text += "def skinTokenNameConsistent : Bool := %s\n" % str(stores_as_skinned == signals_as_skinned).lower()
    # C05: parent links — debounce at both apply sites and both announce sites, unconditional relay on the host
    sr = strip_comments(open(os.path.join(REPO, "src/server/receiver.rs")).read())
    cr = strip_comments(open(os.path.join(REPO, "src/client/receiver.rs")).read())
    st = strip_comments(open(os.path.join(REPO, "src/server/track.rs")).read())
    ct = strip_comments(open(os.path.join(REPO, "src/client/track.rs")).read())
    ns = lambda x: re.sub(r"\s+", "", x)
    def parented_arm(src):
        m = re.search(r"Message::EntityParented\s*\{.*?Message::EntityDelete", src, flags=re.S)
        if not m:
            raise TranslateError("EntityParented arm not found")
        return ns(m.group(0))
    sa, ca = parented_arm(sr), parented_arm(cr)
    apply_tokens = all(re.search(r"set_parent\(\w+\);world\.entity_mut\(\w+\)\.add_child\(\w+\);world\.resource_mut::<SyncTrackerRes>\(\)\.parent_pushed_from_network\(", a) for a in (sa, ca))
    announce_skips = "iftrack.skip_network_parent_change(" in ns(fn_body(st, "entity_parented_on_server")) and \
        "iftrack.skip_network_parent_change(" in ns(fn_body(ct, "entity_parented_on_client"))
    # the relay call of the host closure is outside the `if` that sets the parent
    relay_always = bool(re.search(r"add_child\(\w+\);(world\.resource_mut::<SyncTrackerRes>\(\)\.parent_pushed_from_network\(\w+\);)?\}repeat_except_for_client\(", sa))
    handler_pair = all(re.search(r"if\w+\.is_none\(\)\|\|\w+\.unwrap\(\)\.get\(\)!=\w+\{\w+\.set_parent\(", a) for a in (sa, ca))
    # the decision "is the link already in place" is taken inside the deferred closure, in message order: nothing but the two
    # uuid look-ups stands between the arm and `cmd.add` on the client, nothing at all on the host
    handler_pair = handler_pair and ("=>{letSome(&c_e_id)=track.uuid_to_entity.get(&e_id)else{return;};letSome(&c_p_id)=track.uuid_to_entity.get(&p_id)else{return;};cmd.add(move|world:&mutWorld|{" in ca) \
        and ("=>{cmd.add(move|world:&mutWorld|{lettrack=world.resource::<SyncTrackerRes>();" in sa)
    text += "/-- both EntityParented handlers file a debounce token when (and only when) they change the link, both entity_parented_on_* consume it (D3) -/\n"
    text += "def parentDebounced : Bool := %s\n" % str(apply_tokens and announce_skips).lower()
    text += "/-- the host relays a received link to the other clients whether or not it changed the host's link -/\n"
    text += "def parentRelayAlways : Bool := %s\n" % str(relay_always).lower()
    text += "/-- the handlers apply the link only if it differs, by `set_parent(p)` followed by `add_child` on p -/\n"
    text += "def parentHandlerPair : Bool := %s\n" % str(handler_pair).lower()
    # the send loops drain the whole queue: every popped change is sent (the only `continue` is the serialisation error arm),
    # and the receive loops handle every message they pop (no `break`, no early `return` from the loop)
    drains = True
    for src_, fn_, sender in ((st, "react_on_changed_components", "server.send_message("), (ct, "react_on_changed_components", "client.send_message(")):
        b = ns(fn_body(src_, fn_))
        i0 = b.find("whileletSome(change)=track.changed_components_to_send.pop_front(){")
        drains = drains and i0 >= 0 and "break" not in b and b.count("continue;") == 1 and "return" not in b and sender in b[i0:]
    handles_all = True
    for src_ in (sr, cr):
        b = ns(fn_body(src_, "poll_for_messages"))
        handles_all = handles_all and ("whileletSome(message)=client.receive_message(DefaultChannel::ReliableOrdered){" in b or "whileletSome(message)=server.receive_message(client_id,DefaultChannel::ReliableOrdered){" in b) and "break;" not in b and "break}" not in b
    # how a received value is compared with the one held: `none` -> different; else the negation of reflect_partial_eq
    ivd = ns(fn_body(lib, "is_value_different"))
    cmp_ok = ivd == "ifprevious_value.is_none(){returntrue;}!previous_value.unwrap().reflect_partial_eq(component_data).unwrap_or(true)"
    uses_cmp = "is_value_different(" in ns(apply_body)
    text += "/-- `apply_component_change_from_network` skips a value iff `reflect_partial_eq` says it equals the one held (the model's `same`) -/\n"
    text += "def applyComparesByPartialEq : Bool := %s\n" % str(cmp_ok and uses_cmp).lower()
    text += "/-- both `react_on_changed_components` send every change they pop from the queue -/\n"
    text += "def reactDrainsWholeQueue : Bool := %s\n" % str(drains).lower()
    text += "/-- both `poll_for_messages` handle every message they take from the channel (no `break` in the receive loop) -/\n"
    text += "def recvHandlesEveryMessage : Bool := %s\n" % str(handles_all).lower()
    text += FOOTER
    write("Sync.lean", text)


def gen_guards():
    lib = strip_comments(open(os.path.join(REPO, "src/lib_priv.rs")).read())
    cr = strip_comments(open(os.path.join(REPO, "src/client/receiver.rs")).read())
    sr = strip_comments(open(os.path.join(REPO, "src/server/receiver.rs")).read())
    br = strip_comments(open(os.path.join(REPO, "src/binreflect.rs")).read())

    def unguarded(src):
        """`X.entity(V)` / `X.entity_mut(V)` not preceded, in the same fn, by `get_entity(V)` / `get_entity_mut(V)`"""
        n, sites = 0, []
        # scopes: function bodies, cut again at every `Message::X {..} =>` arm (the arms reuse variable names)
        fns = sorted(set([m.start() for m in re.finditer(r"\bfn\s+\w+", src)] +
                         [m.start() for m in re.finditer(r"Message::\w+\s*(\{[^}]*\})?\s*=>", src)])) + [len(src)]
        for a, b in zip(fns, fns[1:]):
            body = src[a:b]
            for m in re.finditer(r"\.\s*(entity|entity_mut)\(\s*\*?(\w+)\s*\)", body):
                var = m.group(2)
                before = body[: m.start()]
                if not re.search(r"get_entity(_mut)?\(\s*\*?%s\s*\)" % re.escape(var), before):
                    n += 1
                    sites.append(var)
        return n, sites

    apply_body = fn_body(lib, "apply_component_change_from_network")
    g_apply = bool(re.search(r"get_entity\(\s*e_id\s*\)", apply_body)) and unguarded(apply_body)[0] == 0
    # client: the EntityParented arm
    m = re.search(r"Message::EntityParented\s*\{.*?Message::EntityDelete", cr, flags=re.S)
    if not m:
        raise TranslateError("client receiver: EntityParented arm not found")
    g_client = unguarded(m.group(0))[0] == 0 and "get_entity" in m.group(0)
    m = re.search(r"Message::EntityParented\s*\{.*?Message::EntityDelete", sr, flags=re.S)
    if not m:
        raise TranslateError("server receiver: EntityParented arm not found")
    g_server = unguarded(m.group(0))[0] == 0 and "get_entity" in m.group(0)
    b2r = fn_body(br.split("#[cfg(test)]")[0], "bin_to_reflect")
    unwraps = len(re.findall(r"\.unwrap\(\)|\.expect\(", b2r))
    hdr = br[br.index("fn bin_to_reflect"):]
    hdr = hdr[: hdr.index("{")]
    g_decode = unwraps == 0 and "Option<" in hdr
    total = unguarded(apply_body)[0] + unguarded(cr)[0] + unguarded(sr)[0]
    # references inside a payload: the joints of a SkinnedMesh are looked up, unknown ones skipped
    sk = fn_body(lib, "to_skinned_mesh")
    g_joints = (bool(re.search(r"if\s+let\s+Some\(\s*\w+\s*\)\s*=\s*tracker\s*\.\s*uuid_to_entity\s*\.\s*get\(", sk))
                and not re.search(r"uuid_to_entity\s*\[", sk) and not re.search(r"\.unwrap\(\)|\.expect\(", sk))
    text = "/-! GENERATED by /verif/translate/translate.py from src/lib_priv.rs, src/binreflect.rs, src/{client,server}/receiver.rs — do not edit. -/\nnamespace BevySync\nnamespace Generated\n\n"
    text += "def guardApplyLooksUp : Bool := %s\n" % str(g_apply).lower()
    text += "def guardClientParentLooksUp : Bool := %s\n" % str(g_client).lower()
    text += "def guardServerParentLooksUp : Bool := %s\n" % str(g_server).lower()
    text += "def guardDecodeTotal : Bool := %s\n" % str(g_decode).lower()
    text += "/-- `to_skinned_mesh` maps joint uuids through `uuid_to_entity.get` and skips unknown ones (no indexing, no unwrap) -/\n"
    text += "def guardSkinnedJointsLookUp : Bool := %s\n" % str(g_joints).lower()
    text += "/-- `.entity(v)` / `.entity_mut(v)` in the message handlers not dominated by a `get_entity(v)` in the same fn -/\n"
    text += "def unguardedEntityAccesses : Nat := %d\n" % total
    text += "def binToReflectUnwraps : Nat := %d\n" % unwraps
    text += FOOTER
    write("Guards.lean", text)


def gen_fix():
    src = strip_comments(open(os.path.join(REPO, "src/bundle_fix.rs")).read())
    kinds = {"Visibility": "BevySync.Fix.Kind.visibility", "Transform": "BevySync.Fix.Kind.transform",
             "PointLight": "BevySync.Fix.Kind.pointLight", "SpotLight": "BevySync.Fix.Kind.spotLight",
             "DirectionalLight": "BevySync.Fix.Kind.dirLight"}
    comps = {"GlobalTransform": "globalTransform", "InheritedVisibility": "inheritedVisibility", "ViewVisibility": "viewVisibility",
             "CubemapFrusta": "cubemapFrusta", "CubemapVisibleEntities": "cubemapVisibleEntities", "Frustum": "frustum",
             "CascadesFrusta": "cascadesFrusta", "CascadesVisibleEntities": "cascadesVisibleEntities", "Cascades": "cascades",
             "CascadeShadowConfig": "cascadeShadowConfig"}
    # the systems in the order of the add_systems tuple
    m = re.search(r"add_systems\(\s*Update\s*,\s*\(([^)]*)\)", src)
    if not m:
        raise TranslateError("bundle_fix: add_systems tuple not found")
    names = [x.strip() for x in m.group(1).split(",") if x.strip()]
    rows = []
    for n in names:
        mm = re.search(r"fn\s+%s\s*\((.*?)\)\s*\{" % n, src, flags=re.S)
        if not mm:
            raise TranslateError("bundle_fix: fn %s not found" % n)
        sig = mm.group(1)
        added = re.findall(r"Added<(\w+)>", sig)
        without = re.findall(r"Without<(\w+)>", sig)
        body = fn_body(src, n)
        inserts = [c for c in re.findall(r"\.insert\(\s*(\w+)::", body)]
        # every entity the query yields is treated alike: one loop over the query, no condition, no way out of the loop
        if re.search(r"\b(if|match|continue|break|return|while)\b", body) or len(re.findall(r"\bfor\b", body)) != 1:
            raise TranslateError("bundle_fix: %s treats the entities of its query differently (condition or early exit in the body)" % n)
        if len(added) != 1 or added[0] not in kinds or not without or any(w not in comps for w in without) or any(i not in comps for i in inserts):
            raise TranslateError("bundle_fix: %s has an unexpected shape (added=%r without=%r inserts=%r)" % (n, added, without, inserts))
        rows.append((kinds[added[0]], inserts, without))
    def q(x):
        return "Fix.Companion.%s" % comps[x]
    text = "import BevySyncModel.Slice.Fix\n/-! GENERATED by /verif/translate/translate.py from src/bundle_fix.rs — do not edit. -/\nnamespace BevySync\nnamespace Generated\n\n"
    text += "/-- (kind watched by `Added<K>`, companions inserted, companions required absent by `Without<C>`) per system, in registration order -/\n"
    text += "def fixSystems : List Fix.Sys :=\n  [%s]\n" % ",\n   ".join(
        "⟨%s, [%s], [%s]⟩" % (k.replace("BevySync.", ""), ", ".join(q(i) for i in ins), ", ".join(q(w) for w in wo)) for k, ins, wo in rows)
    text += FOOTER
    write("Fix.lean", text)


def gen_filter():
    lib = strip_comments(open(os.path.join(REPO, "src/lib_priv.rs")).read())
    fs = strip_comments(open(os.path.join(REPO, "src/full_sync/mod.rs")).read())
    smod = strip_comments(open(os.path.join(REPO, "src/server/mod.rs")).read())
    cmod = strip_comments(open(os.path.join(REPO, "src/client/mod.rs")).read())
    strack = strip_comments(open(os.path.join(REPO, "src/server/track.rs")).read())
    ctrack = strip_comments(open(os.path.join(REPO, "src/client/track.rs")).read())
    nospace = lambda x: re.sub(r"\s+", "", x)
    # sync_detect / sync_skinned_mesh query filters
    def hdr(name):
        h = lib[lib.index("fn " + name):]
        return nospace(h[: h.index("{")])
    d1, d2 = hdr("sync_detect"), hdr("sync_skinned_mesh")
    detect_ok = all(x in d1 for x in ("With<SyncEntity>", "Without<SyncExclude<T>>", "Changed<T>")) and \
        all(x in d2 for x in ("With<SyncEntity>", "Without<SyncExclude<SkinnedMesh>>", "Changed<SkinnedMesh>"))
    # the detectors are only added inside sync_component
    adds = [m.start() for m in re.finditer(r"add_systems\(\s*Update\s*,\s*sync_(detect|skinned_mesh)", lib)]
    sc = lib.index("fn sync_component")
    sc_end = lib.index("fn sync_materials")
    via = len(adds) == 2 and all(sc < a < sc_end for a in adds) and "registered_componets_for_sync.insert(c_id)" in nospace(lib[sc:sc_end])
    # reaction systems gated by their switch, in both plugins
    gates = {"react_on_changed_materials": "sync_material_enabled", "react_on_changed_images": "sync_material_enabled",
             "react_on_changed_meshes": "sync_mesh_enabled", "react_on_changed_audios": "sync_audio_enabled"}
    gated = all(("%s.run_if(%s)" % (k, v)) in nospace(m) for m in (smod, cmod) for k, v in gates.items())
    # … and none of them is added ungated elsewhere
    gated = gated and all(len(re.findall(r"\b%s\b(?!\s*\.run_if)" % k, re.sub(r"use[^;]*;", "", m))) == 0 for m in (smod, cmod) for k in gates)
    # every reaction fn skips non-uuid ids
    skips = True
    for src in (strack, ctrack):
        for k in gates:
            body = nospace(fn_body(src, k))
            if "letAssetId::Uuid{uuid:id}=idelse{continue;}" not in body:
                skips = False
    # snapshot
    cec = nospace(fn_body(fs, "check_entity_components"))
    snap_reg = "track.registered_componets_for_sync.contains(&c_id)" in cec
    snap_excl = "ifarch.contains(*c_exclude_id){continue;}" in cec and "sync_exclude_cid_of_component_cid" in cec
    snap_gate = all(("iftrack.%s{" % sw) in nospace(fn_body(fs, fn)) for fn, sw in
                    (("check_materials", "sync_materials"), ("check_images", "sync_materials"), ("check_meshes", "sync_meshes"), ("check_audios", "sync_audios")))
    snap_uuid = all("letAssetId::Uuid{uuid:id}=idelse{continue;}" in nospace(fn_body(fs, fn))
                    for fn in ("check_materials", "check_images", "check_meshes", "check_audios"))
    created = all("Query<Entity,Added<SyncMark>>" in nospace(src[src.index("fn entity_created_on_"):].split("{")[0]) for src in (strack, ctrack))
    text = "/-! GENERATED by /verif/translate/translate.py from src/lib_priv.rs, src/full_sync/mod.rs, src/{server,client}/{mod,track}.rs — do not edit. -/\nnamespace BevySync\nnamespace Generated\n\n"
    for name, val in (("detectFilterComplete", detect_ok), ("detectOnlyViaSyncComponent", via), ("reactGatedBySwitch", gated),
                      ("reactSkipsIndexIds", skips), ("snapshotChecksRegistration", snap_reg), ("snapshotChecksExclusion", snap_excl),
                      ("snapshotGatedBySwitch", snap_gate), ("snapshotSkipsIndexIds", snap_uuid), ("createdOnlyOnSyncMark", created)):
        text += "def %s : Bool := %s\n" % (name, str(bool(val)).lower())
    text += FOOTER
    write("Filter.lean", text)


def gen_conn():
    smod = re.sub(r"\s+", "", strip_comments(open(os.path.join(REPO, "src/server/mod.rs")).read()))
    cmod = re.sub(r"\s+", "", strip_comments(open(os.path.join(REPO, "src/client/mod.rs")).read()))
    crecv = re.sub(r"\s+", "", strip_comments(open(os.path.join(REPO, "src/client/receiver.rs")).read()))
    sinit = re.sub(r"\s+", "", strip_comments(open(os.path.join(REPO, "src/server/initial_sync.rs")).read()))
    server_conds = (
        "server_connected.run_if(resource_exists::<RenetServer>).run_if(in_state(ServerState::Disconnected)).run_if(resource_added::<NetcodeServerTransport>)" in smod
        and "server_disconnected.run_if(resource_exists::<RenetServer>).run_if(in_state(ServerState::Connected)).run_if(resource_removed::<NetcodeServerTransport>())" in smod)
    if "set_client_to_connecting.run_if(resource_exists::<RenetClient>).run_if(resource_added::<NetcodeClientTransport>).run_if(in_state(ClientState::Disconnected))" in cmod:
        strict = True
    elif "set_client_to_connecting.run_if(resource_exists::<RenetClient>).run_if(resource_added::<NetcodeClientTransport>)," in cmod:
        strict = False
    else:
        raise TranslateError("set_client_to_connecting: run conditions not recognised")
    client_conds = "verify_client_connected.run_if(resource_exists::<RenetClient>).run_if(resource_exists::<NetcodeClientTransport>).run_if(in_state(ClientState::Connecting))" in cmod
    if "set_client_to_disconnected.run_if(resource_exists::<RenetClient>).run_if(resource_removed::<NetcodeClientTransport>()).run_if(in_state(ClientState::Connected))" in cmod:
        legacy = True
    elif "set_client_to_disconnected.run_if(resource_exists::<RenetClient>).run_if(resource_removed::<NetcodeClientTransport>()).run_if(not(in_state(ClientState::Disconnected)))" in cmod:
        legacy = False
    else:
        raise TranslateError("set_client_to_disconnected: run conditions not recognised")
    # replication chains gated by the Connected states
    gates = (smod.count(".chain().run_if(resource_exists::<RenetServer>).run_if(resource_exists::<NetcodeServerTransport>).run_if(in_state(ServerState::Connected))") == 2
             and cmod.count(".chain().run_if(resource_exists::<RenetClient>).run_if(resource_exists::<NetcodeClientTransport>).run_if(in_state(ClientState::Connected))") == 1)
    verify_checks = "if!client.is_connected(){return;}" in cmod and "client_state.set(ClientState::Connected)" in cmod
    events = ("event.send(InitialSyncFinished)" in smod and smod.count("InitialSyncFinished)") >= 1
              and "Message::FinishedInitialSync=>{event_sync_finished.send(InitialSyncFinished);}" in crecv
              and sinit.count("Message::FinishedInitialSync") == 1)
    text = "/-! GENERATED by /verif/translate/translate.py from src/{server,client}/mod.rs, src/client/receiver.rs, src/server/initial_sync.rs — do not edit. -/\nnamespace BevySync\nnamespace Generated\n\n"
    for name, val in (("connServerConditions", server_conds), ("connClientConditions", client_conds), ("connClientDisconnectLegacy", legacy), ("connConnectingOnlyFromDisconnected", strict),
                      ("connReplicationGated", gates), ("connVerifyChecksTransport", verify_checks), ("connSyncFinishedSites", events)):
        text += "def %s : Bool := %s\n" % (name, str(bool(val)).lower())
    text += FOOTER
    write("Conn.lean", text)


def gen_ent():
    """shape of the entity-life handlers the Ent slice models (both receiver.rs): the delete handler despawns the named
    entity only (no recursion) and forgets both map entries; the client's spawn handler has the duplicate guard; the host
    relays both immediately to everybody but the sender"""
    def squash(path):
        return re.sub(r"\s+", "", strip_comments(open(os.path.join(REPO, path)).read()))
    srecv, crecv = squash("src/server/receiver.rs"), squash("src/client/receiver.rs")
    c_del = "Message::EntityDelete{id}=>{letSome(&e_id)=track.uuid_to_entity.get(&id)else{return;};letSome(mute)=cmd.get_entity(e_id)else{return;};track.uuid_to_entity.remove(&id);track.entity_to_uuid.remove(&e_id);e.despawn();}" in crecv
    s_del = "Message::EntityDelete{id:mid}=>{ifletSome(id)=track.uuid_to_entity.get(&mid){letid=*id;ifletSome(mute)=cmd.get_entity(id){e.despawn();track.uuid_to_entity.remove(&mid);track.entity_to_uuid.remove(&id);}}repeat_except_for_client(client_id,server,&Message::EntityDelete{id:mid});}" in srecv
    c_spawn = "Message::EntitySpawn{id}=>{ifletSome(e_id)=track.uuid_to_entity.get(&id){ifcmd.get_entity(*e_id).is_some(){return;}}lete_id=cmd.spawn(SyncEntity{uuid:id}).id();track.uuid_to_entity.insert(id,e_id);track.entity_to_uuid.insert(e_id,id);}" in crecv
    s_spawn = "Message::EntitySpawn{id}=>{lete_id=cmd.spawn(SyncEntity{uuid:id}).id();track.uuid_to_entity.insert(id,e_id);track.entity_to_uuid.insert(e_id,id);repeat_except_for_client(client_id,server,&Message::EntitySpawn{id});}" in srecv
    sb = re.sub(r"\s+", "", fn_body(strip_comments(open(os.path.join(REPO, "src/server/track.rs")).read()), "entity_removed_from_server"))
    cb = re.sub(r"\s+", "", fn_body(strip_comments(open(os.path.join(REPO, "src/client/track.rs")).read()), "entity_removed_from_client"))
    removed = ("track.entity_to_uuid.retain(|&e_id,&mutuuid|{ifquery.get(e_id).is_err(){despawned_entities.insert(uuid);false}else{true}});" in sb
               and "track.uuid_to_entity.remove(uuid);" in sb and "Message::EntityDelete{id:*uuid}" in sb
               and "track.uuid_to_entity.retain(|&s_e_id,&mute_id|{ifquery.get(e_id).is_err(){despawned_entities.insert(s_e_id);false}else{true}});" in cb
               and "Message::EntityDelete{id}" in cb)
    text = "/-! GENERATED by /verif/translate/translate.py from src/{server,client}/{receiver,track}.rs — do not edit. -/\nnamespace BevySync\nnamespace Generated\n\n"
    # the uuid maps only ever lose the entry of an entity that is gone: the two delete handlers and the two removal detectors are
    # the only places that shrink them, nothing clears or replaces them (a peer that joins again keeps what it knows, which is
    # what the duplicate-spawn guard relies on)
    shrinks = 0
    wholesale = False
    for root, _, files in os.walk(os.path.join(REPO, "src")):
        for fnm in files:
            if not fnm.endswith(".rs") or fnm == "verif.rs":
                continue
            t = re.sub(r"\s+", "", strip_comments(open(os.path.join(root, fnm)).read()))
            for m in ("uuid_to_entity", "entity_to_uuid"):
                shrinks += len(re.findall(r"%s\.(remove|retain)\(" % m, t))
                if re.search(r"%s\.(clear|drain|split_off|truncate)\(|%s=|mem::(take|replace|swap)\([^)]*%s" % (m, m, m), t):
                    wholesale = True
    maps_kept = shrinks == 7 and not wholesale
    for name, val in (("entDeleteHandlersNamedEntityOnly", c_del and s_del), ("entSpawnHandlers", c_spawn and s_spawn), ("entRemovedDetectors", removed),
                      ("entMapsShrinkOnlyOnRemoval", maps_kept)):
        text += "def %s : Bool := %s\n" % (name, str(bool(val)).lower())
    text += FOOTER
    write("Ent.lean", text)


def gen_promo():
    """the hand-over (src/server/{mod,receiver}.rs, src/client/{mod,receiver}.rs)"""
    def sq(src):
        return re.sub(r"\s+", "", src)
    smod_src = strip_comments(open(os.path.join(REPO, "src/server/mod.rs")).read())
    cmod_src = strip_comments(open(os.path.join(REPO, "src/client/mod.rs")).read())
    smod, srecv = sq(smod_src), sq(strip_comments(open(os.path.join(REPO, "src/server/receiver.rs")).read()))
    crecv = sq(strip_comments(open(os.path.join(REPO, "src/client/receiver.rs")).read()))
    request = "server.send_message(event.id,DefaultChannel::ReliableOrdered,bincode::serialize(&Message::PromoteToHost{}).unwrap(),);" in sq(fn_body(smod_src, "promote_to_host_event_reader"))
    starts = "cmd.add(move|world:&mutWorld|{world.insert_resource(create_server(ip,port));world.resource_mut::<SyncTrackerRes>().host_promotion_in_progress=true;});" in crecv.replace('info!("Promotion:Startingashost...");', "")
    announces = ("OnEnter(ServerState::Connected),server_promoted_is_ready.run_if(resource_exists::<NetcodeClientTransport>)," in smod
                 and "client.send_message(DefaultChannel::ReliableOrdered,message);" in sq(fn_body(smod_src, "server_promoted_is_ready"))
                 and "Message::NewHost{params:connection_parameters.clone(),}" in sq(fn_body(smod_src, "server_promoted_is_ready")))
    srecv_n = re.sub(r'info!\("[^"]*"\);', "", srecv)
    host_handler = ("server.disconnect(client_id);repeat_except_for_client(client_id,server,&Message::NewHost{params});cmd.add(move|world:&mutWorld|{world.resource_mut::<SyncTrackerRes>().host_promotion_in_progress=true;"
                    "world.insert_resource(bevy_renet::renet::RenetClient::new(bevy_renet::renet::ConnectionConfig::default()));world.insert_resource(create_client(ip,port));});") in srecv_n
    crecv_n = re.sub(r'info!\("[^"]*"\);', "", crecv)
    client_handler = ("client.disconnect();cmd.remove_resource::<NetcodeClientTransport>();cmd.insert_resource(RenetClient::new(bevy_renet::renet::ConnectionConfig::default()));"
                      "cmd.insert_resource(create_client(ip,port));track.host_promotion_in_progress=true;") in crecv_n
    cc = re.sub(r'info!\((?:[^()]|\([^()]*\))*\);', "", sq(fn_body(smod_src, "client_connected")))
    closes = "ifserver.connected_clients()==0&&tracker.host_promotion_in_progress{server.disconnect_all();cmd.remove_resource::<NetcodeServerTransport>();tracker.host_promotion_in_progress=false;}" in cc
    drops = "iftracker.host_promotion_in_progress{cmd.remove_resource::<NetcodeClientTransport>();tracker.host_promotion_in_progress=false;}" in cc
    first = "(client_connected,receiver::poll_for_messages).chain()" in smod
    vb = re.sub(r'info!\("[^"]*"\);', "", sq(fn_body(cmod_src, "verify_client_connected")))
    verify = ("if!tracker.host_promotion_in_progress{cmd.add(|world:&mutWorld|{" in vb and "bincode::serialize(&Message::RequestInitialSync{}).unwrap()," in vb
              and "}else{tracker.host_promotion_in_progress=false;}" in vb)
    text = "/-! GENERATED by /verif/translate/translate.py from src/server/{mod,receiver}.rs, src/client/{mod,receiver}.rs — do not edit. -/\nnamespace BevySync\nnamespace Generated\n\n"
    for name, val in (("promoRequestSent", request), ("promoPromotedStartsServer", starts), ("promoPromotedAnnounces", announces),
                      ("promoHostHandler", host_handler), ("promoClientHandler", client_handler), ("promoHostClosesWhenEmpty", closes),
                      ("promoPromotedDropsClient", drops), ("promoEventsBeforeMessages", first), ("promoVerifySkipsSnapshotOnFlag", verify)):
        text += "def %s : Bool := %s\n" % (name, str(bool(val)).lower())
    text += FOOTER
    write("Promo.lean", text)


def gen_snap():
    """the joining snapshot (src/server/{receiver,initial_sync}.rs, src/full_sync/mod.rs, src/client/receiver.rs)"""
    def squash_src(src):
        return re.sub(r"\s+", "", src)
    srecv = squash_src(strip_comments(open(os.path.join(REPO, "src/server/receiver.rs")).read()))
    crecv = squash_src(strip_comments(open(os.path.join(REPO, "src/client/receiver.rs")).read()))
    init_src = strip_comments(open(os.path.join(REPO, "src/server/initial_sync.rs")).read())
    full_src = strip_comments(open(os.path.join(REPO, "src/full_sync/mod.rs")).read())
    queued = "Message::RequestInitialSync=>{" in srecv and "cmd.add(move|world:&mutWorld|send_initial_sync(client_id,world));" in srecv
    sb = squash_src(fn_body(init_src, "send_initial_sync"))
    i1 = sb.find("build_full_sync(world)")
    i2 = sb.find("formsgininitial_sync.drain(..)")
    i3 = sb.find("server.send_message(client_id,DefaultChannel::ReliableOrdered,msg_bin);")
    i4 = sb.find("bincode::serialize(&Message::FinishedInitialSync)")
    ordered = 0 <= i1 < i2 < i3 < i4 and sb.count("DefaultChannel::ReliableOrdered") == 2
    bb = squash_src(fn_body(full_src, "build_full_sync"))
    calls = ["check_entity_components(world,&mutresult)?;", "check_parents(world,&mutresult)?;", "check_images(world,&mutresult)?;",
             "check_materials(world,&mutresult)?;", "check_meshes(world,&mutresult)?;", "check_audios(world,&mutresult)?;"]
    pos = [bb.find(c) for c in calls]
    build_order = all(p >= 0 for p in pos) and pos == sorted(pos)
    # every EntitySpawn is moved in front of every component before anything else is appended (repair of D21)
    k = bb.find("result.sort_by_key(|msg|!matches!(msg,Message::EntitySpawn{..}));")
    entities_first = build_order and pos[0] < k < pos[1] and bb.count("result.sort") == 1 and "result.reverse" not in bb and "result.swap" not in bb
    cb = squash_src(fn_body(full_src, "check_entity_components"))
    j1 = cb.find("ifletSome(sid)=track.entity_to_uuid.get(&e_id){if!entity_ids_sent.contains(&e_id){result.push(Message::EntitySpawn{id:*sid});")
    j2 = cb.find("ifletSome(sid)=track.entity_to_uuid.get(&e_id){result.push(Message::ComponentUpdated{")
    spawn_first = (0 <= j1 < j2 and ".filter(|&c_id|track.registered_componets_for_sync.contains(&c_id))" in cb
                   and "ifarch.contains(*c_exclude_id){continue;}" in cb and ".filter(|arch|arch.contains(sync_down_id))" in cb)
    pb = squash_src(fn_body(full_src, "check_parents"))
    parents = "ifletSome(sid)=track.entity_to_uuid.get(&e_id){ifletSome(pid)=track.entity_to_uuid.get(&parent.get()){result.push(Message::EntityParented{entity_id:*sid,parent_id:*pid,});}}" in pb
    ignores = "Message::ComponentUpdated{id,name,data}=>{letSome(&e_id)=track.uuid_to_entity.get(&id)else{return;};cmd.add(move|world:&mutWorld|{SyncTrackerRes::apply_component_change_from_network(world,e_id,name,&data);});}" in crecv
    classes = True
    for fn, sw in (("check_materials", "track.sync_materials"), ("check_images", "track.sync_materials"), ("check_meshes", "track.sync_meshes"), ("check_audios", "track.sync_audios")):
        b = squash_src(fn_body(full_src, fn))
        classes = classes and ("if" + sw + "{") in b and "AssetId::Uuid{uuid:id}=idelse{continue;}" in b.replace("let", "")
    text = "/-! GENERATED by /verif/translate/translate.py from src/server/{receiver,initial_sync}.rs, src/full_sync/mod.rs, src/client/receiver.rs — do not edit. -/\nnamespace BevySync\nnamespace Generated\n\n"
    for name, val in (("snapRequestQueuesClosure", queued), ("snapSentInOrderThenFinished", ordered), ("snapBuildOrder", build_order),
                      ("snapSpawnBeforeComponents", spawn_first), ("snapEntitiesFirst", entities_first), ("snapParentsOfKnownPairs", parents), ("snapClientIgnoresUnknownEntity", ignores),
                      ("snapAssetClassesGated", classes)):
        text += "def %s : Bool := %s\n" % (name, str(bool(val)).lower())
    text += FOOTER
    write("Snap.lean", text)


def gen_asset():
    """facts of the uuid-asset path the Asset slice relies on (src/lib_priv.rs, networking/assets/mod.rs,
    {server,client}/{track,receiver}.rs)"""
    def squash(path):
        return re.sub(r"\s+", "", strip_comments(open(os.path.join(REPO, path)).read()))
    priv = squash("src/lib_priv.rs")
    amod_src = strip_comments(open(os.path.join(REPO, "src/networking/assets/mod.rs")).read())
    amod = re.sub(r"\s+", "", amod_src)
    if "pushed_handles_from_network:HashMap<AssId,usize>" in priv:
        skip = re.sub(r"\s+", "", fn_body(strip_comments(open(os.path.join(REPO, "src/lib_priv.rs")).read()), "skip_network_handle_change"))
        filed = re.sub(r"\s+", "", fn_body(strip_comments(open(os.path.join(REPO, "src/lib_priv.rs")).read()), "handle_pushed_from_network"))
        counted = ("*pending-=1;" in skip and "if*pending==0{self.pushed_handles_from_network.remove(&id);}" in skip and "returntrue;" in skip
                   and "*self.pushed_handles_from_network.entry(id).or_insert(0)+=1;" in filed)
        if not counted:
            raise TranslateError("pushed_handles_from_network is a map but its counting is not recognised")
    elif "pushed_handles_from_network:HashSet<AssId>" in priv:
        counted = False
    else:
        raise TranslateError("pushed_handles_from_network: type not recognised")
    # request(): anything that returns before the download is queued
    req = re.sub(r"\s+", "", fn_body(amod_src, "request"))
    pre = req.split("self.download_pool.execute")[0]
    if "self.download_pool.execute" not in req:
        raise TranslateError("request(): download_pool.execute not found")
    skips_served = "return;" in pre
    if skips_served and "meshes.contains_key(&id)" not in pre:
        raise TranslateError("request(): unrecognised early return")
    # the worker stores what it fetched into the slot of the uuid
    worker = all(("%s_to_apply.write()" % c) in req for c in ("meshes", "images", "audios")) and req.count("map.insert(id,bytes);") == 3 \
        and "ureq::get(url.as_str()).call()" in req
    # newest request wins: the sequence number drawn by request() is compared after the whole body has been read and
    # before anything is stored (the read guard of `latest_request` is held while the slot is written)
    k_body = req.find(".read_to_end(&mutbytes)")
    k_chk = req.find("iflatest.get(&id)!=Some(&seq){")
    k_store = req.find("map.insert(id,bytes);")
    newest = ("letlatest=latest_request.read()" in req
              and 0 <= k_body < k_chk < k_store and req.count("latest.get(&id)") == 1
              and "*n+=1;" in req)
    # process_*: slot drained, one token filed, asset inserted
    proc = True
    for c in ("mesh", "image", "audio"):
        b = re.sub(r"\s+", "", fn_body(amod_src, "process_%s_assets" % c))
        filed_here = ("sync_tracker.handle_pushed_from_network(id);" in b) or ("sync_tracker.pushed_handles_from_network.insert(id);" in b)
        # ... unconditionally: no test of a switch (or of anything else) in front of the filing
        first_if = b.find("if", b.find("map.drain()"))
        filing = max(b.find("sync_tracker.handle_pushed_from_network(id);"), b.find("sync_tracker.pushed_handles_from_network.insert(id);"))
        unconditional = filed_here and (first_if < 0 or filing < first_if)
        proc = proc and "map.drain()" in b and unconditional and ".insert(" in b and ".take(" not in b and "break" not in b
    # react_on_changed_<class>: debounce, serve, announce
    react = True
    for side, sender in (("server", "server.send_message(cid,"), ("client", "client.send_message(")):
        tsrc = strip_comments(open(os.path.join(REPO, "src/%s/track.rs" % side)).read())
        for fn, serve, msg in (("react_on_changed_meshes", "serve_mesh(id,", "Message::MeshUpdated{"),
                               ("react_on_changed_images", "serve_image(id,", "Message::ImageUpdated{"),
                               ("react_on_changed_audios", "serve_audio(id,", "Message::AudioUpdated{")):
            b = re.sub(r"\s+", "", fn_body(tsrc, fn))
            i1 = b.find("iftrack.skip_network_handle_change(*id){continue;}")
            i2 = b.find(serve)
            i3 = b.find(msg)
            react = react and "AssetEvent::Added{id}|AssetEvent::Modified{id}" in b and 0 <= i1 < i2 < i3 and sender in b
    srecv = squash("src/server/receiver.rs")
    crecv = squash("src/client/receiver.rs")
    relay = True
    for c, t in (("Mesh", "Mesh"), ("Image", "Image"), ("Audio", "Audio")):
        relay = relay and ("Message::%sUpdated{id,url}=>{sync_assets.request(SyncAssetType::%s,id,url.clone());cmd.add(move|world:&mutWorld|{repeat_except_for_client(client_id,&mutworld.resource_mut::<RenetServer>(),&Message::%sUpdated{id,url},);})}" % (c, t, c)) in srecv
        relay = relay and ("Message::%sUpdated{id,url}=>sync_assets.request(SyncAssetType::%s,id,url)," % (c, t)) in crecv
    # materials travel inline
    mat = True
    for side, sender in (("server", "server.send_message(cid,"), ("client", "client.send_message(")):
        tsrc = strip_comments(open(os.path.join(REPO, "src/%s/track.rs" % side)).read())
        b = re.sub(r"\s+", "", fn_body(tsrc, "react_on_changed_materials"))
        i1 = b.find("iftrack.skip_network_handle_change(*id){continue;}")
        i2 = b.find("reflect_to_bin(material.as_reflect(),&registry)")
        i3 = b.find("Message::StandardMaterialUpdated{")
        mat = mat and "AssetEvent::Added{id}|AssetEvent::Modified{id}" in b and 0 <= i1 < i2 < i3 and sender in b
    mat = mat and "Message::StandardMaterialUpdated{id,material}=>cmd.add(move|world:&mutWorld|{SyncTrackerRes::apply_material_change_from_network(id,&material,world);repeat_except_for_client(client_id,&mutworld.resource_mut::<RenetServer>(),&Message::StandardMaterialUpdated{id,material},);})," in srecv
    mat = mat and "Message::StandardMaterialUpdated{id,material}=>cmd.add(move|world:&mutWorld|{SyncTrackerRes::apply_material_change_from_network(id,&material,world);})," in crecv
    ab = re.sub(r"\s+", "", fn_body(strip_comments(open(os.path.join(REPO, "src/lib_priv.rs")).read()), "apply_material_change_from_network"))
    j1 = max(ab.find(".handle_pushed_from_network(id);"), ab.find(".pushed_handles_from_network.insert(id);"))
    j2 = ab.find("materials.insert(id,*mat);")
    mat = mat and 0 <= j1 < j2
    text = "/-! GENERATED by /verif/translate/translate.py from src/lib_priv.rs, src/networking/assets/mod.rs, src/{server,client}/{track,receiver}.rs — do not edit. -/\nnamespace BevySync\nnamespace Generated\n\n"
    for name, val in (("assetTokensCounted", counted), ("assetMaterialInlinePath", mat), ("assetRequestSkipsServed", skips_served), ("assetWorkerStoresIntoSlot", worker), ("assetNewestRequestWins", newest),
                      ("assetProcessFilesToken", proc), ("assetReactDebounceServeAnnounce", react), ("assetReceiversRequestAndRelay", relay)):
        text += "def %s : Bool := %s\n" % (name, str(bool(val)).lower())
    text += FOOTER
    write("Asset.lean", text)


def main():
    try:
        gen_promo()
        gen_snap()
        gen_ent()
        gen_asset()
        gen_conn()
        gen_filter()
        gen_fix()
        gen_guards()
        gen_sync()
        gen_struct("src/networking/assets/mesh_serde.rs", "MeshData", "meshData", "MeshData.lean")
        gen_struct("src/networking/assets/image_serde.rs", "ImageData", "imageData", "ImageData.lean")
        gen_struct("src/lib_priv.rs", "SkinnedMeshSyncMapper", "skinMapper", "SkinMapper.lean")
        gen_proto()
        gen_texture_formats()
        gen_http()
    except TranslateError as e:
        print("TRANSLATE-ERROR: %s" % e)
        sys.exit(2)
    print("translate: ok")


if __name__ == "__main__":
    main()
