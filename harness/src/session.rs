//! Real sessions: one host `App` and N client `App`s built exactly like `tests/setup` (MinimalPlugins,
//! StatesPlugin, AssetPlugin, PbrPlugin, SyncPlugin, Server/ClientPlugin over real UDP on
//! localhost), with the `Update` schedule forced to the single-threaded executor so that the run
//! order is the dumped topological order.  A scripted list of application operations and per-peer
//! `update()` calls is executed and a JSON-lines trace is written (DESIGN.md appendix B).
use std::collections::{BTreeMap, HashMap};
use std::net::{IpAddr, Ipv4Addr, Ipv6Addr, TcpListener, UdpSocket};

use bevy::{
    ecs::schedule::ExecutorKind,
    pbr::PbrPlugin,
    prelude::*,
    render::mesh::skinning::{SkinnedMesh, SkinnedMeshInverseBindposes},
    state::app::StatesPlugin,
    MinimalPlugins,
};
use bevy_renet::renet::{
    transport::{NetcodeClientTransport, NetcodeServerTransport},
    RenetClient, RenetServer,
};
use bevy_sync::{
    verif, ClientPlugin, ClientState, InitialSyncFinished, PromoteToHostEvent, ServerPlugin, ServerState,
    SyncComponent, SyncConnectionParameters, SyncEntity, SyncExclude, SyncMark, SyncPlugin,
};
use serde_json::{json, Value};
use uuid::Uuid;

use crate::hex;

// ------------------------------------------------------------------ component family

#[derive(Component, Reflect, Default, PartialEq, Debug, Clone)]
#[reflect(Component)]
pub struct CompA {
    pub value: i32,
}

#[derive(Component, Reflect, Default, PartialEq, Debug, Clone)]
#[reflect(Component)]
pub struct CompB(pub u32, pub f32);

#[derive(Component, Reflect, Default, PartialEq, Debug, Clone)]
#[reflect(Component)]
pub enum CompE {
    #[default]
    Off,
    On(u8),
    Named {
        level: i16,
        tag: String,
    },
}

#[derive(Component, Reflect, Default, PartialEq, Debug, Clone)]
#[reflect(Component)]
pub struct CompV {
    pub items: Vec<u8>,
}

/// never registered for sync
#[derive(Component, Reflect, Default, PartialEq, Debug, Clone)]
#[reflect(Component)]
pub struct CompU {
    pub secret: u32,
}

/// the component types a script can name
#[derive(Clone, Copy, Debug, PartialEq, Eq, PartialOrd, Ord, Hash)]
pub enum Ty {
    A,
    B,
    E,
    V,
    U,
    Transform,
    Name,
    Visibility,
    PointLight,
    SpotLight,
    DirLight,
    HMesh,
    HMat,
    Skinned,
}

pub const ALL_TYS: [Ty; 14] = [
    Ty::A, Ty::B, Ty::E, Ty::V, Ty::U, Ty::Transform, Ty::Name, Ty::Visibility, Ty::PointLight, Ty::SpotLight,
    Ty::DirLight, Ty::HMesh, Ty::HMat, Ty::Skinned,
];

impl Ty {
    pub fn name(self) -> &'static str {
        match self {
            Ty::A => "A",
            Ty::B => "B",
            Ty::E => "E",
            Ty::V => "V",
            Ty::U => "U",
            Ty::Transform => "Transform",
            Ty::Name => "Name",
            Ty::Visibility => "Visibility",
            Ty::PointLight => "PointLight",
            Ty::SpotLight => "SpotLight",
            Ty::DirLight => "DirLight",
            Ty::HMesh => "HMesh",
            Ty::HMat => "HMat",
            Ty::Skinned => "Skinned",
        }
    }
    pub fn type_path(self) -> String {
        use bevy::reflect::TypePath;
        match self {
            Ty::A => CompA::type_path().into(),
            Ty::B => CompB::type_path().into(),
            Ty::E => CompE::type_path().into(),
            Ty::V => CompV::type_path().into(),
            Ty::U => CompU::type_path().into(),
            Ty::Transform => Transform::type_path().into(),
            Ty::Name => Name::type_path().into(),
            Ty::Visibility => Visibility::type_path().into(),
            Ty::PointLight => PointLight::type_path().into(),
            Ty::SpotLight => SpotLight::type_path().into(),
            Ty::DirLight => DirectionalLight::type_path().into(),
            Ty::HMesh => Handle::<Mesh>::type_path().into(),
            Ty::HMat => Handle::<StandardMaterial>::type_path().into(),
            Ty::Skinned => SkinnedMesh::type_path().into(),
        }
    }
}

/// a value of one of the types, built from a small integer "payload" `n` (and a list for V / Skinned)
#[derive(Clone, Debug, PartialEq)]
pub struct CVal {
    pub ty: Ty,
    pub n: i64,
    pub list: Vec<u64>,
}

impl CVal {
    pub fn new(ty: Ty, n: i64) -> Self {
        CVal { ty, n, list: vec![] }
    }
    pub fn json(&self) -> Value {
        json!({"ty": self.ty.name(), "n": self.n, "list": self.list})
    }
}

pub fn uuid_of_n(n: u64) -> Uuid {
    Uuid::from_u128(0xA55E7000_0000_4000_8000_000000000000u128 | n as u128)
}

fn insert_cval(world: &mut World, e: Entity, v: &CVal, joints: &[Entity]) {
    let n = v.n;
    let mut em = world.entity_mut(e);
    match v.ty {
        Ty::A => {
            em.insert(CompA { value: n as i32 });
        }
        Ty::B => {
            // ordinary values are never NaN (bit 23 cleared: the exponent cannot be all ones); n >= 1_000_000 asks for a NaN
            // (a value that is not equal to itself under reflect_partial_eq)
            let f = if n >= 1_000_000 { f32::from_bits(0x7FC0_0000 | (n as u32 & 0xFFFF)) } else { f32::from_bits((n as u32).wrapping_mul(2654435761) & !(1 << 23)) };
            em.insert(CompB(n as u32, f));
        }
        Ty::E => {
            em.insert(match n.rem_euclid(3) {
                0 => CompE::Off,
                1 => CompE::On(n as u8),
                _ => CompE::Named { level: n as i16, tag: format!("t{}", n) },
            });
        }
        Ty::V => {
            em.insert(CompV { items: v.list.iter().map(|x| *x as u8).collect() });
        }
        Ty::U => {
            em.insert(CompU { secret: n as u32 });
        }
        Ty::Transform => {
            // now and then a value that is not finite (an object parked at infinity); infinities compare equal to themselves
            let x = match n.rem_euclid(7) { 3 => f32::INFINITY, 5 => f32::NEG_INFINITY, _ => n as f32 };
            em.insert(Transform::from_xyz(x, (n * 2) as f32, -(n as f32)));
        }
        Ty::Name => {
            em.insert(Name::new(format!("name-{}", n)));
        }
        Ty::Visibility => {
            em.insert(match n.rem_euclid(3) {
                0 => Visibility::Inherited,
                1 => Visibility::Hidden,
                _ => Visibility::Visible,
            });
        }
        Ty::PointLight => {
            em.insert(PointLight { intensity: n as f32, ..Default::default() });
        }
        Ty::SpotLight => {
            em.insert(SpotLight { intensity: n as f32, ..Default::default() });
        }
        Ty::DirLight => {
            em.insert(DirectionalLight { illuminance: n as f32, ..Default::default() });
        }
        Ty::HMesh => {
            em.insert(Handle::<Mesh>::Weak(AssetId::Uuid { uuid: uuid_of_n(n as u64) }));
        }
        Ty::HMat => {
            em.insert(Handle::<StandardMaterial>::Weak(AssetId::Uuid { uuid: uuid_of_n(n as u64) }));
        }
        Ty::Skinned => {
            drop(em);
            // the number of matrices is independent of the number of joints (more, fewer, equal)
            let np = match (n / 100) % 4 {
                0 => joints.len(),
                1 => joints.len() + 2,
                2 => joints.len().saturating_sub(1),
                _ => joints.len() + 5,
            };
            let poses: Vec<Mat4> = (0..np)
                .map(|i| Mat4::from_cols_array(&std::array::from_fn(|k| (n as f32) + (i * 16 + k) as f32)))
                .collect();
            let handle = world.resource_mut::<Assets<SkinnedMeshInverseBindposes>>().add(SkinnedMeshInverseBindposes::from(poses));
            world.entity_mut(e).insert(SkinnedMesh { inverse_bindposes: handle, joints: joints.to_vec() });
        }
    }
}

// ------------------------------------------------------------------ apps

pub fn free_udp_port(ip: IpAddr) -> u16 {
    UdpSocket::bind((ip, 0)).unwrap().local_addr().unwrap().port()
}
pub fn free_tcp_port(ip: IpAddr) -> u16 {
    TcpListener::bind((ip, 0)).unwrap().local_addr().unwrap().port()
}

#[derive(Resource, Default)]
pub struct DespawnQueue(pub Vec<Entity>);

/// an application system that despawns through `Commands` inside the frame (C08)
fn app_despawn_system(mut q: ResMut<DespawnQueue>, mut cmd: Commands) {
    for e in q.0.drain(..) {
        if let Some(mut ec) = cmd.get_entity(e) {
            ec.despawn();
        }
    }
}

/// keeps index-id assets alive
#[derive(Resource, Default)]
pub struct KeepHandles(pub Vec<UntypedHandle>);

#[derive(Clone, Copy, Debug, PartialEq, Eq)]
pub enum AKind {
    Mesh,
    Image,
    Audio,
    Material,
}
impl AKind {
    pub fn name(self) -> &'static str {
        match self {
            AKind::Mesh => "mesh",
            AKind::Image => "image",
            AKind::Audio => "audio",
            AKind::Material => "material",
        }
    }
}

#[derive(Resource, Default)]
pub struct SyncFinishedCount(pub u32);
fn count_sync_finished(mut ev: EventReader<InitialSyncFinished>, mut c: ResMut<SyncFinishedCount>) {
    for _ in ev.read() {
        c.0 += 1;
    }
}

pub struct PeerCfg {
    pub registered: Vec<Ty>,
    pub materials: bool,
    pub meshes: bool,
    pub audios: bool,
}

impl Default for PeerCfg {
    fn default() -> Self {
        PeerCfg {
            registered: vec![Ty::A, Ty::B, Ty::E, Ty::V, Ty::Transform, Ty::Name, Ty::Visibility],
            materials: false,
            meshes: false,
            audios: false,
        }
    }
}

pub fn make_app(cfg: &PeerCfg) -> App {
    let mut app = App::new();
    app.add_plugins(MinimalPlugins);
    app.add_plugins(StatesPlugin);
    app.add_plugins(AssetPlugin::default());
    app.init_asset::<Shader>();
    app.init_asset::<Mesh>();
    app.init_asset::<Image>();
    app.init_asset::<AudioSource>();
    app.init_asset::<SkinnedMeshInverseBindposes>();
    app.add_plugins(PbrPlugin::default());
    app.add_plugins(SyncPlugin);
    app.init_resource::<DespawnQueue>();
    app.init_resource::<SyncFinishedCount>();
    app.init_resource::<KeepHandles>();
    app.add_systems(Update, app_despawn_system);
    app.add_systems(Last, count_sync_finished);
    app.register_type::<CompU>();
    // RenderPlugin's share of what a light value needs to be decoded (any app that renders has it)
    app.register_type::<Color>();
    for t in &cfg.registered {
        match t {
            Ty::A => {
                app.sync_component::<CompA>();
            }
            Ty::B => {
                app.sync_component::<CompB>();
            }
            Ty::E => {
                app.sync_component::<CompE>();
            }
            Ty::V => {
                app.sync_component::<CompV>();
            }
            Ty::U => {
                app.sync_component::<CompU>();
            }
            Ty::Transform => {
                app.sync_component::<Transform>();
            }
            Ty::Name => {
                app.sync_component::<Name>();
            }
            Ty::Visibility => {
                app.sync_component::<Visibility>();
            }
            Ty::PointLight => {
                app.sync_component::<PointLight>();
            }
            Ty::SpotLight => {
                app.sync_component::<SpotLight>();
            }
            Ty::DirLight => {
                app.sync_component::<DirectionalLight>();
            }
            Ty::HMesh => {
                app.sync_component::<Handle<Mesh>>();
            }
            Ty::HMat => {
                app.sync_component::<Handle<StandardMaterial>>();
            }
            Ty::Skinned => {
                app.sync_component::<SkinnedMesh>();
            }
        }
    }
    app.sync_materials(cfg.materials);
    app.sync_meshes(cfg.meshes);
    app.sync_audios(cfg.audios);
    app.edit_schedule(Update, |s| {
        s.set_executor_kind(ExecutorKind::SingleThreaded);
    });
    app
}

pub struct Peer {
    pub id: u32,
    pub app: App,
    pub cfg: PeerCfg,
    pub frames: u64,
    pub networked: bool,
    pub sched_dumped: Option<Vec<String>>,
    pub dead: bool,
}

pub struct Session {
    pub peers: Vec<Peer>, // peer 0 is the initial host
    pub ip: IpAddr,
    pub port: u16,
    pub trace: Vec<Value>,
    /// op handle -> (origin peer, local entity)
    pub handles: BTreeMap<u32, (u32, Entity)>,
    pub handle_uuid: BTreeMap<u32, Uuid>,
    pub max_transfer: usize,
    pub panicked: Option<(u32, String)>,
}

fn short_sys_name(n: &str) -> String {
    // strip generic arguments' module paths but keep the type's last segment
    let mut out = String::new();
    let mut seg = String::new();
    for c in n.chars() {
        if c.is_alphanumeric() || c == '_' {
            seg.push(c);
        } else if c == ':' {
            seg.clear();
        } else if c == '.' {
            seg.push('.');
        } else {
            out.push_str(&seg);
            seg.clear();
            out.push(c);
        }
    }
    out.push_str(&seg);
    out
}

impl Session {
    pub fn new(v6: bool, host_cfg: PeerCfg) -> Self {
        let ip = if v6 { IpAddr::V6(Ipv6Addr::LOCALHOST) } else { IpAddr::V4(Ipv4Addr::LOCALHOST) };
        let port = free_udp_port(ip);
        let mut s = Session {
            peers: vec![],
            ip,
            port,
            trace: vec![],
            handles: BTreeMap::new(),
            handle_uuid: BTreeMap::new(),
            max_transfer: 100_000_000,
            panicked: None,
        };
        let mut app = make_app(&host_cfg);
        // like tests/setup: an unsynchronized entity on the host only, so that local ids are shifted
        app.world_mut().spawn(TransformBundle::default());
        s.peers.push(Peer { id: 0, app, cfg: host_cfg, frames: 0, networked: false, sched_dumped: None, dead: false });
        s
    }

    pub fn add_client(&mut self, cfg: PeerCfg, shift_ids: usize) -> u32 {
        let id = self.peers.len() as u32;
        let mut app = make_app(&cfg);
        for _ in 0..shift_ids {
            app.world_mut().spawn(TransformBundle::default());
        }
        self.peers.push(Peer { id, app, cfg, frames: 0, networked: false, sched_dumped: None, dead: false });
        id
    }

    fn params(&self, port: u16) -> SyncConnectionParameters {
        SyncConnectionParameters::Socket {
            ip: self.ip,
            port,
            web_port: free_tcp_port(self.ip),
            max_transfer: self.max_transfer,
        }
    }

    /// host starts hosting (adds ServerPlugin: transport inserted, endpoint started)
    pub fn start_host(&mut self) {
        let params = self.params(self.port);
        let p = &mut self.peers[0];
        p.app.add_plugins(ServerPlugin { parameters: params });
        p.networked = true;
        self.trace.push(json!({"ev":"op","op":"start_host","peer":0}));
    }

    /// client starts connecting (adds ClientPlugin)
    pub fn connect(&mut self, peer: u32) {
        let params = self.params(self.port);
        let p = &mut self.peers[peer as usize];
        if !p.networked {
            p.app.add_plugins(ClientPlugin { parameters: params });
            p.networked = true;
        } else {
            // reconnect: a fresh RenetClient and transport, as an application would do it
            p.app.insert_resource(RenetClient::new(bevy_renet::renet::ConnectionConfig::default()));
            let t = make_client_transport(self.ip, self.port);
            p.app.insert_resource(t);
        }
        self.trace.push(json!({"ev":"op","op":"connect","peer":peer}));
    }

    pub fn disconnect(&mut self, peer: u32) {
        let p = &mut self.peers[peer as usize];
        if let Some(mut c) = p.app.world_mut().get_resource_mut::<RenetClient>() {
            c.disconnect();
        }
        if let Some(mut t) = p.app.world_mut().get_resource_mut::<NetcodeClientTransport>() {
            t.disconnect();
        }
        p.app.world_mut().remove_resource::<NetcodeClientTransport>();
        self.trace.push(json!({"ev":"op","op":"disconnect","peer":peer}));
    }

    /// the join attempt is ended at renet level (what a refused or timed-out handshake does): the RenetClient
    /// becomes Disconnected while the transport resource stays
    pub fn renet_disconnect(&mut self, peer: u32) {
        let p = &mut self.peers[peer as usize];
        if let Some(mut c) = p.app.world_mut().get_resource_mut::<RenetClient>() {
            c.disconnect();
        }
        self.trace.push(json!({"ev":"op","op":"renet_disconnect","peer":peer}));
    }

    pub fn remove_client_transport(&mut self, peer: u32) {
        self.peers[peer as usize].app.world_mut().remove_resource::<NetcodeClientTransport>();
        self.trace.push(json!({"ev":"op","op":"remove_client_transport","peer":peer}));
    }

    /// the application starts hosting again after `stop_host` (a fresh RenetServer and transport on the same port)
    pub fn restart_host(&mut self) {
        let t = make_server_transport(self.ip, self.port);
        let p = &mut self.peers[0];
        p.app.insert_resource(RenetServer::new(bevy_renet::renet::ConnectionConfig::default()));
        p.app.insert_resource(t);
        self.trace.push(json!({"ev":"op","op":"start_host","peer":0}));
    }

    pub fn stop_host(&mut self, peer: u32) {
        self.peers[peer as usize].app.world_mut().remove_resource::<NetcodeServerTransport>();
        self.trace.push(json!({"ev":"op","op":"stop_host","peer":peer}));
    }

    pub fn local_entity(&mut self, peer: u32, h: u32) -> Option<Entity> {
        if let Some((p, e)) = self.handles.get(&h) {
            if *p == peer {
                return Some(*e);
            }
        }
        let u = *self.handle_uuid.get(&h)?;
        let w = self.peers[peer as usize].app.world_mut();
        let mut q = w.query::<(Entity, &SyncEntity)>();
        q.iter(w).find(|(_, s)| s.uuid == u).map(|(e, _)| e)
    }

    pub fn spawn(&mut self, peer: u32, h: u32, mark: bool, comps: &[CVal], parent: Option<u32>) {
        let pe = parent.and_then(|p| self.local_entity(peer, p));
        let w = self.peers[peer as usize].app.world_mut();
        // the application only parents under an entity it can still see
        let pe = pe.filter(|x| w.get_entity(*x).is_some());
        let parent = if pe.is_some() { parent } else { None };
        let e = w.spawn_empty().id();
        for c in comps {
            insert_cval(w, e, c, &[]);
        }
        if mark {
            w.entity_mut(e).insert(SyncMark);
        }
        if let Some(pe) = pe {
            w.entity_mut(e).set_parent(pe);
        }
        self.handles.insert(h, (peer, e));
        let cb: Vec<Value> = comps.iter().map(|c| json!({"ty": c.ty.name(), "bytes": self.comp_bytes(peer, e, c.ty)})).collect();
        self.trace.push(json!({"ev":"op","op":"spawn","peer":peer,"h":h,"mark":mark,
            "comps": comps.iter().map(|c| c.json()).collect::<Vec<_>>(), "comp_bytes": cb, "parent": parent}));
    }

    pub fn despawn(&mut self, peer: u32, h: u32) -> bool {
        let Some(e) = self.local_entity(peer, h) else { return false };
        let w = self.peers[peer as usize].app.world_mut();
        let ok = w.despawn(e);
        self.trace.push(json!({"ev":"op","op":"despawn","peer":peer,"h":h,"done":ok}));
        ok
    }

    /// despawn through an application system's `Commands` during the next frame of `peer`
    pub fn despawn_in_frame(&mut self, peer: u32, h: u32) -> bool {
        let Some(e) = self.local_entity(peer, h) else { return false };
        self.peers[peer as usize].app.world_mut().resource_mut::<DespawnQueue>().0.push(e);
        self.trace.push(json!({"ev":"op","op":"despawn_cmd","peer":peer,"h":h}));
        true
    }

    pub fn write(&mut self, peer: u32, h: u32, v: &CVal, joint_handles: &[u32]) -> bool {
        let Some(e) = self.local_entity(peer, h) else { return false };
        let mut joints = vec![];
        for j in joint_handles {
            if let Some(je) = self.local_entity(peer, *j) {
                joints.push(je);
            }
        }
        let w = self.peers[peer as usize].app.world_mut();
        if w.get_entity(e).is_none() {
            return false;
        }
        insert_cval(w, e, v, &joints);
        let bytes = self.comp_bytes(peer, e, v.ty);
        self.trace.push(json!({"ev":"op","op":"write","peer":peer,"h":h,"val":v.json(),"joints":joint_handles,"bytes":bytes,
            "uuid": self.handle_uuid.get(&h).map(|u| hex(u.as_bytes()))}));
        true
    }

    /// a second skinned mesh that shares the inverse-bind-pose asset of `src` (two instances of one rig, or two primitives of
    /// one mesh) but has its own joint list
    pub fn write_skinned_shared(&mut self, peer: u32, h: u32, src: u32, joint_handles: &[u32]) -> bool {
        let (Some(e), Some(se)) = (self.local_entity(peer, h), self.local_entity(peer, src)) else { return false };
        let mut joints = vec![];
        for j in joint_handles {
            if let Some(je) = self.local_entity(peer, *j) {
                joints.push(je);
            }
        }
        let w = self.peers[peer as usize].app.world_mut();
        let Some(handle) = w.get_entity(se).and_then(|x| x.get::<SkinnedMesh>().map(|s| s.inverse_bindposes.clone())) else { return false };
        let n = w.resource::<Assets<SkinnedMeshInverseBindposes>>().get(&handle).map(|p| p.len()).unwrap_or(0);
        let _ = n;
        if w.get_entity(e).is_none() {
            return false;
        }
        w.entity_mut(e).insert(SkinnedMesh { inverse_bindposes: handle, joints });
        self.trace.push(json!({"ev":"op","op":"write_skinned_shared","peer":peer,"h":h,"src":src,"joints":joint_handles,
            "uuid": self.handle_uuid.get(&h).map(|u| hex(u.as_bytes()))}));
        true
    }

    /// reflect bytes of one component of one local entity (what the snapshot prints for it)
    /// length of the `ComponentUpdated` message the crate sends for this component (real reflect encoding, real bincode)
    pub fn comp_msg_len(&mut self, peer: u32, e: Entity, ty: Ty) -> Option<usize> {
        let world = self.peers[peer as usize].app.world_mut();
        let registry = world.resource::<AppTypeRegistry>().clone();
        let registry = registry.read();
        let er = world.get_entity(e)?;
        macro_rules! comp {
            ($t:ty) => {
                er.get::<$t>().and_then(|c| verif::reflect_to_bin(c.as_reflect(), &registry).ok())
            };
        }
        let data = match ty {
            Ty::A => comp!(CompA),
            Ty::B => comp!(CompB),
            Ty::E => comp!(CompE),
            Ty::V => comp!(CompV),
            Ty::U => comp!(CompU),
            Ty::Transform => comp!(Transform),
            Ty::Name => comp!(Name),
            Ty::Visibility => comp!(Visibility),
            _ => None,
        }?;
        let m = verif::VMessage::ComponentUpdated { id: uuid::Uuid::nil(), name: ty.type_path().to_string(), data };
        Some(verif::encode_message(&m).len())
    }

    pub fn plain_msg_lens() -> (usize, usize) {
        (verif::encode_message(&verif::VMessage::EntitySpawn { id: uuid::Uuid::nil() }).len(),
         verif::encode_message(&verif::VMessage::FinishedInitialSync).len())
    }

    pub fn comp_bytes(&mut self, peer: u32, e: Entity, ty: Ty) -> Option<String> {
        let world = self.peers[peer as usize].app.world_mut();
        let registry = world.resource::<AppTypeRegistry>().clone();
        let registry = registry.read();
        let er = world.get_entity(e)?;
        macro_rules! comp {
            ($t:ty) => {
                er.get::<$t>().and_then(|c| verif::reflect_to_bin(c.as_reflect(), &registry).ok()).map(|b| hexs(&b))
            };
        }
        match ty {
            Ty::A => comp!(CompA),
            Ty::B => comp!(CompB),
            Ty::E => comp!(CompE),
            Ty::V => er.get::<CompV>().and_then(|c| compv_repr(c, &registry)),
            Ty::U => comp!(CompU),
            Ty::Transform => comp!(Transform),
            Ty::Name => comp!(Name),
            Ty::Visibility => comp!(Visibility),
            Ty::PointLight => er.get::<PointLight>().map(|c| format!("{:08x}", c.intensity.to_bits())),
            Ty::SpotLight => er.get::<SpotLight>().map(|c| format!("{:08x}", c.intensity.to_bits())),
            Ty::DirLight => er.get::<DirectionalLight>().map(|c| format!("{:08x}", c.illuminance.to_bits())),
            _ => None,
        }
    }

    pub fn set_parent(&mut self, peer: u32, child: u32, parent: u32) -> bool {
        let (Some(c), Some(p)) = (self.local_entity(peer, child), self.local_entity(peer, parent)) else { return false };
        if c == p {
            return false;
        }
        let w = self.peers[peer as usize].app.world_mut();
        if w.get_entity(c).is_none() || w.get_entity(p).is_none() {
            return false;
        }
        w.entity_mut(c).set_parent(p);
        self.trace.push(json!({"ev":"op","op":"set_parent","peer":peer,"h":child,"parent":parent}));
        true
    }

    /// an entity that exists unmarked is marked now
    pub fn mark_existing(&mut self, peer: u32, h: u32) -> bool {
        let Some(e) = self.local_entity(peer, h) else { return false };
        let w = self.peers[peer as usize].app.world_mut();
        if w.get_entity(e).is_none() {
            return false;
        }
        w.entity_mut(e).insert(SyncMark);
        self.trace.push(json!({"ev":"op","op":"mark","peer":peer,"h":h}));
        true
    }

    pub fn exclude(&mut self, peer: u32, h: u32, ty: Ty, on: bool) -> bool {
        let Some(e) = self.local_entity(peer, h) else { return false };
        let w = self.peers[peer as usize].app.world_mut();
        let mut em = w.entity_mut(e);
        macro_rules! ex {
            ($t:ty) => {
                if on {
                    em.insert(SyncExclude::<$t>::default());
                } else {
                    em.remove::<SyncExclude<$t>>();
                }
            };
        }
        match ty {
            Ty::A => ex!(CompA),
            Ty::B => ex!(CompB),
            Ty::E => ex!(CompE),
            Ty::V => ex!(CompV),
            Ty::Transform => ex!(Transform),
            Ty::Name => ex!(Name),
            Ty::Visibility => ex!(Visibility),
            Ty::Skinned => ex!(SkinnedMesh),
            _ => return false,
        }
        self.trace.push(json!({"ev":"op","op":"exclude","peer":peer,"h":h,"ty":ty.name(),"on":on}));
        true
    }

    /// publish (or overwrite) an asset: under a uuid id, or under a fresh index id when `uuid` is None
    pub fn asset_insert(&mut self, peer: u32, kind: AKind, uuid: Option<Uuid>, n: u64) {
        use bevy::render::{
            render_asset::RenderAssetUsages,
            render_resource::{Extent3d, PrimitiveTopology, TextureDimension, TextureFormat},
        };
        let w = self.peers[peer as usize].app.world_mut();
        match kind {
            AKind::Mesh => {
                let mut mesh = Mesh::new(PrimitiveTopology::TriangleList, RenderAssetUsages::MAIN_WORLD | RenderAssetUsages::RENDER_WORLD);
                let k = (n % 5 + 1) as usize;
                mesh.insert_attribute(Mesh::ATTRIBUTE_POSITION, (0..k).map(|i| [n as f32, i as f32, 1.0]).collect::<Vec<[f32; 3]>>());
                let mut a = w.resource_mut::<Assets<Mesh>>();
                match uuid {
                    Some(u) => a.insert(AssetId::Uuid { uuid: u }, mesh),
                    None => {
                        let h = a.add(mesh).untyped();
                        w.resource_mut::<KeepHandles>().0.push(h);
                    }
                }
            }
            AKind::Image => {
                let wd = (n % 7 + 1) as u32;
                let img = Image::new(
                    Extent3d { width: wd, height: 1, depth_or_array_layers: 1 },
                    TextureDimension::D2,
                    (0..wd * 4).map(|i| (n as u32 + i) as u8).collect(),
                    TextureFormat::Rgba8Unorm,
                    RenderAssetUsages::MAIN_WORLD | RenderAssetUsages::RENDER_WORLD,
                );
                let mut a = w.resource_mut::<Assets<Image>>();
                match uuid {
                    Some(u) => a.insert(AssetId::Uuid { uuid: u }, img),
                    None => {
                        let h = a.add(img).untyped();
                        w.resource_mut::<KeepHandles>().0.push(h);
                    }
                }
            }
            AKind::Audio => {
                // n >= 1_000_000: a body of n / 1_000_000 MiB (its download takes many frames)
                let len = if n >= 1_000_000 { (n / 1_000_000) << 20 } else { n % 40 + 1 };
                let au = AudioSource { bytes: (0..len).map(|i| (n + i + (i >> 11)) as u8).collect::<Vec<u8>>().into() };
                let mut a = w.resource_mut::<Assets<AudioSource>>();
                match uuid {
                    Some(u) => a.insert(AssetId::Uuid { uuid: u }, au),
                    None => {
                        let h = a.add(au).untyped();
                        w.resource_mut::<KeepHandles>().0.push(h);
                    }
                }
            }
            AKind::Material => {
                let m = StandardMaterial { base_color: Color::srgb((n % 100) as f32 / 100.0, 0.5, 0.25), metallic: (n % 7) as f32, ..Default::default() };
                let mut a = w.resource_mut::<Assets<StandardMaterial>>();
                match uuid {
                    Some(u) => a.insert(AssetId::Uuid { uuid: u }, m),
                    None => {
                        let h = a.add(m).untyped();
                        w.resource_mut::<KeepHandles>().0.push(h);
                    }
                }
            }
        }
        let hash = uuid.and_then(|u| {
            let t = asset_tables(self.peers[peer as usize].app.world());
            t.get(kind.name()).and_then(|m| m.get(hex(u.as_bytes()))).and_then(|v| v.as_str().map(|s| s.to_string()))
        });
        self.trace.push(json!({"ev":"op","op":"asset_insert","peer":peer,"kind":kind.name(),"uuid":uuid.map(|u| hex(u.as_bytes())),"n":n,"hash":hash}));
    }

    /// assets whose content sits at the edge of its domain: legal values an application can hold
    pub fn asset_insert_edge(&mut self, peer: u32, kind: AKind, uuid: Uuid, variant: u64) {
        use bevy::render::{
            render_asset::RenderAssetUsages,
            render_resource::{Extent3d, PrimitiveTopology, TextureDimension, TextureFormat},
        };
        let w = self.peers[peer as usize].app.world_mut();
        match kind {
            AKind::Mesh => {
                let mut mesh = Mesh::new(PrimitiveTopology::TriangleList, RenderAssetUsages::MAIN_WORLD | RenderAssetUsages::RENDER_WORLD);
                match variant {
                    0 => {
                        // vertices, an index buffer that is present but empty
                        mesh.insert_attribute(Mesh::ATTRIBUTE_POSITION, vec![[0.0f32, 0.0, 0.0], [1.0, 0.0, 0.0], [0.0, 1.0, 0.0]]);
                        mesh.insert_indices(bevy::render::mesh::Indices::U32(vec![]));
                    }
                    1 => {
                        // no attribute at all, 16-bit indices present but empty
                        mesh.insert_indices(bevy::render::mesh::Indices::U16(vec![]));
                    }
                    _ => {
                        // an attribute of length zero and indices that point past it
                        mesh.insert_attribute(Mesh::ATTRIBUTE_POSITION, Vec::<[f32; 3]>::new());
                        mesh.insert_indices(bevy::render::mesh::Indices::U32(vec![5, 6, 7]));
                    }
                }
                w.resource_mut::<Assets<Mesh>>().insert(AssetId::Uuid { uuid }, mesh);
            }
            AKind::Image => {
                let (wd, ht, data) = match variant { 0 => (0u32, 4u32, vec![]), 1 => (3, 0, vec![]), _ => (1, 1, vec![0u8; 4]) };
                let img = Image::new(
                    Extent3d { width: wd, height: ht, depth_or_array_layers: if variant == 2 { 1 } else { 1 } },
                    TextureDimension::D2,
                    data,
                    TextureFormat::Rgba8Unorm,
                    RenderAssetUsages::MAIN_WORLD | RenderAssetUsages::RENDER_WORLD,
                );
                w.resource_mut::<Assets<Image>>().insert(AssetId::Uuid { uuid }, img);
            }
            _ => {
                let bytes: Vec<u8> = match variant { 0 => vec![], 1 => vec![0], _ => vec![0xFF; 3] };
                w.resource_mut::<Assets<AudioSource>>().insert(AssetId::Uuid { uuid }, AudioSource { bytes: bytes.into() });
            }
        }
        self.trace.push(json!({"ev":"op","op":"asset_insert_edge","peer":peer,"kind":kind.name(),"uuid":hex(uuid.as_bytes()),"variant":variant}));
    }

    /// a uuid material that points at a local image through a strong handle: the reflect encoder cannot serialise it, so every
    /// sender skips it (live and in the snapshot) — and has to go on with the rest
    pub fn asset_insert_unencodable_material(&mut self, peer: u32, uuid: Uuid) {
        let w = self.peers[peer as usize].app.world_mut();
        let img = w.resource_mut::<Assets<Image>>().add(Image::default());
        let m = StandardMaterial { base_color_texture: Some(img.clone()), ..Default::default() };
        w.resource_mut::<Assets<StandardMaterial>>().insert(AssetId::Uuid { uuid }, m);
        w.resource_mut::<KeepHandles>().0.push(img.untyped());
        self.trace.push(json!({"ev":"op","op":"asset_insert_unencodable","peer":peer,"kind":"material","uuid":hex(uuid.as_bytes())}));
    }

    /// an announcement of an audio asset served by somebody else's endpoint (what the host relays for a client's asset):
    /// the genuine wire message, sent through the host's `RenetServer` to every client
    pub fn announce_external_audio(&mut self, id: Uuid, url: &str) -> bool {
        let w = self.peers[0].app.world_mut();
        let Some(mut server) = w.get_resource_mut::<RenetServer>() else { return false };
        let bytes = verif::encode_message(&verif::VMessage::AudioUpdated { id, url: url.to_string() });
        server.broadcast_message(bevy_renet::renet::DefaultChannel::ReliableOrdered, bytes);
        self.trace.push(json!({"ev":"op","op":"announce_external_audio","peer":0,"uuid":hex(id.as_bytes())}));
        true
    }

    pub fn audio_bytes(&self, peer: u32, id: Uuid) -> Option<Vec<u8>> {
        let w = self.peers[peer as usize].app.world();
        w.get_resource::<Assets<AudioSource>>().and_then(|a| a.get(AssetId::Uuid { uuid: id })).map(|a| a.bytes.to_vec())
    }

    /// the application supplies the engine companions of some kinds itself (with recognisable values)
    pub fn add_companions(&mut self, peer: u32, h: u32, kinds: &[Ty]) -> bool {
        let Some(e) = self.local_entity(peer, h) else { return false };
        let w = self.peers[peer as usize].app.world_mut();
        let mut em = w.entity_mut(e);
        for k in kinds {
            match k {
                Ty::Transform => {
                    em.insert(GlobalTransform::from(Transform::from_xyz(9.0, 9.0, 9.0)));
                }
                Ty::Visibility => {
                    em.insert(InheritedVisibility::VISIBLE).insert(ViewVisibility::default());
                }
                Ty::PointLight => {
                    em.insert(bevy::render::primitives::CubemapFrusta::default()).insert(bevy::pbr::CubemapVisibleEntities::default());
                }
                Ty::SpotLight => {
                    em.insert(bevy::render::primitives::Frustum::default());
                }
                Ty::DirLight => {
                    em.insert(bevy::render::primitives::CascadesFrusta::default())
                        .insert(bevy::pbr::CascadesVisibleEntities::default())
                        .insert(bevy::pbr::Cascades::default())
                        .insert(bevy::pbr::CascadeShadowConfig::default());
                }
                _ => {}
            }
        }
        self.trace.push(json!({"ev":"op","op":"add_companions","peer":peer,"h":h,"kinds":kinds.iter().map(|k| k.name()).collect::<Vec<_>>()}));
        true
    }

    pub fn promote(&mut self, host: u32, client_index: usize) -> bool {
        let w = self.peers[host as usize].app.world_mut();
        let Some(server) = w.get_resource::<RenetServer>() else { return false };
        let ids = server.clients_id();
        if ids.is_empty() {
            return false;
        }
        let mut ids = ids;
        ids.sort();
        let id = ids[client_index % ids.len()];
        w.send_event(PromoteToHostEvent { id });
        self.trace.push(json!({"ev":"op","op":"promote","peer":host,"client_index":client_index}));
        true
    }

    pub fn is_hosting(&mut self, peer: u32) -> bool {
        let w = self.peers[peer as usize].app.world();
        w.contains_resource::<NetcodeServerTransport>()
    }

    pub fn port_of(&mut self, peer: u32) -> u16 {
        let w = self.peers[peer as usize].app.world();
        match w.get_resource::<SyncConnectionParameters>() {
            Some(SyncConnectionParameters::Socket { port, .. }) => *port,
            None => self.port,
        }
    }

    pub fn set_port(&mut self, peer: u32, port: u16) {
        let w = self.peers[peer as usize].app.world_mut();
        if let Some(mut p) = w.get_resource_mut::<SyncConnectionParameters>() {
            match p.as_mut() {
                SyncConnectionParameters::Socket { port: ref mut pp, .. } => *pp = port,
            }
        }
    }

    fn dump_schedule(&mut self, peer: u32) {
        let p = &mut self.peers[peer as usize];
        let Some(sched) = p.app.get_schedule(Update) else { return };
        let Ok(iter) = sched.systems() else { return };
        let names: Vec<String> = iter.map(|(_, s)| short_sys_name(
            &s.name()
                .replace("bevy_sync::server::track::", "server.")
                .replace("bevy_sync::server::receiver::", "server.")
                .replace("bevy_sync::server::", "server.")
                .replace("bevy_sync::client::track::", "client.")
                .replace("bevy_sync::client::receiver::", "client.")
                .replace("bevy_sync::client::", "client."),
        )).collect();
        if p.sched_dumped.as_ref() != Some(&names) {
            p.sched_dumped = Some(names.clone());
            self.trace.push(json!({"ev":"sched","peer":peer,"order":names}));
        }
    }

    /// one frame of one peer
    pub fn step(&mut self, peer: u32) {
        if self.peers[peer as usize].dead {
            return;
        }
        verif::set_current_peer(peer);
        let before = verif::drain_tap();
        debug_assert!(before.is_empty());
        let app_ptr = &mut self.peers[peer as usize].app;
        let r = crate::catch(std::panic::AssertUnwindSafe(|| app_ptr.update()));
        self.peers[peer as usize].frames += 1;
        let tap = verif::drain_tap();
        let senders = verif::drain_tap_senders();
        let recv = self.recv_json(&tap, &senders);
        if let Err(msg) = r {
            self.peers[peer as usize].dead = true;
            self.panicked = Some((peer, msg.clone()));
            self.trace.push(json!({"ev":"frame","peer":peer,"n":self.peers[peer as usize].frames,
                "recv": recv, "panic": msg}));
            return;
        }
        self.dump_schedule(peer);
        self.bind_handles(peer);
        let state = self.snapshot(peer);
        self.trace.push(json!({"ev":"frame","peer":peer,"n":self.peers[peer as usize].frames,
            "recv": recv, "state": state, "panic": Value::Null}));
    }

    /// received messages of one frame, each with the peer that sent it (clients are identified by
    /// the renet client id of their current transport; a client's messages come from the host)
    fn recv_json(&mut self, tap: &[(u32, bool, verif::VMessage)], senders: &[u64]) -> Vec<Value> {
        let mut ids: HashMap<u64, u32> = HashMap::new();
        for p in self.peers.iter() {
            if let Some(t) = p.app.world().get_resource::<NetcodeClientTransport>() {
                ids.insert(t.client_id().raw(), p.id);
            }
        }
        let mut k = 0;
        let mut out = vec![];
        for (_, as_server, m) in tap {
            let mut v = msg_json(*as_server, m);
            if *as_server {
                let from = senders.get(k).and_then(|c| ids.get(c)).map(|p| json!(p)).unwrap_or(Value::Null);
                v["from"] = from;
                k += 1;
            }
            out.push(v);
        }
        out
    }

    fn bind_handles(&mut self, peer: u32) {
        let mut newly = vec![];
        for (h, (p, e)) in self.handles.iter() {
            if *p == peer && !self.handle_uuid.contains_key(h) {
                let w = self.peers[peer as usize].app.world();
                if let Some(s) = w.get_entity(*e).and_then(|er| er.get::<SyncEntity>()) {
                    newly.push((*h, s.uuid));
                }
            }
        }
        for (h, u) in newly {
            self.handle_uuid.insert(h, u);
            self.trace.push(json!({"ev":"bind","h":h,"uuid":hex(u.as_bytes())}));
        }
    }

    pub fn snapshot(&mut self, peer: u32) -> Value {
        let p = &mut self.peers[peer as usize];
        let world = p.app.world_mut();
        let registry = world.resource::<AppTypeRegistry>().clone();
        let registry = registry.read();
        let mut ents: Vec<Value> = vec![];
        let mut q = world.query::<(Entity, &SyncEntity)>();
        let list: Vec<(Entity, Uuid)> = q.iter(world).map(|(e, s)| (e, s.uuid)).collect();
        let e2u: HashMap<Entity, Uuid> = list.iter().cloned().collect();
        for (e, u) in &list {
            let er = world.entity(*e);
            let mut comps = BTreeMap::new();
            macro_rules! comp {
                ($t:ty, $ty:expr) => {
                    if let Some(c) = er.get::<$t>() {
                        let b = verif::reflect_to_bin(c.as_reflect(), &registry).map(|b| hexs(&b)).unwrap_or("ERR".into());
                        comps.insert($ty.name().to_string(), b);
                    }
                };
            }
            comp!(CompA, Ty::A);
            comp!(CompB, Ty::B);
            comp!(CompE, Ty::E);
            if let Some(c) = er.get::<CompV>() {
                comps.insert(Ty::V.name().to_string(), compv_repr(c, &registry).unwrap_or("ERR".into()));
            }
            comp!(CompU, Ty::U);
            comp!(Transform, Ty::Transform);
            comp!(Name, Ty::Name);
            comp!(Visibility, Ty::Visibility);
            if let Some(c) = er.get::<PointLight>() {
                comps.insert("PointLight".into(), format!("{:08x}", c.intensity.to_bits()));
            }
            if let Some(c) = er.get::<SpotLight>() {
                comps.insert("SpotLight".into(), format!("{:08x}", c.intensity.to_bits()));
            }
            if let Some(c) = er.get::<DirectionalLight>() {
                comps.insert("DirLight".into(), format!("{:08x}", c.illuminance.to_bits()));
            }
            if let Some(Handle::Weak(AssetId::Uuid { uuid })) = er.get::<Handle<Mesh>>() {
                comps.insert("HMesh".into(), hex(uuid.as_bytes()));
            }
            if let Some(Handle::Weak(AssetId::Uuid { uuid })) = er.get::<Handle<StandardMaterial>>() {
                comps.insert("HMat".into(), hex(uuid.as_bytes()));
            }
            let mut skinned = Value::Null;
            if let Some(sm) = er.get::<SkinnedMesh>() {
                let joints: Vec<String> = sm.joints.iter().map(|j| e2u.get(j).map(|u| hex(u.as_bytes())).unwrap_or("?".into())).collect();
                let poses = world
                    .resource::<Assets<SkinnedMeshInverseBindposes>>()
                    .get(&sm.inverse_bindposes)
                    .map(|p| p.iter().flat_map(|m| m.to_cols_array()).map(|f| format!("{:08x}", f.to_bits())).collect::<Vec<_>>().join(""));
                let joints_local: Vec<u64> = sm.joints.iter().map(|j| j.to_bits()).collect();
                skinned = json!({"joints": joints, "poses": poses, "joints_local": joints_local});
            }
            // companions of the render components (C17)
            let mut companions = vec![];
            macro_rules! has {
                ($t:ty, $n:expr) => {
                    if er.contains::<$t>() {
                        companions.push($n);
                    }
                };
            }
            has!(GlobalTransform, "GlobalTransform");
            has!(InheritedVisibility, "InheritedVisibility");
            has!(ViewVisibility, "ViewVisibility");
            has!(bevy::render::primitives::CubemapFrusta, "CubemapFrusta");
            has!(bevy::pbr::CubemapVisibleEntities, "CubemapVisibleEntities");
            has!(bevy::render::primitives::Frustum, "Frustum");
            has!(bevy::render::primitives::CascadesFrusta, "CascadesFrusta");
            has!(bevy::pbr::CascadesVisibleEntities, "CascadesVisibleEntities");
            has!(bevy::pbr::Cascades, "Cascades");
            has!(bevy::pbr::CascadeShadowConfig, "CascadeShadowConfig");
            let gt = er.get::<GlobalTransform>().map(|g| {
                let t = g.translation();
                format!("{:08x}{:08x}{:08x}", t.x.to_bits(), t.y.to_bits(), t.z.to_bits())
            });
            let parent = er.get::<Parent>().map(|p| e2u.get(&p.get()).map(|u| hex(u.as_bytes())).unwrap_or("unsynced".into()));
            let children: Vec<String> = er
                .get::<Children>()
                .map(|c| c.iter().map(|x| e2u.get(x).map(|u| hex(u.as_bytes())).unwrap_or("unsynced".into())).collect())
                .unwrap_or_default();
            let mut excl = vec![];
            macro_rules! exc {
                ($t:ty, $ty:expr) => {
                    if er.contains::<SyncExclude<$t>>() {
                        excl.push($ty.name());
                    }
                };
            }
            exc!(CompA, Ty::A);
            exc!(CompB, Ty::B);
            exc!(CompE, Ty::E);
            exc!(CompV, Ty::V);
            exc!(Transform, Ty::Transform);
            exc!(Name, Ty::Name);
            exc!(Visibility, Ty::Visibility);
            exc!(SkinnedMesh, Ty::Skinned);
            ents.push(json!({"uuid": hex(u.as_bytes()), "comps": comps, "parent": parent, "children": children,
                "excl": excl, "skinned": skinned, "companions": companions, "gt": gt, "local": e.to_bits()}));
        }
        ents.sort_by(|a, b| a["uuid"].as_str().cmp(&b["uuid"].as_str()).then(a["local"].as_u64().cmp(&b["local"].as_u64())));
        let marks = {
            let mut q = world.query_filtered::<Entity, With<SyncMark>>();
            q.iter(world).count()
        };
        let tr = verif::tracker_stats(world);
        let tracker = tr
            .map(|t| {
                json!({
                    "u2e": t.uuid_to_entity.iter().map(|(u, e)| json!([hex(u.as_bytes()), e.to_bits()])).collect::<Vec<_>>(),
                    "e2u": t.entity_to_uuid.iter().map(|(e, u)| json!([e.to_bits(), hex(u.as_bytes())])).collect::<Vec<_>>(),
                    "queue": t.queue.iter().map(|(u, n)| json!([hex(u.as_bytes()), n])).collect::<Vec<_>>(),
                    "tokens": t.component_tokens.iter().map(|(u, n)| json!([hex(u.as_bytes()), n])).collect::<Vec<_>>(),
                    "htokens": t.handle_tokens.iter().map(|u| hex(u.as_bytes())).collect::<Vec<_>>(),
                    "promo": t.host_promotion_in_progress,
                })
            })
            .unwrap_or(Value::Null);
        let xfer = verif::asset_stats(world).map(|a| {
            json!({"meshes": a.meshes, "images": a.images, "audios": a.audios,
                   "to_apply": a.meshes_to_apply + a.images_to_apply + a.audios_to_apply,
                   "queued": a.downloads_queued, "active": a.downloads_active})
        });
        let assets = asset_tables(world);
        let mut served: BTreeMap<String, BTreeMap<String, String>> = BTreeMap::new();
        for (cls, u, b) in verif::served_assets(world) {
            served.entry(cls.to_string()).or_default().insert(hex(u.as_bytes()), sha(&b));
        }
        let server_state = world.get_resource::<State<ServerState>>().map(|s| format!("{:?}", s.get()));
        let client_state = world.get_resource::<State<ClientState>>().map(|s| format!("{:?}", s.get()));
        let has_server_t = world.contains_resource::<NetcodeServerTransport>();
        let has_client_t = world.contains_resource::<NetcodeClientTransport>();
        let client_connected = world.get_resource::<RenetClient>().map(|c| c.is_connected()).unwrap_or(false);
        let client_disconnected = world.get_resource::<RenetClient>().map(|c| c.is_disconnected()).unwrap_or(true);
        let server_clients = world.get_resource::<RenetServer>().map(|s| s.clients_id().len()).unwrap_or(0);
        let mut disc_reason = world.get_resource::<RenetClient>().and_then(|c| c.disconnect_reason()).map(|r| format!("{:?}", r));
        if let Some(evs) = world.get_resource::<Events<bevy_renet::renet::ServerEvent>>() {
            for e in evs.iter_current_update_events() {
                if let bevy_renet::renet::ServerEvent::ClientDisconnected { reason, .. } = e {
                    disc_reason = Some(format!("server: {:?}", reason));
                }
            }
        }
        let sync_finished = world.resource::<SyncFinishedCount>().0;
        // bytes this peer has sent on the reliable channel that the other side has not acknowledged yet (renet resends them
        // after a real-time delay when a datagram was dropped): quiescence needs this to be zero on every connected link
        let budget: usize = 5 * 1024 * 1024; // max_memory_usage_bytes of every default channel
        let mut unacked: usize = 0;
        let mut unacked_links: BTreeMap<String, usize> = BTreeMap::new();
        if let Some(cl) = world.get_resource::<RenetClient>() {
            if cl.is_connected() {
                let n = budget.saturating_sub(cl.channel_available_memory(bevy_renet::renet::DefaultChannel::ReliableOrdered));
                unacked += n;
                unacked_links.insert("c".into(), n);
            }
        }
        if let Some(sv) = world.get_resource::<RenetServer>() {
            for id in sv.clients_id() {
                let n = budget.saturating_sub(sv.channel_available_memory(id, bevy_renet::renet::DefaultChannel::ReliableOrdered));
                unacked += n;
                unacked_links.insert(format!("s{}", id.raw()), n);
            }
        }
        json!({"ents": ents, "unacked": unacked, "unacked_links": unacked_links, "marks": marks, "tracker": tracker, "xfer": xfer, "assets": assets, "served": served,
               "server_state": server_state, "client_state": client_state,
               "server_transport": has_server_t, "client_transport": has_client_t,
               "client_connected": client_connected, "client_disconnected": client_disconnected, "disc_reason": disc_reason,
               "server_clients": server_clients, "sync_finished": sync_finished})
    }

    pub fn describe_peers(&mut self) {
        let v: Vec<Value> = self.peers.iter().map(|p| json!({"peer": p.id, "registered": p.cfg.registered.iter().map(|t| t.name()).collect::<Vec<_>>(),
            "materials": p.cfg.materials, "meshes": p.cfg.meshes, "audios": p.cfg.audios})).collect();
        self.trace.push(json!({"ev":"cfg","peers":v}));
    }

    pub fn emit(&self, w: &mut impl std::io::Write) {
        for v in &self.trace {
            writeln!(w, "{}", v).unwrap();
        }
    }
}

thread_local! {
    static BIG_V: std::cell::RefCell<HashMap<(usize, u64), String>> = std::cell::RefCell::new(HashMap::new());
}

/// encoding of a `CompV` as the state dump prints it; large values are encoded and digested once per distinct content
fn compv_repr(c: &CompV, registry: &bevy::reflect::TypeRegistry) -> Option<String> {
    if c.items.len() <= 4096 {
        return verif::reflect_to_bin(c.as_reflect(), registry).ok().map(|b| hexs(&b));
    }
    let key = (c.items.len(), fingerprint(&c.items));
    if let Some(s) = BIG_V.with(|m| m.borrow().get(&key).cloned()) {
        return Some(s);
    }
    let s = verif::reflect_to_bin(c.as_reflect(), registry).ok().map(|b| hexs(&b));
    if let Some(s) = &s {
        BIG_V.with(|m| m.borrow_mut().insert(key, s.clone()));
    }
    s
}

fn fingerprint(b: &[u8]) -> u64 {
    let mut h: u64 = 0xcbf29ce484222325;
    let mut chunks = b.chunks_exact(8);
    for c in &mut chunks {
        h = (h ^ u64::from_le_bytes(c.try_into().unwrap())).wrapping_mul(0x100000001b3).rotate_left(29);
    }
    for x in chunks.remainder() {
        h = (h ^ *x as u64).wrapping_mul(0x100000001b3);
    }
    h
}

fn sha(b: &[u8]) -> String {
    // FNV-1a 64 is enough to compare contents inside one trace
    let mut h: u64 = 0xcbf29ce484222325;
    for x in b {
        h ^= *x as u64;
        h = h.wrapping_mul(0x100000001b3);
    }
    format!("{:016x}:{}", h, b.len())
}

fn asset_tables(world: &World) -> Value {
    let mut out = BTreeMap::new();
    if let Some(a) = world.get_resource::<Assets<Mesh>>() {
        let mut m = BTreeMap::new();
        for (id, mesh) in a.iter() {
            if let AssetId::Uuid { uuid } = id {
                m.insert(hex(uuid.as_bytes()), sha(&verif::mesh_to_bin(mesh)));
            }
        }
        out.insert("mesh", m);
    }
    if let Some(a) = world.get_resource::<Assets<Image>>() {
        let mut m = BTreeMap::new();
        for (id, img) in a.iter() {
            if let AssetId::Uuid { uuid } = id {
                m.insert(hex(uuid.as_bytes()), sha(&verif::image_to_bin(img).unwrap_or_default()));
            }
        }
        out.insert("image", m);
    }
    if let Some(a) = world.get_resource::<Assets<AudioSource>>() {
        let mut m = BTreeMap::new();
        for (id, au) in a.iter() {
            if let AssetId::Uuid { uuid } = id {
                m.insert(hex(uuid.as_bytes()), sha(au.as_ref()));
            }
        }
        out.insert("audio", m);
    }
    if let Some(a) = world.get_resource::<Assets<StandardMaterial>>() {
        let mut m = BTreeMap::new();
        let reg = world.resource::<AppTypeRegistry>().clone();
        let reg = reg.read();
        for (id, mat) in a.iter() {
            if let AssetId::Uuid { uuid } = id {
                // a material that cannot be encoded (a strong handle to a local image in a texture slot) is never sent by anybody:
                // it is not part of what peers can be expected to share
                if let Ok(b) = verif::reflect_to_bin(mat.as_reflect(), &reg) {
                    m.insert(hex(uuid.as_bytes()), sha(&b));
                }
            }
        }
        out.insert("material", m);
    }
    json!(out)
}

pub fn msg_json(as_server: bool, m: &verif::VMessage) -> Value {
    use verif::VMessage::*;
    let u = |x: &Uuid| hex(x.as_bytes());
    let body = match m {
        EntitySpawn { id } => json!({"k":"spawn","id":u(id)}),
        EntityParented { entity_id, parent_id } => json!({"k":"parented","id":u(entity_id),"parent":u(parent_id)}),
        EntityDelete { id } => json!({"k":"delete","id":u(id)}),
        ComponentUpdated { id, name, data } => json!({"k":"comp","id":u(id),"name":name,"data":hexs(data)}),
        StandardMaterialUpdated { id, material } => json!({"k":"mat","id":u(id),"data":sha(material)}),
        MeshUpdated { id, url } => json!({"k":"mesh","id":u(id),"url":url}),
        ImageUpdated { id, url } => json!({"k":"image","id":u(id),"url":url}),
        AudioUpdated { id, url } => json!({"k":"audio","id":u(id),"url":url}),
        PromoteToHost => json!({"k":"promote"}),
        NewHost { ip, port, .. } => json!({"k":"newhost","ip":ip.to_string(),"port":port}),
        RequestInitialSync => json!({"k":"reqsync"}),
        FinishedInitialSync => json!({"k":"finsync"}),
    };
    json!({"as_server": as_server, "msg": body})
}

/// what bevy_sync's `create_server` builds (it is crate-private): used when the application starts hosting again
/// hex of short byte strings, digest + length of long ones (a 100 kB component value in every frame's state would make the
/// traces unmanageable); equal values still compare equal
pub fn hexs(b: &[u8]) -> String {
    if b.len() > 4096 {
        format!("sha:{}", sha(b))
    } else {
        hex(b)
    }
}

pub fn make_server_transport(ip: IpAddr, port: u16) -> NetcodeServerTransport {
    use bevy_renet::renet::transport::{ServerAuthentication, ServerConfig};
    use std::time::SystemTime;
    let socket = UdpSocket::bind((ip, port)).unwrap();
    let server_addr = socket.local_addr().unwrap();
    let current_time = SystemTime::now().duration_since(SystemTime::UNIX_EPOCH).unwrap();
    let server_config = ServerConfig {
        current_time,
        max_clients: 64,
        protocol_id: 1,
        public_addresses: vec![server_addr],
        authentication: ServerAuthentication::Unsecure,
    };
    NetcodeServerTransport::new(server_config, socket).unwrap()
}

pub fn make_client_transport(ip: IpAddr, port: u16) -> NetcodeClientTransport {
    use bevy_renet::renet::transport::ClientAuthentication;
    use std::net::SocketAddr;
    use std::time::SystemTime;
    let socket = UdpSocket::bind((ip, 0)).unwrap();
    let now = SystemTime::now().duration_since(SystemTime::UNIX_EPOCH).unwrap();
    // bevy_sync's create_client uses the wall clock in ms as client id; keep ids distinct here too
    static NEXT: std::sync::atomic::AtomicU64 = std::sync::atomic::AtomicU64::new(1);
    let client_id = now.as_millis() as u64 + NEXT.fetch_add(1, std::sync::atomic::Ordering::SeqCst) * 1_000_003;
    let authentication = ClientAuthentication::Unsecure {
        client_id,
        server_addr: SocketAddr::new(ip, port),
        protocol_id: 1,
        user_data: None,
    };
    NetcodeClientTransport::new(now, authentication, socket).unwrap()
}
