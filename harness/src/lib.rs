//! Shared helpers for the verification harness binaries.
pub mod session;
pub mod rng {
    /// splitmix64-seeded xoshiro256**: every random choice of a run derives from one seed.
    #[derive(Clone)]
    pub struct Rng {
        s: [u64; 4],
    }
    impl Rng {
        pub fn new(seed: u64) -> Self {
            let mut z = seed.wrapping_add(0x9E3779B97F4A7C15);
            let mut next = || {
                z = z.wrapping_add(0x9E3779B97F4A7C15);
                let mut x = z;
                x = (x ^ (x >> 30)).wrapping_mul(0xBF58476D1CE4E5B9);
                x = (x ^ (x >> 27)).wrapping_mul(0x94D049BB133111EB);
                x ^ (x >> 31)
            };
            Rng {
                s: [next(), next(), next(), next()],
            }
        }
        pub fn u64(&mut self) -> u64 {
            let r = self.s[1].wrapping_mul(5).rotate_left(7).wrapping_mul(9);
            let t = self.s[1] << 17;
            self.s[2] ^= self.s[0];
            self.s[3] ^= self.s[1];
            self.s[1] ^= self.s[2];
            self.s[0] ^= self.s[3];
            self.s[2] ^= t;
            self.s[3] = self.s[3].rotate_left(45);
            r
        }
        pub fn u32(&mut self) -> u32 {
            (self.u64() >> 32) as u32
        }
        pub fn below(&mut self, n: usize) -> usize {
            if n == 0 {
                0
            } else {
                (self.u64() % n as u64) as usize
            }
        }
        pub fn range(&mut self, lo: usize, hi: usize) -> usize {
            lo + self.below(hi - lo + 1)
        }
        pub fn chance(&mut self, num: usize, den: usize) -> bool {
            self.below(den) < num
        }
        pub fn pick<'a, T>(&mut self, xs: &'a [T]) -> &'a T {
            &xs[self.below(xs.len())]
        }
        pub fn bytes(&mut self, n: usize) -> Vec<u8> {
            (0..n).map(|_| self.u64() as u8).collect()
        }
        pub fn fork(&mut self) -> Rng {
            Rng::new(self.u64())
        }
    }
}

pub fn hex(b: &[u8]) -> String {
    if b.is_empty() {
        return "-".to_string();
    }
    const D: &[u8; 16] = b"0123456789abcdef";
    let mut s = String::with_capacity(b.len() * 2);
    for x in b {
        s.push(D[(x >> 4) as usize] as char);
        s.push(D[(x & 15) as usize] as char);
    }
    s
}

pub fn unhex(s: &str) -> Vec<u8> {
    if s == "-" {
        return vec![];
    }
    let b = s.as_bytes();
    (0..b.len() / 2)
        .map(|i| {
            let h = |c: u8| match c {
                b'0'..=b'9' => c - b'0',
                b'a'..=b'f' => c - b'a' + 10,
                _ => 0,
            };
            h(b[2 * i]) * 16 + h(b[2 * i + 1])
        })
        .collect()
}

/// run `f`, turning a panic into `Err(message)`; the default hook is silenced around it
pub fn catch<T>(f: impl FnOnce() -> T + std::panic::UnwindSafe) -> Result<T, String> {
    let prev = std::panic::take_hook();
    std::panic::set_hook(Box::new(|_| {}));
    let r = std::panic::catch_unwind(f);
    std::panic::set_hook(prev);
    r.map_err(|e| {
        if let Some(s) = e.downcast_ref::<&str>() {
            s.to_string()
        } else if let Some(s) = e.downcast_ref::<String>() {
            s.clone()
        } else {
            "panic".to_string()
        }
    })
}

/// byte-payload classes for codec cases: constant, short period, long matches crossing LSIC
/// steps, long period (beyond the 65 535 offset window), random, mixtures
pub fn payload(rng: &mut rng::Rng, n: usize) -> Vec<u8> {
    match rng.below(8) {
        0 => vec![rng.u64() as u8; n],
        1 => {
            let p = rng.range(1, 7);
            let pat = rng.bytes(p);
            (0..n).map(|i| pat[i % p]).collect()
        }
        2 => {
            let p = *rng.pick(&[15usize, 19, 254, 255, 256, 270, 274, 525, 529, 1000]);
            let pat = rng.bytes(p);
            (0..n).map(|i| pat[i % p]).collect()
        }
        3 => {
            let p = rng.range(65_530, 65_545).min(n.max(1));
            let pat = rng.bytes(p);
            (0..n).map(|i| pat[i % p]).collect()
        }
        4 => rng.bytes(n),
        5 => {
            // runs of random and repeated material
            let mut v = Vec::with_capacity(n);
            while v.len() < n {
                let k = rng.range(1, 300).min(n - v.len());
                if rng.chance(1, 2) || v.is_empty() {
                    v.extend(rng.bytes(k));
                } else {
                    let back = rng.range(1, v.len().min(70_000));
                    let s = v.len() - back;
                    for i in 0..k {
                        let b = v[s + i];
                        v.push(b);
                    }
                }
            }
            v
        }
        6 => (0..n).map(|i| (i / 3) as u8).collect(),
        _ => {
            let alphabet = rng.range(2, 4) as u64;
            (0..n).map(|_| (rng.u64() % alphabet) as u8).collect()
        }
    }
}
