//! bevy_hierarchy against the Lean model `Slice/Hier` (C05): random sequences of link operations on a bare `World`
//! (no networking): `L` = a local `set_parent`, `M` = what both `EntityParented` handlers do (the guard on the current
//! `Parent`, then `set_parent; add_child`).  Prints one model line per case:
//! `hier <id> <n> <ops> <parent:children;...>` with the `Children` in component order.
//! usage: hier <seed> <count>
use bevy::prelude::*;

struct Rng(u64);
impl Rng {
    fn next(&mut self) -> u64 {
        // splitmix64
        self.0 = self.0.wrapping_add(0x9E3779B97F4A7C15);
        let mut z = self.0;
        z = (z ^ (z >> 30)).wrapping_mul(0xBF58476D1CE4E5B9);
        z = (z ^ (z >> 27)).wrapping_mul(0x94D049BB133111EB);
        z ^ (z >> 31)
    }
    fn below(&mut self, n: u64) -> u64 {
        self.next() % n
    }
}

fn main() {
    let args: Vec<String> = std::env::args().collect();
    let seed: u64 = args.get(1).and_then(|s| s.parse().ok()).unwrap_or(1);
    let count: u64 = args.get(2).and_then(|s| s.parse().ok()).unwrap_or(50);
    let mut rng = Rng(seed.wrapping_mul(0x2545F4914F6CDD1D) ^ 0x68696572);
    for case in 0..count {
        let n = 2 + rng.below(7) as usize; // 2..8 entities
        let nops = rng.below(25) as usize; // 0..24 operations
        let mut world = World::new();
        let ents: Vec<Entity> = (0..n).map(|_| world.spawn_empty().id()).collect();
        let idx = |e: Entity| ents.iter().position(|x| *x == e).unwrap() + 1;
        let mut ops = Vec::new();
        for _ in 0..nops {
            let c = rng.below(n as u64) as usize;
            let mut p = rng.below(n as u64) as usize;
            if p == c {
                p = (p + 1) % n; // bevy asserts that an entity is not made its own child
            }
            // shapes: mostly-valid stream with repeats (same link again) and moves
            let handled = rng.below(2) == 0;
            let (ce, pe) = (ents[c], ents[p]);
            if handled {
                // mirrors the closure queued by the EntityParented handlers (src/{client,server}/receiver.rs)
                let mut entity = world.entity_mut(ce);
                let opt_parent = entity.get::<Parent>();
                if opt_parent.is_none() || opt_parent.unwrap().get() != pe {
                    entity.set_parent(pe);
                    world.entity_mut(pe).add_child(ce);
                }
                ops.push(format!("M.{}.{}", p + 1, c + 1));
            } else {
                world.entity_mut(ce).set_parent(pe);
                ops.push(format!("L.{}.{}", p + 1, c + 1));
            }
            if rng.below(4) == 0 {
                // the same message once more (relay echo / snapshot pair repeating a live message)
                let mut entity = world.entity_mut(ce);
                let opt_parent = entity.get::<Parent>();
                if opt_parent.is_none() || opt_parent.unwrap().get() != pe {
                    entity.set_parent(pe);
                    world.entity_mut(pe).add_child(ce);
                }
                ops.push(format!("M.{}.{}", p + 1, c + 1));
            }
        }
        let dump: Vec<String> = ents
            .iter()
            .map(|e| {
                let par = world.get::<Parent>(*e).map(|p| idx(p.get()).to_string()).unwrap_or("-".into());
                let ch = match world.get::<Children>(*e) {
                    Some(ch) if !ch.is_empty() => ch.iter().map(|c| idx(*c).to_string()).collect::<Vec<_>>().join("."),
                    _ => "-".into(),
                };
                format!("{}:{}", par, ch)
            })
            .collect();
        println!("hier hier-{}-{} {} {} {}", seed, case, n, if ops.is_empty() { ",".to_string() } else { ops.join(",") }, dump.join(";"));
    }
}
