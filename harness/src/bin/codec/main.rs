//! Codec correspondence driver: runs the real `mesh_to_bin`/`bin_to_mesh`, `image_to_bin`/
//! `bin_to_image`, `bincode` of `Message`, `reflect_to_bin`/`bin_to_reflect` on generated cases and
//! prints one line per case for the Lean model driver, plus `#ORACLE-FAIL` lines when the
//! implementation itself breaks the round-trip property and `#STAT` lines describing the inputs.
//!
//! usage: codec <mesh|image|message|reflect|lz4> <seed> <count> [quick|thorough]
use std::collections::BTreeMap;
use std::io::Write;

use bevy::{
    prelude::*,
    reflect::Struct,
    render::{
        mesh::{Indices, VertexAttributeValues},
        render_asset::RenderAssetUsages,
        render_resource::{Extent3d, PrimitiveTopology, TextureDimension, TextureFormat},
    },
};
use bevy_sync::verif;
use bsharness::{catch, hex, payload, rng::Rng};
use uuid::Uuid;

mod reflect_cases;

struct Out {
    w: std::io::BufWriter<std::io::Stdout>,
    stats: BTreeMap<String, u64>,
    oracle_fail: u64,
}
impl Out {
    fn line(&mut self, s: &str) {
        writeln!(self.w, "{}", s).unwrap();
    }
    fn stat(&mut self, k: &str) {
        *self.stats.entry(k.to_string()).or_default() += 1;
    }
    fn oracle_fail(&mut self, kind: &str, id: &str, msg: &str) {
        self.oracle_fail += 1;
        writeln!(self.w, "#ORACLE-FAIL {} {} {}", kind, id, msg.replace('\n', " ")).unwrap();
    }
}

fn main() {
    let args: Vec<String> = std::env::args().collect();
    let kind = args.get(1).map(|s| s.as_str()).unwrap_or("mesh");
    let seed: u64 = args.get(2).and_then(|s| s.parse().ok()).unwrap_or(1);
    let count: usize = args.get(3).and_then(|s| s.parse().ok()).unwrap_or(100);
    let thorough = args.get(4).map(|s| s == "thorough").unwrap_or(false);
    let mut out = Out {
        w: std::io::BufWriter::new(std::io::stdout()),
        stats: BTreeMap::new(),
        oracle_fail: 0,
    };
    let mut rng = Rng::new(seed ^ 0xC0DEC);
    match kind {
        "mesh" => mesh_cases(&mut out, &mut rng, seed, count, thorough),
        "image" => image_cases(&mut out, &mut rng, seed, count, thorough),
        "message" => message_cases(&mut out, &mut rng, seed, count),
        "reflect" => reflect_cases::run(&mut out, &mut rng, seed, count),
        "lz4" => lz4_cases(&mut out, &mut rng, seed, count, thorough),
        _ => panic!("unknown kind"),
    }
    let stats = std::mem::take(&mut out.stats);
    for (k, v) in stats {
        out.line(&format!("#STAT {}={}", k, v));
    }
    let n = out.oracle_fail;
    out.line(&format!("#STAT oracle_fail={}", n));
    out.w.flush().unwrap();
}

// ---------------------------------------------------------------- mesh

const ATTRS: [(&str, usize, bool); 8] = [
    ("pos", 3, false),
    ("nor", 3, false),
    ("uv0", 2, false),
    ("uv1", 2, false),
    ("tan", 4, false),
    ("col", 4, false),
    ("jw", 4, false),
    ("ji", 4, true),
];

fn attr_id(i: usize) -> bevy::render::mesh::MeshVertexAttribute {
    match i {
        0 => Mesh::ATTRIBUTE_POSITION,
        1 => Mesh::ATTRIBUTE_NORMAL,
        2 => Mesh::ATTRIBUTE_UV_0,
        3 => Mesh::ATTRIBUTE_UV_1,
        4 => Mesh::ATTRIBUTE_TANGENT,
        5 => Mesh::ATTRIBUTE_COLOR,
        6 => Mesh::ATTRIBUTE_JOINT_WEIGHT,
        _ => Mesh::ATTRIBUTE_JOINT_INDEX,
    }
}

/// the same mesh with every third float lane of every float attribute set to +0.0 (`negative = false`) or -0.0
fn zero_variant(mesh: &Mesh, negative: bool) -> Mesh {
    let mut m = mesh.clone();
    for i in 0..8 {
        if ATTRS[i].2 {
            continue;
        }
        let Some(vals) = mesh.attribute(attr_id(i)) else { continue };
        let mut bytes = vals.get_bytes().to_vec();
        for k in (0..bytes.len() / 4).step_by(3) {
            let z: u32 = if negative { 0x8000_0000 } else { 0 };
            bytes[4 * k..4 * k + 4].copy_from_slice(&z.to_le_bytes());
        }
        set_attr(&mut m, i, &bytes);
    }
    m
}

fn special_floats(rng: &mut Rng, n: usize) -> Vec<u8> {
    const S: [u32; 12] = [
        0x7FC00000, 0x7FC00001, 0x7F800001, 0xFFC12345, 0x7F800000, 0xFF800000, 0x80000000,
        0x00000000, 0x00000001, 0x807FFFFF, 0x3F800000, 0x7F7FFFFF,
    ];
    let mut v = Vec::with_capacity(n);
    while v.len() < n {
        let x = if rng.chance(3, 4) { *rng.pick(&S) } else { rng.u32() };
        v.extend_from_slice(&x.to_le_bytes());
    }
    v.truncate(n);
    v
}

fn lanes(rng: &mut Rng, nbytes: usize, float: bool) -> Vec<u8> {
    if float && rng.chance(1, 4) {
        special_floats(rng, nbytes)
    } else {
        payload(rng, nbytes)
    }
}

fn set_attr(mesh: &mut Mesh, i: usize, bytes: &[u8]) {
    let f = |k: usize| -> f32 { f32::from_bits(u32::from_le_bytes(bytes[4 * k..4 * k + 4].try_into().unwrap())) };
    let (_, k, is_u16) = ATTRS[i];
    if is_u16 {
        let n = bytes.len() / 8;
        let v: Vec<[u16; 4]> = (0..n)
            .map(|r| {
                let g = |c: usize| u16::from_le_bytes(bytes[8 * r + 2 * c..8 * r + 2 * c + 2].try_into().unwrap());
                [g(0), g(1), g(2), g(3)]
            })
            .collect();
        mesh.insert_attribute(attr_id(i), VertexAttributeValues::Uint16x4(v));
        return;
    }
    let n = bytes.len() / (4 * k);
    match k {
        2 => {
            let v: Vec<[f32; 2]> = (0..n).map(|r| [f(2 * r), f(2 * r + 1)]).collect();
            mesh.insert_attribute(attr_id(i), v);
        }
        3 => {
            let v: Vec<[f32; 3]> = (0..n).map(|r| [f(3 * r), f(3 * r + 1), f(3 * r + 2)]).collect();
            mesh.insert_attribute(attr_id(i), v);
        }
        _ => {
            let v: Vec<[f32; 4]> = (0..n)
                .map(|r| [f(4 * r), f(4 * r + 1), f(4 * r + 2), f(4 * r + 3)])
                .collect();
            mesh.insert_attribute(attr_id(i), v);
        }
    }
}

fn topo(i: usize) -> PrimitiveTopology {
    match i {
        0 => PrimitiveTopology::PointList,
        1 => PrimitiveTopology::LineList,
        2 => PrimitiveTopology::LineStrip,
        3 => PrimitiveTopology::TriangleList,
        _ => PrimitiveTopology::TriangleStrip,
    }
}
fn topo_code(t: PrimitiveTopology) -> usize {
    match t {
        PrimitiveTopology::PointList => 0,
        PrimitiveTopology::LineList => 1,
        PrimitiveTopology::LineStrip => 2,
        PrimitiveTopology::TriangleList => 3,
        PrimitiveTopology::TriangleStrip => 4,
    }
}

fn morph_of(mesh: &Mesh) -> String {
    let m = (mesh as &dyn Struct)
        .field("morph_targets")
        .unwrap()
        .downcast_ref::<Option<Handle<Image>>>()
        .unwrap();
    match m {
        None => "-".into(),
        Some(Handle::Strong(_)) => "s".into(),
        Some(Handle::Weak(AssetId::Uuid { uuid })) => format!("u:{}", hex(uuid.as_bytes())),
        Some(Handle::Weak(AssetId::Index { index, .. })) => {
            // AssetIndex fields are crate-private: read them through its serde form (u32 generation, u32 index)
            let b = bincode::serialize(index).unwrap();
            let g = u32::from_le_bytes(b[0..4].try_into().unwrap());
            let i = u32::from_le_bytes(b[4..8].try_into().unwrap());
            format!("i:{}:{}", g, i)
        }
    }
}

fn names_desc(n: Option<&[String]>) -> String {
    match n {
        None => "-".into(),
        Some(v) if v.is_empty() => "0".into(),
        Some(v) => v
            .iter()
            .map(|s| if s.is_empty() { "e".to_string() } else { hex(s.as_bytes()) })
            .collect::<Vec<_>>()
            .join(","),
    }
}

/// what the codec can see of a mesh, in the line format of the Lean driver
fn desc_mesh(mesh: &Mesh) -> String {
    let mut s = format!("T {} A", topo_code(mesh.primitive_topology()));
    for i in 0..8 {
        let present = match (mesh.attribute(attr_id(i)), ATTRS[i].1, ATTRS[i].2) {
            (Some(v @ VertexAttributeValues::Float32x2(_)), 2, false) => Some(v.get_bytes().to_vec()),
            (Some(v @ VertexAttributeValues::Float32x3(_)), 3, false) => Some(v.get_bytes().to_vec()),
            (Some(v @ VertexAttributeValues::Float32x4(_)), 4, false) => Some(v.get_bytes().to_vec()),
            (Some(v @ VertexAttributeValues::Uint16x4(_)), 4, true) => Some(v.get_bytes().to_vec()),
            _ => None,
        };
        match present {
            None => s.push_str(" -"),
            Some(b) if b.is_empty() => s.push_str(" 0"),
            Some(b) => {
                s.push(' ');
                s.push_str(&hex(&b));
            }
        }
    }
    s.push_str(" I ");
    match mesh.indices() {
        None => s.push('-'),
        Some(Indices::U16(v)) => {
            let b: Vec<u8> = v.iter().flat_map(|x| x.to_le_bytes()).collect();
            s.push_str(&format!("h:{}", hex(&b)));
        }
        Some(Indices::U32(v)) => {
            let b: Vec<u8> = v.iter().flat_map(|x| x.to_le_bytes()).collect();
            s.push_str(&format!("w:{}", hex(&b)));
        }
    }
    s.push_str(&format!(" M {} N {}", morph_of(mesh), names_desc(mesh.morph_target_names())));
    s
}

fn gen_string(rng: &mut Rng) -> String {
    match rng.below(6) {
        0 => String::new(),
        1 => "name".into(),
        2 => "héllo wörld ✓ 日本語 🎉".into(),
        3 => (0..rng.range(1, 40)).map(|_| char::from_u32(rng.range(32, 126) as u32).unwrap()).collect(),
        4 => (0..rng.range(1, 20))
            .map(|_| loop {
                if let Some(c) = char::from_u32(rng.below(0x11_0000) as u32) {
                    break c;
                }
            })
            .collect(),
        _ => "x".repeat(rng.range(100, 400)),
    }
}

fn gen_mesh(rng: &mut Rng, images: &mut Assets<Image>, subset: Option<usize>, nverts: usize, out: &mut Out) -> Mesh {
    let t = rng.below(5);
    let mut mesh = Mesh::new(topo(t), RenderAssetUsages::MAIN_WORLD | RenderAssetUsages::RENDER_WORLD);
    let subset = subset.unwrap_or_else(|| rng.below(256));
    for i in 0..8 {
        if subset >> i & 1 == 1 {
            // attributes need not have equal lengths for the codec; mostly they do
            let n = if rng.chance(1, 10) { rng.below(nverts + 2) } else { nverts };
            let width = ATTRS[i].1 * if ATTRS[i].2 { 2 } else { 4 };
            let bytes = lanes(rng, n * width, !ATTRS[i].2);
            set_attr(&mut mesh, i, &bytes);
        }
    }
    match rng.below(3) {
        0 => out.stat("mesh.indices.none"),
        1 => {
            let n = rng.below(3 * nverts + 2);
            let b = payload(rng, 2 * n);
            mesh.insert_indices(Indices::U16(
                (0..n).map(|i| u16::from_le_bytes([b[2 * i], b[2 * i + 1]])).collect(),
            ));
            out.stat("mesh.indices.u16");
        }
        _ => {
            let n = rng.below(3 * nverts + 2);
            let b = payload(rng, 4 * n);
            mesh.insert_indices(Indices::U32(
                (0..n)
                    .map(|i| u32::from_le_bytes(b[4 * i..4 * i + 4].try_into().unwrap()))
                    .collect(),
            ));
            out.stat("mesh.indices.u32");
        }
    }
    match rng.below(5) {
        0 | 1 => out.stat("mesh.morph.none"),
        2 => {
            mesh.set_morph_targets(Handle::Weak(AssetId::Uuid {
                uuid: Uuid::from_bytes(rng.bytes(16).try_into().unwrap()),
            }));
            out.stat("mesh.morph.weak_uuid");
        }
        3 => {
            // a weak index handle: take the id of a freshly added image
            let mut last = images.add(Image::default());
            for _ in 0..rng.below(4) {
                last = images.add(Image::default());
            }
            mesh.set_morph_targets(Handle::Weak(last.id()));
            out.stat("mesh.morph.weak_index");
        }
        _ => {
            mesh.set_morph_targets(images.add(Image::default()));
            out.stat("mesh.morph.strong");
        }
    }
    match rng.below(4) {
        0 | 1 => {}
        2 => mesh.set_morph_target_names(vec![]),
        _ => mesh.set_morph_target_names((0..rng.range(1, 5)).map(|_| gen_string(rng)).collect()),
    }
    out.stat(&format!("mesh.topology.{}", t));
    out.stat(&format!("mesh.attr_count.{}", subset.count_ones()));
    mesh
}

/// implementation oracle: attribute-wise comparison of the decoded mesh with the original
fn mesh_oracle(a: &Mesh, b: &Mesh) -> Result<(), String> {
    if a.primitive_topology() != b.primitive_topology() {
        return Err("topology".into());
    }
    for i in 0..8 {
        let x = a.attribute(attr_id(i)).map(|v| (std::mem::discriminant(v), v.get_bytes().to_vec()));
        let y = b.attribute(attr_id(i)).map(|v| (std::mem::discriminant(v), v.get_bytes().to_vec()));
        if x != y {
            return Err(format!("attribute {}", ATTRS[i].0));
        }
    }
    let ix = |m: &Mesh| match m.indices() {
        None => (0, vec![]),
        Some(Indices::U16(v)) => (16, v.iter().map(|x| *x as u32).collect::<Vec<_>>()),
        Some(Indices::U32(v)) => (32, v.clone()),
    };
    if ix(a) != ix(b) {
        return Err("indices".into());
    }
    if a.morph_target_names() != b.morph_target_names() {
        return Err("morph target names".into());
    }
    let (ma, mb) = (morph_of(a), morph_of(b));
    let expect = if ma == "s" { "-".to_string() } else { ma };
    if expect != mb {
        return Err("morph targets".into());
    }
    Ok(())
}

fn mesh_cases(out: &mut Out, rng: &mut Rng, seed: u64, count: usize, thorough: bool) {
    let mut images = Assets::<Image>::default();
    let small: [usize; 10] = [0, 1, 2, 3, 15, 16, 17, 255, 256, 257];
    let mut n = 0usize;
    let mut emit = |out: &mut Out, rng: &mut Rng, mesh: Mesh, n: usize| {
        let id = format!("mesh-{}-{}", seed, n);
        let bin = verif::mesh_to_bin(&mesh);
        let bin2 = bin.clone();
        let dec = catch(move || verif::bin_to_mesh(&bin2));
        match &dec {
            Ok(m2) => {
                if let Err(e) = mesh_oracle(&mesh, m2) {
                    out.oracle_fail("mesh", &id, &format!("round trip differs in {}", e));
                }
                out.line(&format!("mesh {} {} BIN {} DEC {}", id, desc_mesh(&mesh), hex(&bin), desc_mesh(m2)));
            }
            Err(p) => {
                out.oracle_fail("mesh", &id, &format!("bin_to_mesh panicked on mesh_to_bin output: {}", p));
                out.line(&format!("mesh {} {} BIN {} DEC panic", id, desc_mesh(&mesh), hex(&bin)));
            }
        }
        // malformed stream derived from this case
        if rng.chance(1, 3) {
            let mut bad = bin.clone();
            match rng.below(4) {
                0 => bad.truncate(rng.below(bad.len() + 1)),
                1 => {
                    if !bad.is_empty() {
                        let i = rng.below(bad.len());
                        bad[i] ^= 1 << rng.below(8);
                    }
                }
                2 => bad = { let k = rng.below(64); rng.bytes(k) },
                _ => bad.extend({ let k = rng.range(1, 8); rng.bytes(k) }),
            }
            let bad2 = bad.clone();
            let r = catch(move || verif::bin_to_mesh(&bad2));
            out.stat(if r.is_ok() { "mesh.malformed.returned" } else { "mesh.malformed.panicked" });
            let res = match r {
                Ok(m) => desc_mesh(&m),
                Err(_) => "panic".into(),
            };
            out.line(&format!("meshdec {}m BIN {} DEC {}", id, hex(&bad), res));
        }
    };
    // all 2^8 attribute subsets at tiny sizes
    for subset in 0..256usize {
        if n >= count {
            break;
        }
        let nv = *rng.pick(&small[..5]);
        let m = gen_mesh(rng, &mut images, Some(subset), nv, out);
        emit(out, rng, m, n);
        n += 1;
    }
    while n < count {
        let nv = match rng.below(10) {
            0..=5 => *rng.pick(&small),
            6 | 7 => rng.range(300, 1500),
            8 => rng.range(1500, 4500),
            _ => {
                if thorough && rng.chance(1, 6) {
                    *rng.pick(&[20_000usize, 70_000])
                } else {
                    rng.range(4500, 9000)
                }
            }
        };
        out.stat(&format!("mesh.size_class.{}", if nv <= 3 { "tiny" } else if nv <= 300 { "small" } else if nv <= 4500 { "medium" } else { "large" }));
        let m = gen_mesh(rng, &mut images, None, nv, out);
        // now and then two meshes that differ only in the sign of their zero floats, encoded back to back (`0.0 == -0.0`:
        // anything that compares meshes with `==` between two encodings confuses them)
        let pair = if rng.chance(1, 5) { Some((zero_variant(&m, false), zero_variant(&m, true))) } else { None };
        emit(out, rng, m, n);
        if let Some((a, b)) = pair {
            out.stat("mesh.signed_zero_pair");
            emit(out, rng, a, 1_000_000 + n);
            emit(out, rng, b, 2_000_000 + n);
        }
        n += 1;
    }
    // huge meshes (uncompressed image of 1 .. 40 MiB, around the powers of two): implementation oracle only,
    // the lines would be tens of megabytes of hex for the model driver
    let budgets: &[usize] = if thorough {
        &[1 << 20, 2 << 20, 4 << 20, 8 << 20, 16 << 20, 32 << 20, 5 << 20, 12 << 20, 40 << 20]
    } else {
        &[1 << 20, 8 << 20, 16 << 20]
    };
    for (k, budget) in budgets.iter().enumerate() {
        for shape in 0..2 {
            // shape 0: positions only; shape 1: every attribute
            let subset = if shape == 0 { 1usize } else { 255 };
            let per_vertex: usize = (0..8).filter(|i| subset >> i & 1 == 1).map(|i| ATTRS[i].1 * if ATTRS[i].2 { 2 } else { 4 }).sum();
            let nv = budget / per_vertex + rng.range(1, 64);
            let mesh = gen_mesh(rng, &mut images, Some(subset), nv, out);
            let id = format!("mesh-{}-huge{}-{}", seed, k, shape);
            let bin = verif::mesh_to_bin(&mesh);
            match catch(move || verif::bin_to_mesh(&bin)) {
                Ok(m2) => {
                    if let Err(e) = mesh_oracle(&mesh, &m2) {
                        out.oracle_fail("mesh", &id, &format!("round trip of a mesh of {} vertices ({} attribute bytes per vertex) differs in {}", nv, per_vertex, e));
                    }
                }
                Err(p) => out.oracle_fail("mesh", &id, &format!("bin_to_mesh panicked on mesh_to_bin output of a mesh of {} vertices: {}", nv, p)),
            }
            out.stat("mesh.size_class.huge_oracle_only");
        }
    }
}

// ---------------------------------------------------------------- lz4 (through the audio-free path: image data only)

fn lz4_cases(out: &mut Out, rng: &mut Rng, seed: u64, count: usize, thorough: bool) {
    // The crate reaches lz4 only through mesh/image codecs; an R8Uint Nx1 image is the thinnest wrapper
    // around an arbitrary byte payload, so these cases aim at the compressor's boundaries.
    for n in 0..count {
        let len = match rng.below(8) {
            0 => rng.below(8),
            1 => rng.range(8, 40),
            2 => rng.range(250, 300),
            3 => rng.range(500, 560),
            4 => rng.range(4000, 4200),
            5 => rng.range(65_500, 65_600),
            6 => rng.range(66_000, 140_000),
            _ => {
                if thorough && rng.chance(1, 4) {
                    rng.range(200_000, 1_100_000)
                } else {
                    rng.range(1000, 30_000)
                }
            }
        };
        let data = payload(rng, len);
        let img = Image::new(
            Extent3d { width: len as u32, height: 1, depth_or_array_layers: 1 },
            TextureDimension::D1,
            data,
            TextureFormat::R8Uint,
            RenderAssetUsages::RENDER_WORLD | RenderAssetUsages::MAIN_WORLD,
        );
        out.stat(&format!("lz4.len_class.{}", len.checked_ilog2().unwrap_or(0)));
        emit_image(out, rng, &img, &format!("lz4-{}-{}", seed, n), false);
    }
}

// ---------------------------------------------------------------- image

fn all_formats() -> Vec<TextureFormat> {
    use TextureFormat::*;
    vec![
        R8Unorm, R8Snorm, R8Uint, R8Sint, R16Uint, R16Sint, R16Unorm, R16Snorm, R16Float, Rg8Unorm, Rg8Snorm,
        Rg8Uint, Rg8Sint, R32Uint, R32Sint, R32Float, Rg16Uint, Rg16Sint, Rg16Unorm, Rg16Snorm, Rg16Float,
        Rgba8Unorm, Rgba8UnormSrgb, Rgba8Snorm, Rgba8Uint, Rgba8Sint, Bgra8Unorm, Bgra8UnormSrgb, Rgb10a2Uint,
        Rgb10a2Unorm, Rg11b10Float, Rg32Uint, Rg32Sint, Rg32Float, Rgba16Uint, Rgba16Sint, Rgba16Unorm,
        Rgba16Snorm, Rgba16Float, Rgba32Uint, Rgba32Sint, Rgba32Float, Stencil8, Depth16Unorm, Depth32Float,
        Rgb9e5Ufloat,
    ]
}

fn format_name(f: TextureFormat) -> String {
    // the serde name of the format, read off its real serialisation (u64 length + utf-8)
    let b = bincode::serialize(&f).unwrap();
    String::from_utf8(b[8..].to_vec()).unwrap()
}

fn desc_image(img: &Image) -> String {
    let d = &img.texture_descriptor;
    let dim = match d.dimension {
        TextureDimension::D1 => 1,
        TextureDimension::D2 => 2,
        TextureDimension::D3 => 3,
    };
    format!(
        "{} {} {} {} {} {}",
        d.size.width,
        d.size.height,
        d.size.depth_or_array_layers,
        dim,
        hex(format_name(d.format).as_bytes()),
        hex(&img.data)
    )
}

fn emit_image(out: &mut Out, rng: &mut Rng, img: &Image, id: &str, malformed: bool) {
    let bin = verif::image_to_bin(img);
    let Some(bin) = bin else {
        out.oracle_fail("image", id, "image_to_bin returned None");
        return;
    };
    let bin2 = bin.clone();
    let dec = catch(move || verif::bin_to_image(&bin2));
    let dec_desc = match &dec {
        Ok(Some(i2)) => {
            let (a, b) = (&img.texture_descriptor, &i2.texture_descriptor);
            if a.size != b.size || a.dimension != b.dimension || a.format != b.format || img.data != i2.data {
                out.oracle_fail("image", id, "round trip differs");
            }
            desc_image(i2)
        }
        Ok(None) => {
            out.oracle_fail("image", id, "bin_to_image returned None on image_to_bin output");
            "none".into()
        }
        Err(p) => {
            out.oracle_fail("image", id, &format!("bin_to_image panicked on image_to_bin output: {}", p));
            "panic".into()
        }
    };
    out.line(&format!("image {} {} BIN {} DEC {}", id, desc_image(img), hex(&bin), dec_desc));
    if malformed {
        let mut bad = bin.clone();
        match rng.below(4) {
            0 => bad.truncate(rng.below(bad.len() + 1)),
            1 => {
                let i = rng.below(bad.len());
                bad[i] ^= 1 << rng.below(8);
            }
            2 => bad = { let k = rng.below(64); rng.bytes(k) },
            _ => bad.extend({ let k = rng.range(1, 8); rng.bytes(k) }),
        }
        let bad2 = bad.clone();
        let r = catch(move || verif::bin_to_image(&bad2));
        let res = match r {
            Ok(Some(i)) => {
                out.stat("image.malformed.decoded");
                desc_image(&i)
            }
            Ok(None) => {
                out.stat("image.malformed.none");
                "none".into()
            }
            Err(p) if !p.contains("called `Result::unwrap()` on an `Err` value") => {
                // not the `decompress(..).unwrap()` of bin_to_image: a panic inside bevy's `Image::new`
                // (size/format debug assertion, overflow of the volume, pixel_size of a block format)
                out.line(&format!("#NOTE image-new-panic {}", p.replace('\n', " ")));
                // bevy's `Image::new` debug assertion on an image that decoded fine: outside the codec
                out.stat("image.malformed.image_new_assert");
                "assert".into()
            }
            Err(_) => {
                out.stat("image.malformed.panicked");
                "panic".into()
            }
        };
        out.line(&format!("imagedec {}m BIN {} DEC {}", id, hex(&bad), res));
    }
}

fn image_cases(out: &mut Out, rng: &mut Rng, seed: u64, count: usize, thorough: bool) {
    let formats = all_formats();
    // for every format of the table the real serialisation is that name and parses back
    for f in &formats {
        let b = bincode::serialize(f).unwrap();
        let back: Result<TextureFormat, _> = bincode::deserialize(&b);
        if back.ok() != Some(*f) {
            out.oracle_fail("image", &format!("format-{:?}", f), "TextureFormat name does not parse back");
        }
        out.line(&format!("fmtname {}", hex(format_name(*f).as_bytes())));
    }
    // noise of every length in a window of 255 consecutive sizes (a length prefix written in bytes of 255 has one residue
    // per window that needs a terminator): through the model just above 4 KiB, by the implementation alone above 64 KiB
    for k in 0..255usize {
        let w = 4097 + k;
        let img = Image::new(
            Extent3d { width: w as u32, height: 1, depth_or_array_layers: 1 },
            TextureDimension::D1,
            rng.bytes(w),
            TextureFormat::R8Unorm,
            RenderAssetUsages::RENDER_WORLD | RenderAssetUsages::MAIN_WORLD,
        );
        out.stat("image.noise_sweep");
        emit_image(out, rng, &img, &format!("image-{}-noise{}", seed, w), false);
    }
    if thorough {
        for k in 0..255usize {
            let w = 65_600 + k;
            let img = Image::new(
                Extent3d { width: w as u32, height: 1, depth_or_array_layers: 1 },
                TextureDimension::D1,
                rng.bytes(w),
                TextureFormat::R8Unorm,
                RenderAssetUsages::RENDER_WORLD | RenderAssetUsages::MAIN_WORLD,
            );
            out.stat("image.noise_sweep_64k");
            let id = format!("image-{}-noise{}", seed, w);
            match verif::image_to_bin(&img) {
                None => out.oracle_fail("image", &id, "image_to_bin returned None"),
                Some(bin) => match catch(move || verif::bin_to_image(&bin)) {
                    Ok(Some(i2)) => {
                        if i2.texture_descriptor.size != img.texture_descriptor.size || i2.data != img.data {
                            out.oracle_fail("image", &id, "round trip differs");
                        }
                    }
                    Ok(None) => out.oracle_fail("image", &id, "bin_to_image returned None on image_to_bin output"),
                    Err(p) => out.oracle_fail("image", &id, &format!("bin_to_image panicked on image_to_bin output: {}", p)),
                },
            }
        }
    }
    let mut n = 0usize;
    while n < count {
        // first pass: every format × every dimension at small sizes; then random
        let (f, dim) = if n < formats.len() * 3 {
            (formats[n / 3], n % 3 + 1)
        } else {
            (*rng.pick(&formats), rng.range(1, 3))
        };
        let px = f.block_copy_size(None).unwrap_or(4) as usize;
        let (w, h, d) = match rng.below(8) {
            0 => (0, rng.below(3), rng.below(3)),
            1 => (1, 1, 1),
            2 => (2, 1, 1),
            3 => (rng.range(1, 9) | 1, rng.range(1, 9) | 1, rng.range(1, 3)),
            4 => (rng.range(1, 40), rng.range(1, 40), 1),
            5 => (256, if thorough { 256 } else { rng.range(1, 16) }, 1),
            6 => (rng.range(1, 64), rng.range(1, 64), rng.range(1, 4)),
            _ => {
                if thorough && rng.chance(1, 10) {
                    (1024, 1024 / px.max(1), 1)
                } else {
                    (rng.range(1, 128), rng.range(1, 32), 1)
                }
            }
        };
        let (w, h, d) = match dim {
            1 => (w, 1, 1),
            2 => (w, h, 1),
            _ => (w, h, d),
        };
        let len = w * h * d * px;
        let data = payload(rng, len);
        let dimension = match dim {
            1 => TextureDimension::D1,
            2 => TextureDimension::D2,
            _ => TextureDimension::D3,
        };
        let img = Image::new(
            Extent3d { width: w as u32, height: h as u32, depth_or_array_layers: d as u32 },
            dimension,
            data,
            f,
            RenderAssetUsages::RENDER_WORLD | RenderAssetUsages::MAIN_WORLD,
        );
        out.stat(&format!("image.dim.{}", dim));
        out.stat(&format!("image.len_class.{}", len.checked_ilog2().map(|x| x as i32).unwrap_or(-1)));
        let malformed = rng.chance(1, 4);
        emit_image(out, rng, &img, &format!("image-{}-{}", seed, n), malformed);
        // the encoder is called again at once for an image with the very same extent and bytes but another format of the
        // same texel size, or another dimension (a codec that keeps state between two calls would mix them up)
        if rng.chance(1, 4) && len > 0 {
            let same_px: Vec<TextureFormat> = formats.iter().cloned().filter(|g| *g != f && g.block_copy_size(None).unwrap_or(4) as usize == px).collect();
            let mut sib = img.clone();
            if !same_px.is_empty() && rng.chance(2, 3) {
                sib.texture_descriptor.format = *rng.pick(&same_px);
            } else {
                sib.texture_descriptor.dimension = match (dimension, h, d) {
                    (TextureDimension::D1, _, _) => TextureDimension::D2,
                    (TextureDimension::D2, 1, 1) => TextureDimension::D1,
                    (TextureDimension::D2, _, _) => TextureDimension::D3,
                    (TextureDimension::D3, _, 1) => TextureDimension::D2,
                    (TextureDimension::D3, _, _) => TextureDimension::D3,
                };
            }
            out.stat("image.sibling");
            emit_image(out, rng, &sib, &format!("image-{}-{}s", seed, n), false);
        }
        n += 1;
    }
}

// ---------------------------------------------------------------- message

fn desc_msg(m: &verif::VMessage) -> String {
    use verif::VMessage::*;
    let u = |x: &Uuid| hex(x.as_bytes());
    match m {
        EntitySpawn { id } => format!("spawn {}", u(id)),
        EntityParented { entity_id, parent_id } => format!("parented {} {}", u(entity_id), u(parent_id)),
        EntityDelete { id } => format!("delete {}", u(id)),
        ComponentUpdated { id, name, data } => format!("comp {} {} {}", u(id), hex(name.as_bytes()), hex(data)),
        StandardMaterialUpdated { id, material } => format!("mat {} {}", u(id), hex(material)),
        MeshUpdated { id, url } => format!("mesh {} {}", u(id), hex(url.as_bytes())),
        ImageUpdated { id, url } => format!("image {} {}", u(id), hex(url.as_bytes())),
        AudioUpdated { id, url } => format!("audio {} {}", u(id), hex(url.as_bytes())),
        PromoteToHost => "promote".into(),
        NewHost { ip, port, web_port, max_transfer } => {
            let (v, b) = match ip {
                std::net::IpAddr::V4(a) => (4, a.octets().to_vec()),
                std::net::IpAddr::V6(a) => (6, a.octets().to_vec()),
            };
            format!("newhost {} {} {} {} {}", v, hex(&b), port, web_port, max_transfer)
        }
        RequestInitialSync => "reqsync".into(),
        FinishedInitialSync => "finsync".into(),
    }
}

fn gen_msg(rng: &mut Rng, kind: usize) -> verif::VMessage {
    use verif::VMessage::*;
    let mut id = |rng: &mut Rng| match rng.below(6) {
        0 => Uuid::nil(),
        1 => Uuid::max(),
        2 => Uuid::new_v4(),
        _ => Uuid::from_bytes(rng.bytes(16).try_into().unwrap()),
    };
    let bytes = |rng: &mut Rng| {
        if rng.chance(1, 3) {
            // short and mostly zero, like the head of every reflect payload: what a size-comparing packer sits on the fence about
            let n = rng.below(25);
            return (0..n).map(|_| if rng.chance(3, 4) { 0u8 } else { rng.u64() as u8 }).collect();
        }
        if rng.chance(1, 6) {
            // a few zero words and then entropy (a token, a hash): every length in a window, not a handful of round ones
            let n = rng.range(500, 800);
            let mut v = vec![0u8; 24];
            v.extend(rng.bytes(n));
            return v;
        }
        let n = *rng.pick(&[0usize, 1, 2, 7, 8, 9, 255, 256, 1000, 5000]);
        payload(rng, n)
    };
    let ext = |rng: &mut Rng| *rng.pick(&[0u64, 1, 255, 256, 65_535, 65_536, u32::MAX as u64, u64::MAX, 0x0102030405060708]);
    match kind {
        0 => EntitySpawn { id: id(rng) },
        1 => EntityParented { entity_id: id(rng), parent_id: id(rng) },
        2 => EntityDelete { id: id(rng) },
        3 => ComponentUpdated { id: id(rng), name: gen_string(rng), data: bytes(rng) },
        4 => StandardMaterialUpdated { id: id(rng), material: bytes(rng) },
        5 => MeshUpdated { id: id(rng), url: gen_string(rng) },
        6 => ImageUpdated { id: id(rng), url: gen_string(rng) },
        7 => AudioUpdated { id: id(rng), url: gen_string(rng) },
        8 => PromoteToHost,
        9 => {
            let ip = if rng.chance(1, 2) {
                std::net::IpAddr::V4(std::net::Ipv4Addr::from(rng.u32()))
            } else {
                std::net::IpAddr::V6(std::net::Ipv6Addr::from(<[u8; 16]>::try_from(rng.bytes(16)).unwrap()))
            };
            NewHost { ip, port: ext(rng) as u16, web_port: ext(rng) as u16, max_transfer: ext(rng) as usize }
        }
        10 => RequestInitialSync,
        _ => FinishedInitialSync,
    }
}

fn message_cases(out: &mut Out, rng: &mut Rng, seed: u64, count: usize) {
    for n in 0..count {
        let kind = n % 12;
        let m = gen_msg(rng, kind);
        let id = format!("msg-{}-{}", seed, n);
        let bin = verif::encode_message(&m);
        match verif::decode_message(&bin) {
            Ok(m2) if m2 == m => {}
            Ok(_) => out.oracle_fail("message", &id, "decode(encode(m)) != m"),
            Err(e) => out.oracle_fail("message", &id, &format!("decode(encode(m)) failed: {}", e)),
        }
        out.stat(&format!("message.kind.{}", kind));
        out.line(&format!("msg {} {} BIN {}", id, desc_msg(&m), hex(&bin)));
        if rng.chance(1, 2) {
            let mut bad = bin.clone();
            match rng.below(5) {
                0 => bad.truncate(rng.below(bad.len() + 1)),
                1 => {
                    let i = rng.below(bad.len().min(12));
                    bad[i] = rng.u64() as u8;
                }
                2 => bad = { let k = rng.below(40); rng.bytes(k) },
                3 => bad.extend({ let k = rng.range(1, 8); rng.bytes(k) }),
                _ => {
                    let i = rng.below(bad.len());
                    bad[i] ^= 1 << rng.below(8);
                }
            }
            let res = match verif::decode_message(&bad) {
                Ok(m) => {
                    out.stat("message.malformed.decoded");
                    desc_msg(&m)
                }
                Err(_) => {
                    out.stat("message.malformed.error");
                    "err".into()
                }
            };
            out.line(&format!("msgdec {}m BIN {} DEC {}", id, hex(&bad), res));
        }
    }
}
