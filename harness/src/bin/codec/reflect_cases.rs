//! Reflect codec cases: for registered component shapes (and StandardMaterial) derive the wire
//! descriptor from bevy's `TypeInfo` at run time, extract the value tree through the `Reflect`
//! API, and print both with the real bytes of `reflect_to_bin` and what `bin_to_reflect` returns.
use bevy::{
    pbr::OpaqueRendererMethod,
    prelude::*,
    reflect::{
        serde::SerializationData, FromReflect, GetTypeRegistration, ReflectFromReflect, ReflectRef, TypeInfo,
        TypeRegistry, VariantInfo,
    },
};
use std::collections::BTreeMap;
use bevy_sync::verif;
use bsharness::{catch, hex, rng::Rng};
use uuid::Uuid;

use crate::Out;

// ------------------------------------------------------------ descriptor (Ty) from TypeInfo

fn leaf_ty(path: &str) -> Option<&'static str> {
    // `Arc<T>` is a reflect value without Serialize/Deserialize (the payload of `Handle::Strong`):
    // nothing of that type can be encoded or decoded — the empty enum has no well-typed value either
    if path.starts_with("std::sync::Arc<") {
        return Some("e()");
    }
    Some(match path {
        "bool" => "b",
        "u8" | "i8" => "u1",
        "u16" | "i16" => "u2",
        "u32" | "i32" | "f32" => "u4",
        "u64" | "i64" | "f64" | "usize" | "isize" => "u8",
        "u128" | "i128" => "u16",
        "alloc::string::String" | "alloc::borrow::Cow<str>" => "s",
        "uuid::Uuid" => "g",
        "bevy_ecs::entity::Entity" => "u8",
        _ => return None,
    })
}

fn is_option(info: &TypeInfo) -> bool {
    let t = info.type_path_table();
    t.module_path() == Some("core::option") && t.ident() == Some("Option")
}

fn skipped(reg: &TypeRegistry, info: &TypeInfo, index: usize) -> bool {
    reg.get(info.type_id())
        .and_then(|r| r.data::<SerializationData>())
        .map(|d| d.is_field_skipped(index))
        .unwrap_or(false)
}

fn ty_of_id(reg: &TypeRegistry, id: std::any::TypeId, path: &str) -> Result<String, String> {
    match reg.get_type_info(id) {
        Some(info) => ty_of(reg, info),
        None => leaf_ty(path).map(|s| s.to_string()).ok_or(format!("unregistered:{}", path)),
    }
}

pub fn ty_of(reg: &TypeRegistry, info: &TypeInfo) -> Result<String, String> {
    if let Some(l) = leaf_ty(info.type_path()) {
        return Ok(l.to_string());
    }
    let join = |v: Vec<String>| v.join(",");
    Ok(match info {
        TypeInfo::Struct(s) => {
            let mut v = vec![];
            for (i, f) in s.iter().enumerate() {
                if skipped(reg, info, i) {
                    continue;
                }
                v.push(ty_of_id(reg, f.type_id(), f.type_path())?);
            }
            format!("t({})", join(v))
        }
        TypeInfo::TupleStruct(s) => {
            let mut v = vec![];
            for (i, f) in s.iter().enumerate() {
                if skipped(reg, info, i) {
                    continue;
                }
                v.push(ty_of_id(reg, f.type_id(), f.type_path())?);
            }
            format!("t({})", join(v))
        }
        TypeInfo::Tuple(s) => {
            let mut v = vec![];
            for f in s.iter() {
                v.push(ty_of_id(reg, f.type_id(), f.type_path())?);
            }
            format!("t({})", join(v))
        }
        TypeInfo::List(l) => format!("q({})", ty_of_id(reg, l.item_type_id(), l.item_type_path_table().path())?),
        TypeInfo::Array(a) => {
            let t = ty_of_id(reg, a.item_type_id(), a.item_type_path_table().path())?;
            format!("t({})", join(vec![t; a.capacity()]))
        }
        TypeInfo::Map(m) => format!(
            "q(t({},{}))",
            ty_of_id(reg, m.key_type_id(), m.key_type_path_table().path())?,
            ty_of_id(reg, m.value_type_id(), m.value_type_path_table().path())?
        ),
        TypeInfo::Enum(e) => {
            if is_option(info) {
                let VariantInfo::Tuple(t) = e.variant("Some").ok_or("option without Some")? else {
                    return Err("odd option".into());
                };
                let f = t.field_at(0).unwrap();
                return Ok(format!("o({})", ty_of_id(reg, f.type_id(), f.type_path())?));
            }
            let mut vs = vec![];
            for v in e.iter() {
                let mut fs = vec![];
                match v {
                    VariantInfo::Unit(_) => {}
                    VariantInfo::Tuple(t) => {
                        for f in t.iter() {
                            fs.push(ty_of_id(reg, f.type_id(), f.type_path())?);
                        }
                    }
                    VariantInfo::Struct(s) => {
                        for f in s.iter() {
                            fs.push(ty_of_id(reg, f.type_id(), f.type_path())?);
                        }
                    }
                }
                vs.push(format!("t({})", join(fs)));
            }
            format!("e({})", join(vs))
        }
        TypeInfo::Value(v) => return Err(format!("unknown-leaf:{}", v.type_path())),
    })
}

// ------------------------------------------------------------ value tree (Val) through the Reflect API

fn leaf_val(v: &dyn Reflect) -> Option<String> {
    macro_rules! int {
        ($t:ty, $w:expr) => {
            if let Some(x) = v.downcast_ref::<$t>() {
                let b = x.to_le_bytes();
                let mut n: u128 = 0;
                for (i, y) in b.iter().enumerate() {
                    n |= (*y as u128) << (8 * i);
                }
                return Some(format!("i{}:{}", $w, n));
            }
        };
    }
    int!(u8, 1);
    int!(i8, 1);
    int!(u16, 2);
    int!(i16, 2);
    int!(u32, 4);
    int!(i32, 4);
    int!(f32, 4);
    int!(u64, 8);
    int!(i64, 8);
    int!(f64, 8);
    int!(u128, 16);
    int!(i128, 16);
    if let Some(x) = v.downcast_ref::<usize>() {
        return Some(format!("i8:{}", x));
    }
    if let Some(x) = v.downcast_ref::<isize>() {
        return Some(format!("i8:{}", *x as i64 as u64));
    }
    if let Some(x) = v.downcast_ref::<bool>() {
        return Some(if *x { "T".into() } else { "F".into() });
    }
    if let Some(x) = v.downcast_ref::<String>() {
        return Some(format!("s:{}", hex(x.as_bytes())));
    }
    if let Some(x) = v.downcast_ref::<std::borrow::Cow<'static, str>>() {
        return Some(format!("s:{}", hex(x.as_bytes())));
    }
    if let Some(x) = v.downcast_ref::<Uuid>() {
        return Some(format!("g:{}", hex(x.as_bytes())));
    }
    if let Some(x) = v.downcast_ref::<Entity>() {
        return Some(format!("i8:{}", x.to_bits()));
    }
    None
}

pub fn val_of(reg: &TypeRegistry, v: &dyn Reflect) -> Result<String, String> {
    if let Some(l) = leaf_val(v) {
        return Ok(l);
    }
    let info = v.get_represented_type_info();
    let skip = |i: usize| info.map(|inf| skipped(reg, inf, i)).unwrap_or(false);
    let join = |v: Vec<String>| v.join(",");
    Ok(match v.reflect_ref() {
        ReflectRef::Struct(s) => {
            let mut o = vec![];
            for (i, f) in s.iter_fields().enumerate() {
                if !skip(i) {
                    o.push(val_of(reg, f)?);
                }
            }
            format!("t({})", join(o))
        }
        ReflectRef::TupleStruct(s) => {
            let mut o = vec![];
            for (i, f) in s.iter_fields().enumerate() {
                if !skip(i) {
                    o.push(val_of(reg, f)?);
                }
            }
            format!("t({})", join(o))
        }
        ReflectRef::Tuple(s) => {
            let mut o = vec![];
            for f in s.iter_fields() {
                o.push(val_of(reg, f)?);
            }
            format!("t({})", join(o))
        }
        ReflectRef::List(l) => {
            let mut o = vec![];
            for f in l.iter() {
                o.push(val_of(reg, f)?);
            }
            format!("q({})", join(o))
        }
        ReflectRef::Array(l) => {
            let mut o = vec![];
            for f in l.iter() {
                o.push(val_of(reg, f)?);
            }
            format!("t({})", join(o))
        }
        ReflectRef::Map(m) => {
            let mut o = vec![];
            for (k, x) in m.iter() {
                o.push(format!("t({},{})", val_of(reg, k)?, val_of(reg, x)?));
            }
            format!("q({})", join(o))
        }
        ReflectRef::Enum(e) => {
            let opt = info.map(is_option).unwrap_or(false);
            if opt {
                if e.variant_name() == "None" {
                    return Ok("n".into());
                }
                return Ok(format!("S({})", val_of(reg, e.field_at(0).ok_or("some without field")?)?));
            }
            let mut o = vec![];
            for f in e.iter_fields() {
                o.push(val_of(reg, f.value())?);
            }
            format!("v{}(t({}))", e.variant_index(), join(o))
        }
        ReflectRef::Value(x) => return Err(format!("unknown-leaf-value:{}", x.reflect_type_path())),
    })
}

// ------------------------------------------------------------ the family of shapes

#[derive(Component, Reflect, Default, PartialEq, Debug, Clone)]
#[reflect(Component)]
struct UnitC;

#[derive(Component, Reflect, Default, PartialEq, Debug, Clone)]
#[reflect(Component)]
struct Plain {
    a: i32,
    b: String,
    c: f32,
    d: bool,
    e: u64,
    f: i8,
    g: u16,
    h: f64,
    i: i64,
}

#[derive(Component, Reflect, Default, PartialEq, Debug, Clone)]
#[reflect(Component)]
struct Tup(u8, i16, f64);

#[derive(Component, Reflect, Default, PartialEq, Debug, Clone)]
#[reflect(Component)]
struct Newtype(u32);

#[derive(Component, Reflect, Default, PartialEq, Debug, Clone)]
#[reflect(Component)]
enum En {
    #[default]
    A,
    B(i32, String),
    C {
        x: f32,
        y: Option<u8>,
    },
    D(u8),
}

#[derive(Component, Reflect, Default, PartialEq, Debug, Clone)]
#[reflect(Component)]
struct Nested {
    s: Plain,
    e: En,
    v: Vec<Tup>,
    o: Option<Newtype>,
    arr: [u16; 3],
    t: (u8, String),
    vv: Vec<Vec<u8>>,
    oe: Option<En>,
    os: Option<String>,
}

#[derive(Component, Reflect, Default, PartialEq, Debug, Clone)]
#[reflect(Component)]
struct WithMap {
    // ordered maps: the iteration order of a hash map is not a function of its value, so a
    // HashMap field has no canonical byte form to compare (DESIGN.md, canonicalisation rules)
    m: BTreeMap<String, i32>,
    n: BTreeMap<u8, Vec<u16>>,
}

#[derive(Component, Reflect, Default, PartialEq, Debug, Clone)]
#[reflect(Component)]
struct Handles {
    img: Handle<Image>,
    mat: Handle<StandardMaterial>,
    o: Option<Handle<Image>>,
}

#[derive(Component, Reflect, Default, PartialEq, Debug, Clone)]
#[reflect(Component)]
struct Maths {
    v2: Vec2,
    v3: Vec3,
    v4: Vec4,
    q: Quat,
    m4: Mat4,
    id: Uuid,
    big: u128,
    neg: i128,
    sz: usize,
}

/// a registered component one of whose fields cannot be serialised (`Instant` has no `ReflectSerialize`): `reflect_to_bin`
/// returns an error for it, after having written the type path and the fields before it
#[derive(Component, Reflect)]
#[reflect(Component)]
struct Unencodable {
    secs: f32,
    started: bevy::utils::Instant,
}

/// a type with a reflected, hand-written `Default` whose collections are NOT empty: a decoder that
/// patches a default value instead of rebuilding the value keeps the default's leftovers
#[derive(Component, Reflect, PartialEq, Debug, Clone)]
#[reflect(Component, Default)]
struct DefList {
    items: Vec<u16>,
    map: BTreeMap<u8, u8>,
    inner: DefInner,
    n: i32,
}
#[derive(Reflect, PartialEq, Debug, Clone)]
#[reflect(Default)]
struct DefInner {
    names: Vec<String>,
    flag: Option<u8>,
}
impl Default for DefInner {
    fn default() -> Self {
        DefInner { names: vec!["a".into(), "b".into()], flag: Some(3) }
    }
}
impl Default for DefList {
    fn default() -> Self {
        DefList { items: vec![1, 2, 3], map: [(1u8, 1u8), (2, 2)].into_iter().collect(), inner: DefInner::default(), n: 7 }
    }
}

fn fbits32(rng: &mut Rng) -> f32 {
    const S: [u32; 10] = [
        0x7FC00000, 0x7FC00001, 0x7F800001, 0x7F800000, 0xFF800000, 0x80000000, 0, 1, 0x3F800000, 0x7F7FFFFF,
    ];
    f32::from_bits(if rng.chance(1, 3) { *rng.pick(&S) } else { rng.u32() })
}
fn fbits64(rng: &mut Rng) -> f64 {
    const S: [u64; 6] = [0x7FF8000000000000, 0x7FF0000000000001, 0x7FF0000000000000, 0x8000000000000000, 0, 1];
    f64::from_bits(if rng.chance(1, 3) { *rng.pick(&S) } else { rng.u64() })
}
fn int_ext(rng: &mut Rng) -> u64 {
    *rng.pick(&[0u64, 1, 127, 128, 255, 256, 32767, 32768, 65535, 0x7FFFFFFF, 0x80000000, 0xFFFFFFFF, u64::MAX, 1 << 63])
        ^ if rng.chance(1, 2) { 0 } else { rng.u64() }
}
fn string(rng: &mut Rng) -> String {
    match rng.below(6) {
        0 => String::new(),
        1 => "a".into(),
        2 => "héllo ✓ 日本語 🎉".into(),
        3 => (0..rng.range(1, 30)).map(|_| char::from_u32(rng.range(32, 126) as u32).unwrap()).collect(),
        4 => (0..rng.range(1, 12))
            .map(|_| loop {
                if let Some(c) = char::from_u32(rng.below(0x11_0000) as u32) {
                    break c;
                }
            })
            .collect(),
        _ => "long".repeat(rng.range(50, 300)),
    }
}
fn plain(rng: &mut Rng) -> Plain {
    Plain {
        a: int_ext(rng) as i32,
        b: string(rng),
        c: fbits32(rng),
        d: rng.chance(1, 2),
        e: int_ext(rng),
        f: int_ext(rng) as i8,
        g: int_ext(rng) as u16,
        h: fbits64(rng),
        i: int_ext(rng) as i64,
    }
}
fn en(rng: &mut Rng) -> En {
    match rng.below(4) {
        0 => En::A,
        1 => En::B(int_ext(rng) as i32, string(rng)),
        2 => En::C { x: fbits32(rng), y: if rng.chance(1, 2) { None } else { Some(int_ext(rng) as u8) } },
        _ => En::D(int_ext(rng) as u8),
    }
}
fn weak<T: Asset>(rng: &mut Rng) -> Handle<T> {
    Handle::Weak(AssetId::Uuid { uuid: Uuid::from_bytes(rng.bytes(16).try_into().unwrap()) })
}

struct Case {
    value: Box<dyn Reflect>,
    /// concrete-type comparison after FromReflect (None when the type has no total equality, i.e. NaN inside)
    rebuild_eq: Box<dyn Fn(&dyn Reflect) -> Option<bool>>,
}

fn mk<T: Reflect + FromReflect + PartialEq + Clone>(v: T) -> Case {
    let orig = v.clone();
    Case {
        value: Box::new(v),
        rebuild_eq: Box::new(move |d: &dyn Reflect| T::from_reflect(d).map(|x| x == orig)),
    }
}

fn register(reg: &mut TypeRegistry) {
    fn r<T: Reflect + GetTypeRegistration + FromReflect + bevy::reflect::TypePath>(reg: &mut TypeRegistry) {
        reg.register::<T>();
        reg.register_type_data::<T, ReflectFromReflect>();
    }
    r::<UnitC>(reg);
    r::<Plain>(reg);
    r::<Tup>(reg);
    r::<Newtype>(reg);
    r::<En>(reg);
    r::<Nested>(reg);
    r::<WithMap>(reg);
    reg.register::<Vec<u16>>();
    r::<Handles>(reg);
    r::<Maths>(reg);
    r::<DefList>(reg);
    reg.register::<Unencodable>();
    r::<bevy::pbr::CascadeShadowConfig>(reg);
    reg.register::<Vec<String>>();
    r::<Transform>(reg);
    r::<Name>(reg);
    r::<Visibility>(reg);
    r::<PointLight>(reg);
    r::<SpotLight>(reg);
    r::<DirectionalLight>(reg);
    r::<Handle<Mesh>>(reg);
    r::<Handle<StandardMaterial>>(reg);
    r::<StandardMaterial>(reg);
    // what setup_cascade_registrations adds for Handle<StandardMaterial>
    reg.register::<Color>();
    reg.register::<Image>();
    reg.register::<Handle<Image>>();
    reg.register::<Option<Handle<Image>>>();
    reg.register::<AlphaMode>();
    reg.register::<ParallaxMappingMethod>();
    reg.register::<OpaqueRendererMethod>();
}

fn color(rng: &mut Rng) -> Color {
    let f = |rng: &mut Rng| (rng.below(1001) as f32) / 1000.0;
    match rng.below(5) {
        0 => Color::srgba(f(rng), f(rng), f(rng), f(rng)),
        1 => Color::linear_rgba(f(rng), f(rng), f(rng), f(rng)),
        2 => Color::hsla(f(rng) * 360.0, f(rng), f(rng), f(rng)),
        3 => Color::oklcha(f(rng), f(rng), f(rng) * 360.0, f(rng)),
        _ => Color::xyza(f(rng), f(rng), f(rng), f(rng)),
    }
}

fn gen_case(rng: &mut Rng, shape: usize) -> (&'static str, Case) {
    let f = |rng: &mut Rng| (rng.below(2001) as f32 - 1000.0) / 8.0;
    match shape {
        0 => ("UnitC", mk(UnitC)),
        1 => ("Plain", mk(plain(rng))),
        2 => ("Tup", mk(Tup(int_ext(rng) as u8, int_ext(rng) as i16, fbits64(rng)))),
        3 => ("Newtype", mk(Newtype(int_ext(rng) as u32))),
        4 => ("En", mk(en(rng))),
        5 => (
            "Nested",
            mk(Nested {
                s: plain(rng),
                e: en(rng),
                v: (0..*rng.pick(&[0usize, 1, 2, 17, 300]))
                    .map(|_| Tup(int_ext(rng) as u8, int_ext(rng) as i16, fbits64(rng)))
                    .collect(),
                o: if rng.chance(1, 2) { None } else { Some(Newtype(int_ext(rng) as u32)) },
                arr: [int_ext(rng) as u16, int_ext(rng) as u16, int_ext(rng) as u16],
                t: (int_ext(rng) as u8, string(rng)),
                vv: (0..rng.below(4)).map(|_| { let n = rng.below(40); rng.bytes(n) }).collect(),
                oe: if rng.chance(1, 2) { None } else { Some(en(rng)) },
                os: if rng.chance(1, 2) { None } else { Some(string(rng)) },
            }),
        ),
        6 => {
            let mut m = BTreeMap::new();
            for _ in 0..rng.below(6) {
                m.insert(string(rng), int_ext(rng) as i32);
            }
            let mut n = BTreeMap::new();
            for _ in 0..rng.below(4) {
                n.insert(int_ext(rng) as u8, (0..rng.below(5)).map(|_| int_ext(rng) as u16).collect());
            }
            ("WithMap", mk(WithMap { m, n }))
        }
        7 => (
            "Handles",
            mk(Handles {
                img: weak(rng),
                mat: weak(rng),
                o: if rng.chance(1, 2) { None } else { Some(weak(rng)) },
            }),
        ),
        8 => (
            "Maths",
            mk(Maths {
                v2: Vec2::new(fbits32(rng), fbits32(rng)),
                v3: Vec3::new(fbits32(rng), fbits32(rng), fbits32(rng)),
                v4: Vec4::new(fbits32(rng), fbits32(rng), fbits32(rng), fbits32(rng)),
                q: Quat::from_xyzw(fbits32(rng), fbits32(rng), fbits32(rng), fbits32(rng)),
                m4: Mat4::from_cols_array(&std::array::from_fn(|_| fbits32(rng))),
                id: Uuid::from_bytes(rng.bytes(16).try_into().unwrap()),
                big: (int_ext(rng) as u128) << 64 | int_ext(rng) as u128,
                neg: -((int_ext(rng) >> 1) as i128),
                sz: int_ext(rng) as usize,
            }),
        ),
        9 => (
            "Transform",
            mk(Transform {
                translation: Vec3::new(fbits32(rng), fbits32(rng), fbits32(rng)),
                rotation: Quat::from_xyzw(f(rng), f(rng), f(rng), f(rng)),
                scale: Vec3::new(f(rng), f(rng), f(rng)),
            }),
        ),
        10 => ("Name", mk(Name::new(string(rng)))),
        11 => ("Visibility", mk(*rng.pick(&[Visibility::Inherited, Visibility::Hidden, Visibility::Visible]))),
        12 => {
            let p = PointLight {
                color: color(rng),
                intensity: f(rng),
                range: f(rng),
                radius: f(rng),
                shadows_enabled: rng.chance(1, 2),
                shadow_depth_bias: f(rng),
                shadow_normal_bias: f(rng),
            };
            let orig = p.clone();
            (
                "PointLight",
                Case {
                    value: Box::new(p),
                    rebuild_eq: Box::new(move |d| {
                        PointLight::from_reflect(d).map(|x| {
                            x.color == orig.color
                                && x.intensity.to_bits() == orig.intensity.to_bits()
                                && x.range.to_bits() == orig.range.to_bits()
                                && x.radius.to_bits() == orig.radius.to_bits()
                                && x.shadows_enabled == orig.shadows_enabled
                                && x.shadow_depth_bias.to_bits() == orig.shadow_depth_bias.to_bits()
                                && x.shadow_normal_bias.to_bits() == orig.shadow_normal_bias.to_bits()
                        })
                    }),
                },
            )
        }
        13 => ("Handle<Mesh>", mk(weak::<Mesh>(rng))),
        16 => {
            // collections shorter than, equal to and longer than the default's
            let n = *rng.pick(&[0usize, 1, 2, 3, 4, 9]);
            let mut map = BTreeMap::new();
            for _ in 0..*rng.pick(&[0usize, 1, 2, 5]) {
                map.insert(int_ext(rng) as u8, int_ext(rng) as u8);
            }
            (
                "DefList",
                mk(DefList {
                    items: (0..n).map(|_| int_ext(rng) as u16).collect(),
                    map,
                    inner: DefInner {
                        names: (0..*rng.pick(&[0usize, 1, 2, 3])).map(|_| string(rng)).collect(),
                        flag: if rng.chance(1, 2) { None } else { Some(int_ext(rng) as u8) },
                    },
                    n: int_ext(rng) as i32,
                }),
            )
        }
        17 => {
            let c: bevy::pbr::CascadeShadowConfig = bevy::pbr::CascadeShadowConfigBuilder {
                num_cascades: rng.range(1, 6),
                minimum_distance: 0.1,
                maximum_distance: 10.0 + rng.below(1000) as f32,
                first_cascade_far_bound: 2.0 + rng.below(5) as f32,
                overlap_proportion: 0.2,
            }
            .build();
            let orig = c.clone();
            (
                "CascadeShadowConfig",
                Case {
                    value: Box::new(c),
                    rebuild_eq: Box::new(move |d| {
                        bevy::pbr::CascadeShadowConfig::from_reflect(d).map(|x| {
                            x.bounds.len() == orig.bounds.len()
                                && x.bounds.iter().zip(orig.bounds.iter()).all(|(a, b)| a.to_bits() == b.to_bits())
                                && x.overlap_proportion.to_bits() == orig.overlap_proportion.to_bits()
                                && x.minimum_distance.to_bits() == orig.minimum_distance.to_bits()
                        })
                    }),
                },
            )
        }
        14 => ("Handle<StandardMaterial>", mk(weak::<StandardMaterial>(rng))),
        _ => {
            let opt = |rng: &mut Rng| if rng.chance(1, 2) { None } else { Some(weak::<Image>(rng)) };
            let m = StandardMaterial {
                base_color: color(rng),
                base_color_texture: opt(rng),
                emissive: LinearRgba::new(f(rng), f(rng), f(rng), f(rng)),
                emissive_texture: opt(rng),
                perceptual_roughness: f(rng),
                metallic: f(rng),
                metallic_roughness_texture: opt(rng),
                reflectance: f(rng),
                normal_map_texture: opt(rng),
                flip_normal_map_y: rng.chance(1, 2),
                occlusion_texture: opt(rng),
                double_sided: rng.chance(1, 2),
                unlit: rng.chance(1, 2),
                fog_enabled: rng.chance(1, 2),
                alpha_mode: match rng.below(6) {
                    0 => AlphaMode::Opaque,
                    1 => AlphaMode::Mask(f(rng)),
                    2 => AlphaMode::Blend,
                    3 => AlphaMode::Premultiplied,
                    4 => AlphaMode::Add,
                    _ => AlphaMode::Multiply,
                },
                depth_bias: f(rng),
                depth_map: opt(rng),
                parallax_depth_scale: f(rng),
                parallax_mapping_method: if rng.chance(1, 2) {
                    ParallaxMappingMethod::Occlusion
                } else {
                    ParallaxMappingMethod::Relief { max_steps: rng.u32() }
                },
                max_parallax_layer_count: f(rng),
                opaque_render_method: *rng.pick(&[
                    OpaqueRendererMethod::Forward,
                    OpaqueRendererMethod::Deferred,
                    OpaqueRendererMethod::Auto,
                ]),
                deferred_lighting_pass_id: rng.u64() as u8,
                ..Default::default()
            };
            let orig = m.clone();
            (
                "StandardMaterial",
                Case {
                    value: Box::new(m),
                    rebuild_eq: Box::new(move |d| {
                        StandardMaterial::from_reflect(d).map(|x| {
                            x.base_color == orig.base_color
                                && x.base_color_texture == orig.base_color_texture
                                && x.emissive == orig.emissive
                                && x.emissive_texture == orig.emissive_texture
                                && x.normal_map_texture == orig.normal_map_texture
                                && x.occlusion_texture == orig.occlusion_texture
                                && x.depth_map == orig.depth_map
                                && x.metallic_roughness_texture == orig.metallic_roughness_texture
                                && x.alpha_mode == orig.alpha_mode
                                && x.unlit == orig.unlit
                                && x.double_sided == orig.double_sided
                                && x.metallic.to_bits() == orig.metallic.to_bits()
                                && x.perceptual_roughness.to_bits() == orig.perceptual_roughness.to_bits()
                                && x.opaque_render_method == orig.opaque_render_method
                                && x.deferred_lighting_pass_id == orig.deferred_lighting_pass_id
                        })
                    }),
                },
            )
        }
    }
}

pub const SHAPES: usize = 18;

pub fn run(out: &mut Out, rng: &mut Rng, seed: u64, count: usize) {
    let mut reg = TypeRegistry::default();
    register(&mut reg);
    let mut skipped_shapes = std::collections::BTreeSet::new();
    for n in 0..count {
        // now and then a value that cannot be encoded (a nested field without ReflectSerialize: the crate skips such a value)
        // right before an ordinary one: a failed encoding must leave nothing behind
        if n % 7 == 3 {
            let bad = Unencodable { secs: 1.0, started: bevy::utils::Instant::now() };
            match verif::reflect_to_bin(&bad, &reg) {
                Err(_) => out.stat("reflect.unencodable.rejected"),
                Ok(_) => out.stat("reflect.unencodable.encoded"),
            }
        }
        let shape = n % SHAPES;
        let (label, case) = gen_case(rng, shape);
        let id = format!("reflect-{}-{}", seed, n);
        let v = case.value.as_ref();
        let info = v.get_represented_type_info().unwrap();
        let path = info.type_path().to_string();
        let ty = match ty_of(&reg, info) {
            Ok(t) => t,
            Err(e) => {
                if skipped_shapes.insert(label) {
                    out.line(&format!("#NOTE reflect shape {} skipped: {}", label, e));
                }
                out.stat(&format!("reflect.skipped.{}", label));
                continue;
            }
        };
        let val = match val_of(&reg, v) {
            Ok(t) => t,
            Err(e) => {
                if skipped_shapes.insert(label) {
                    out.line(&format!("#NOTE reflect shape {} skipped: {}", label, e));
                }
                out.stat(&format!("reflect.skipped.{}", label));
                continue;
            }
        };
        let bin = match verif::reflect_to_bin(v, &reg) {
            Ok(b) => b,
            Err(e) => {
                out.oracle_fail("reflect", &id, &format!("reflect_to_bin failed for {}: {}", label, e));
                continue;
            }
        };
        out.stat(&format!("reflect.shape.{}", label));
        let bin2 = bin.clone();
        let reg_ref = &reg;
        let dec = catch(std::panic::AssertUnwindSafe(move || verif::bin_to_reflect(&bin2, reg_ref)));
        let (decval, rebin) = match dec {
            Err(p) => {
                out.oracle_fail("reflect", &id, &format!("bin_to_reflect panicked for {}: {}", label, p));
                ("panic".to_string(), "-".to_string())
            }
            Ok(None) => {
                out.oracle_fail("reflect", &id, &format!("bin_to_reflect rejected reflect_to_bin output for {}", label));
                ("none".to_string(), "-".to_string())
            }
            Ok(Some(d)) => {
                // oracle 1: reflect-equal (NaN makes reflect_partial_eq false by design: reported separately)
                match d.reflect_partial_eq(v) {
                    Some(true) => out.stat("reflect.partial_eq.true"),
                    Some(false) => out.stat("reflect.partial_eq.false_nan_or_diff"),
                    None => out.stat("reflect.partial_eq.none"),
                }
                // oracle 2: an equal concrete value can be rebuilt
                match (case.rebuild_eq)(d.as_ref()) {
                    Some(true) => out.stat("reflect.rebuild.equal"),
                    Some(false) => {
                        // equality of the concrete type is not reflexive on NaN: decide by bytes below
                        out.stat("reflect.rebuild.unequal_by_partialeq");
                    }
                    None => out.oracle_fail("reflect", &id, &format!("FromReflect failed for {}", label)),
                }
                // oracle 3: re-encodes to the same bytes
                let rebin = verif::reflect_to_bin(d.as_ref(), &reg);
                match &rebin {
                    Ok(b) if *b == bin => {}
                    Ok(_) => out.oracle_fail("reflect", &id, &format!("re-encoding differs for {}", label)),
                    Err(e) => out.oracle_fail("reflect", &id, &format!("re-encoding failed for {}: {}", label, e)),
                }
                let dv = val_of(&reg, d.as_ref()).unwrap_or_else(|e| format!("ERR:{}", e));
                (dv, rebin.map(|b| hex(&b)).unwrap_or("-".into()))
            }
        };
        // a decoy entry before and after: lookup must be by path
        out.line(&format!(
            "reflect {} REG {}=u4;{}={};{}=t() PATH {} VAL {} BIN {} DECVAL {} REBIN {}",
            id,
            hex(b"decoy::Before"),
            hex(path.as_bytes()),
            ty,
            hex(b"decoy::After"),
            hex(path.as_bytes()),
            val,
            hex(&bin),
            decval,
            rebin
        ));
    }
    // large values (encodings of 60 KiB .. a few MiB, around 64 KiB): implementation oracle only
    let sizes: &[usize] = &[60_000, 65_530, 65_536, 65_600, 70_000, 200_000, 1_100_000, 3_000_000];
    for (k, size) in sizes.iter().enumerate() {
        for shape in 0..4 {
            let (label, case) = match shape {
                0 => ("Name", mk(Name::new("n".repeat(*size)))),
                1 => (
                    "Nested",
                    mk(Nested {
                        s: Plain { c: 1.5, h: -2.5, ..plain(rng) },
                        e: En::A,
                        v: (0..size / 11 + 1).map(|i| Tup(int_ext(rng) as u8, int_ext(rng) as i16, i as f64 / 4.0)).collect(),
                        o: None,
                        arr: [1, 2, 3],
                        t: (0, string(rng)),
                        vv: vec![],
                        oe: None,
                        os: None,
                    }),
                ),
                2 => (
                    "Nested",
                    mk(Nested {
                        s: Plain { c: 1.5, h: -2.5, ..plain(rng) },
                        e: En::A,
                        v: vec![],
                        o: None,
                        arr: [1, 2, 3],
                        t: (0, string(rng)),
                        vv: vec![rng.bytes(*size), rng.bytes(3)],
                        oe: None,
                        os: Some("tail".into()),
                    }),
                ),
                _ => {
                    let mut m = BTreeMap::new();
                    // bevy_reflect's map handling is quadratic in the entry count (125 000 entries: 220 s): capped
                    for i in 0..(*size).min(200_000) / 24 + 1 {
                        m.insert(format!("key-{:012}", i), i as i32);
                    }
                    ("WithMap", mk(WithMap { m, n: BTreeMap::new() }))
                }
            };
            let id = format!("reflect-{}-large{}-{}", seed, k, shape);
            let t0 = std::time::Instant::now();
            let _g = Timer(id.clone(), t0);
            let v = case.value.as_ref();
            out.stat("reflect.large_oracle_only");
            let bin = match verif::reflect_to_bin(v, &reg) {
                Ok(b) => b,
                Err(e) => {
                    out.oracle_fail("reflect", &id, &format!("reflect_to_bin failed for a {} of about {} bytes: {}", label, size, e));
                    continue;
                }
            };
            let bin2 = bin.clone();
            let reg_ref = &reg;
            match catch(std::panic::AssertUnwindSafe(move || verif::bin_to_reflect(&bin2, reg_ref))) {
                Err(p) => out.oracle_fail("reflect", &id, &format!("bin_to_reflect panicked for a {} of {} encoded bytes: {}", label, bin.len(), p)),
                Ok(None) => out.oracle_fail("reflect", &id, &format!("bin_to_reflect rejected reflect_to_bin output for a {} of {} encoded bytes", label, bin.len())),
                Ok(Some(d)) => {
                    if (case.rebuild_eq)(d.as_ref()) != Some(true) {
                        out.oracle_fail("reflect", &id, &format!("decoded {} of {} encoded bytes is not the value encoded", label, bin.len()));
                    }
                    match verif::reflect_to_bin(d.as_ref(), &reg) {
                        Ok(b) if b == bin => {}
                        _ => out.oracle_fail("reflect", &id, &format!("re-encoding differs for a {} of {} encoded bytes", label, bin.len())),
                    }
                }
            }
        }
    }
}

struct Timer(String, std::time::Instant);
impl Drop for Timer { fn drop(&mut self) { if std::env::var("VERIF_TIMING").is_ok() { eprintln!("{} {:?}", self.0, self.1.elapsed()); } } }
