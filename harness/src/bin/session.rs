//! Session histories against the real crate.
//! usage: session <family> <seed> <count> [quick|thorough]
//! families: ent comp parent burst  (more are added as slices are built)
//! Output: JSON lines; every history starts with {"ev":"history",...} and ends with {"ev":"end",...}.
use std::io::Write;

use bsharness::rng::Rng;
use bsharness::session::*;
use serde_json::json;

struct Ctx {
    s: Session,
    rng: Rng,
    next_h: u32,
    live: Vec<u32>, // handles believed alive
    nclients: u32,
    // peers whose unacknowledged amount stopped moving (the other end is not acknowledging at all): peer -> that amount
    dead_unacked: std::collections::BTreeMap<String, u64>,
    stall: std::collections::BTreeMap<String, (u64, usize)>,
}

impl Ctx {
    fn peers(&self) -> u32 {
        self.nclients + 1
    }
    fn any_peer(&mut self) -> u32 {
        self.rng.below(self.peers() as usize) as u32
    }
    fn fresh(&mut self) -> u32 {
        self.next_h += 1;
        self.next_h
    }
    /// step peers in a random order, each 0..=2 times (different rates)
    fn random_steps(&mut self) {
        let n = self.peers();
        let mut order: Vec<u32> = vec![];
        for p in 0..n {
            let k = match self.rng.below(6) {
                0 => 0,
                1..=4 => 1,
                _ => 2,
            };
            for _ in 0..k {
                order.push(p);
            }
        }
        // shuffle
        for i in (1..order.len()).rev() {
            let j = self.rng.below(i + 1);
            order.swap(i, j);
        }
        for p in order {
            self.s.step(p);
        }
    }
    fn lockstep(&mut self, rounds: usize) {
        for _ in 0..rounds {
            for p in 0..self.peers() {
                self.s.step(p);
            }
        }
    }
    /// step everybody until nothing has been received and nothing is queued for `silent` rounds
    fn drain(&mut self, cap: usize) -> (bool, usize) {
        let mut silent = 0;
        // a download runs on a worker thread and renet's acknowledgements and resends run in real time: rounds spent waiting for
        // nothing but those are slept through and, for up to five seconds in all, not counted against the cap
        let mut waited = std::time::Duration::ZERO;
        let mut cap = cap;
        let mut round = 0;
        while round < cap {
            let before = self.s.trace.len();
            for p in 0..self.peers() {
                self.s.step(p);
            }
            let mut quiet = true;
            let mut only_transfers = true;
            let mut unacked_now: std::collections::BTreeMap<String, u64> = Default::default();
            for v in &self.s.trace[before..] {
                if v["ev"] == "frame" {
                    if v["recv"].as_array().map(|a| !a.is_empty()).unwrap_or(false) {
                        quiet = false;
                        only_transfers = false;
                    }
                    let st = &v["state"];
                    if st["tracker"]["queue"].as_array().map(|a| !a.is_empty()).unwrap_or(false) {
                        quiet = false;
                        only_transfers = false;
                    }
                    if st["marks"].as_u64().unwrap_or(0) > 0 {
                        quiet = false;
                        only_transfers = false;
                    }
                    if let Some(x) = st["xfer"].as_object() {
                        if x["to_apply"].as_u64().unwrap_or(0) > 0 {
                            quiet = false;
                            only_transfers = false;
                        }
                        if x["queued"].as_u64().unwrap_or(0) + x["active"].as_u64().unwrap_or(0) > 0 {
                            quiet = false;
                        }
                    }
                    // sent and not acknowledged: a dropped datagram comes back after renet's resend time, however many frames pass
                    if let Some(links) = st["unacked_links"].as_object() {
                        for (k, n) in links {
                            unacked_now.insert(format!("{}/{}", v["peer"], k), n.as_u64().unwrap_or(0));
                        }
                    }
                }
            }
            // ... unless a peer's amount has not moved for twice renet's resend time: the other side is not acknowledging at all
            // (a link that is dead without either end having noticed — D7's stuck hand-overs), which is not traffic; remembered
            // across drains for as long as the amount stays what it was
            for (p, n) in unacked_now {
                if n == 0 {
                    self.stall.remove(&p);
                    self.dead_unacked.remove(&p);
                    continue;
                }
                // a dead link stays dead while its amount only grows (new sends, never an acknowledgement)
                if let Some(d) = self.dead_unacked.get(&p).cloned() {
                    if n >= d {
                        self.dead_unacked.insert(p.clone(), n);
                        continue;
                    }
                    self.dead_unacked.remove(&p);
                }
                let e = self.stall.entry(p.clone()).or_insert((n, 0));
                if e.0 == n {
                    e.1 += 1;
                } else {
                    *e = (n, 0);
                }
                if e.1 >= 300 {
                    self.dead_unacked.insert(p, n);
                } else {
                    quiet = false;
                }
            }
            if self.s.panicked.is_some() {
                return (false, round);
            }
            round += 1;
            if quiet {
                silent += 1;
                if silent >= 3 {
                    return (true, round);
                }
            } else {
                silent = 0;
                if only_transfers && waited < std::time::Duration::from_secs(5) {
                    let t = std::time::Duration::from_millis(2);
                    std::thread::sleep(t);
                    waited += t;
                    cap += 1;
                }
            }
        }
        (false, cap)
    }
    fn wait_connected(&mut self, c: u32, cap: usize) -> bool {
        for _ in 0..cap {
            self.s.step(0);
            self.s.step(c);
            let last = self.s.trace.iter().rev().find(|v| v["ev"] == "frame" && v["peer"] == c).cloned();
            if let Some(v) = last {
                if v["state"]["client_state"] == "Connected" && v["state"]["sync_finished"].as_u64().unwrap_or(0) >= 1 {
                    return true;
                }
            }
        }
        false
    }
}

fn small_val(rng: &mut Rng, ty: Ty) -> CVal {
    let mut v = CVal::new(ty, rng.below(1000) as i64 + 1);
    if ty == Ty::V {
        v.list = (0..rng.below(5)).map(|_| rng.below(256) as u64).collect();
    }
    v
}

const SIMPLE_TYS: [Ty; 7] = [Ty::A, Ty::B, Ty::E, Ty::V, Ty::Transform, Ty::Name, Ty::Visibility];

/// fault enumeration (C08): message kind x receiver condition x direction, then a fresh operation
const FAULT_CASES: usize = 24;

fn fault_history(seed: u64, idx: usize, out: &mut impl Write) {
    let mut rng = Rng::new(seed.wrapping_mul(7_000_003) ^ (idx as u64) ^ 0xFA17);
    let case = idx % FAULT_CASES;
    let to_host = (idx / FAULT_CASES) % 2 == 1; // direction: false = host -> client, true = client -> host
    let nclients: u32 = if (idx / (2 * FAULT_CASES)) % 2 == 1 { 2 } else { 1 };
    // registration sets: case 3 registers B on the sender only
    let mut host_cfg = PeerCfg::default();
    let mut client_cfg = PeerCfg::default();
    if (17..20).contains(&case) {
        // references inside a payload: a SkinnedMesh names its joints by uuid
        host_cfg.registered.push(Ty::Skinned);
        client_cfg.registered.push(Ty::Skinned);
    }
    if case >= 20 {
        // published assets with content at the edge of their domain (legal values an application can hold)
        for cfg in [&mut host_cfg, &mut client_cfg] {
            cfg.materials = true;
            cfg.meshes = true;
            cfg.audios = true;
        }
    }
    if case == 3 {
        let without_b: Vec<Ty> = PeerCfg::default().registered.into_iter().filter(|t| *t != Ty::B).collect();
        if to_host { host_cfg.registered = without_b } else { client_cfg.registered = without_b }
    }
    let mut c = Ctx { s: Session::new(false, host_cfg), rng: rng.fork(), next_h: 0, live: vec![], nclients, dead_unacked: Default::default(), stall: Default::default() };
    for k in 0..nclients {
        let cfg = if k == 0 || case >= 17 { PeerCfg { registered: client_cfg.registered.clone(), materials: client_cfg.materials, meshes: client_cfg.meshes, audios: client_cfg.audios, ..PeerCfg::default() } } else { PeerCfg::default() };
        c.s.add_client(cfg, rng.below(3));
    }
    let names = ["comp+despawn_cmd", "comp+despawn_between", "comp+delete_same_frame", "comp_unregistered_on_receiver",
        "parented+child_despawn_cmd", "parented+parent_despawn_cmd", "parented+parent_despawn_between", "parented+child_despawn_between",
        "delete+delete_crossing", "delete+despawn_cmd", "spawn+delete_same_frame", "comp_burst+despawn_cmd",
        "parented_chain+despawn_cmd", "comp+sender_despawns_after_write", "reparent+old_parent_despawn_cmd", "delete_parent_with_child",
        "comp_large_value", "skinned+joint_despawn_between", "skinned+joint_despawn_cmd", "skinned+joint_deleted_by_sender",
        "asset_edge_mesh", "asset_edge_image", "asset_edge_audio", "reqsync+dangling_parent"];
    writeln!(out, "{}", json!({"ev":"history","family":"fault","id":format!("fault-{}-{}", seed, idx),"clients":nclients,"v6":false,
        "case":names[case],"to_host":to_host})).unwrap();
    let types: serde_json::Map<String, serde_json::Value> =
        ALL_TYS.iter().map(|t| (t.name().to_string(), json!(t.type_path()))).collect();
    c.s.trace.push(json!({"ev":"types","map":types,"registered":PeerCfg::default().registered.iter().map(|t| t.name()).collect::<Vec<_>>()}));
    c.s.start_host();
    c.lockstep(1);
    let mut connected = true;
    for cl in 1..=nclients {
        c.s.connect(cl);
        connected &= c.wait_connected(cl, 60);
    }
    c.s.trace.push(json!({"ev":"connected","ok":connected}));
    let (snd, rcv) = if to_host { (1u32, 0u32) } else { (0u32, 1u32) };
    // two synchronized entities known everywhere: x (target) and y (future parent)
    let x = c.fresh();
    let y = c.fresh();
    let z = c.fresh();
    c.s.spawn(snd, x, true, &[CVal::new(Ty::A, 1)], None);
    c.s.spawn(snd, y, true, &[], None);
    c.s.spawn(snd, z, true, &[], None);
    let d = c.drain(40);
    c.s.trace.push(json!({"ev":"drain","quiescent":d.0,"rounds":d.1}));
    // the sender's operation, its frame (message leaves), then the receiver's local operation and frame
    match case {
        0 => { c.s.write(snd, x, &CVal::new(Ty::A, 2), &[]); c.s.step(snd); c.s.despawn_in_frame(rcv, x); }
        1 => { c.s.write(snd, x, &CVal::new(Ty::A, 2), &[]); c.s.step(snd); c.s.despawn(rcv, x); }
        2 => { c.s.write(snd, x, &CVal::new(Ty::A, 2), &[]); c.s.step(snd); c.s.despawn(snd, x); c.s.step(snd); }
        3 => { c.s.write(snd, x, &CVal::new(Ty::B, 2), &[]); c.s.step(snd); }
        4 => { c.s.set_parent(snd, x, y); c.s.step(snd); c.s.despawn_in_frame(rcv, x); }
        5 => { c.s.set_parent(snd, x, y); c.s.step(snd); c.s.despawn_in_frame(rcv, y); }
        6 => { c.s.set_parent(snd, x, y); c.s.step(snd); c.s.despawn(rcv, y); }
        7 => { c.s.set_parent(snd, x, y); c.s.step(snd); c.s.despawn(rcv, x); }
        8 => { c.s.despawn(snd, x); c.s.despawn(rcv, x); c.s.step(snd); }
        9 => { c.s.despawn(snd, x); c.s.step(snd); c.s.despawn_in_frame(rcv, x); }
        10 => { let n = c.fresh(); c.s.spawn(snd, n, true, &[CVal::new(Ty::A, 5)], None); c.s.step(snd); c.s.despawn(snd, n); c.s.step(snd); }
        11 => { for k in 0..3 { c.s.write(snd, x, &CVal::new(Ty::A, 10 + k), &[]); c.s.step(snd); } c.s.despawn_in_frame(rcv, x); }
        12 => { c.s.set_parent(snd, x, y); c.s.set_parent(snd, y, z); c.s.step(snd); c.s.despawn_in_frame(rcv, y); }
        13 => { c.s.write(snd, x, &CVal::new(Ty::A, 2), &[]); c.s.despawn(snd, x); c.s.step(snd); }
        14 => { c.s.set_parent(snd, x, y); let d = c.drain(40); c.s.trace.push(json!({"ev":"drain","quiescent":d.0,"rounds":d.1}));
                c.s.set_parent(snd, x, z); c.s.step(snd); c.s.despawn_in_frame(rcv, y); }
        15 => { c.s.set_parent(snd, x, y); let d = c.drain(40); c.s.trace.push(json!({"ev":"drain","quiescent":d.0,"rounds":d.1}));
               c.s.despawn(snd, y); c.s.step(snd); }
        17 | 18 | 19 => {
            // x is skinned over the joints y, z everywhere; a second update naming both crosses the removal of y
            c.s.write(snd, x, &CVal::new(Ty::Skinned, 100), &[y, z]);
            let d = c.drain(60);
            c.s.trace.push(json!({"ev":"drain","quiescent":d.0,"rounds":d.1}));
            c.s.write(snd, x, &CVal::new(Ty::Skinned, 200), &[z, y, z]);
            match case {
                17 => { c.s.step(snd); c.s.despawn(rcv, y); }
                18 => { c.s.step(snd); c.s.despawn_in_frame(rcv, y); }
                _ => { c.s.despawn(snd, y); c.s.step(snd); c.s.step(snd); }
            }
        }
        23 => {
            // a parent despawned on its own (plain `despawn`): its child keeps a `Parent` naming a dead entity on every peer —
            // and then somebody joins: the snapshot is built from exactly that world
            c.s.set_parent(snd, x, y);
            let d = c.drain(40);
            c.s.trace.push(json!({"ev":"drain","quiescent":d.0,"rounds":d.1}));
            c.s.despawn(snd, y);
            let d = c.drain(40);
            c.s.trace.push(json!({"ev":"drain","quiescent":d.0,"rounds":d.1}));
            let id = c.s.add_client(PeerCfg::default(), c.rng.below(3));
            c.nclients += 1;
            c.s.connect(id);
            let ok = c.wait_connected(id, 60);
            c.s.trace.push(json!({"ev":"late_join","peer":id,"ok":ok}));
        }
        20 | 21 | 22 => {
            let kind = match case { 20 => AKind::Mesh, 21 => AKind::Image, _ => AKind::Audio };
            for variant in 0..3u64 {
                let id = uuid::Uuid::from_bytes(c.rng.bytes(16).try_into().unwrap());
                c.s.asset_insert_edge(snd, kind, id, variant);
            }
            c.s.step(snd);
            for _ in 0..40 {
                c.lockstep(1);
                std::thread::sleep(std::time::Duration::from_millis(2));
                if c.s.panicked.is_some() {
                    break;
                }
            }
        }
        _ => {
            // one component value of 70 – 300 kB: a single protocol message far beyond one packet (nothing bounds a value)
            let mut v = CVal::new(Ty::V, 9);
            let len = 70_000 + c.rng.below(230_000);
            v.list = (0..len).map(|i| (i % 251) as u64).collect();
            c.s.write(snd, x, &v, &[]);
            c.s.step(snd);
            // a message of this size crosses the channel in slices over many frames: wait (bounded) until every peer holds it
            for _ in 0..400 {
                c.lockstep(1);
                let mut all = true;
                let want = c.s.trace.iter().rev().find(|f| f["ev"] == "frame" && f["peer"] == snd && !f["state"].is_null())
                    .and_then(|f| f["state"]["ents"].as_array().and_then(|a| a.iter().find_map(|e| e["comps"]["V"].as_str().filter(|s| s.starts_with("sha:")).map(|s| s.to_string()))));
                for p in 0..c.peers() {
                    let got = c.s.trace.iter().rev().find(|f| f["ev"] == "frame" && f["peer"] == p && !f["state"].is_null())
                        .map(|f| f["state"]["ents"].as_array().map(|a| a.iter().any(|e| e["comps"]["V"].as_str().map(|s| Some(s.to_string()) == want).unwrap_or(false))).unwrap_or(false));
                    if got != Some(true) {
                        all = false;
                    }
                }
                if all || c.s.panicked.is_some() {
                    break;
                }
            }
        }
    }
    // the receiver's frame in which the message is polled; sometimes the receiver is one frame late
    if c.rng.chance(1, 4) { c.s.step(snd); }
    c.s.step(rcv);
    c.s.trace.push(json!({"ev":"fault_done"}));
    c.lockstep(3);
    // afterwards replication must still work: a fresh entity with a value, from the receiver
    let f = c.fresh();
    c.s.spawn(rcv, f, true, &[CVal::new(Ty::A, 77)], None);
    c.lockstep(2);
    c.s.write(rcv, f, &CVal::new(Ty::A, 78), &[]);
    let d = c.drain(60);
    c.s.trace.push(json!({"ev":"drain","quiescent":d.0,"rounds":d.1,"final":true,"fresh":f}));
    let panicked = c.s.panicked.clone();
    c.s.emit(out);
    writeln!(out, "{}", json!({"ev":"end","panic":panicked.map(|(p, m)| json!({"peer":p,"msg":m}))})).unwrap();
}

/// C06, timing of the download: first GET answered with headers + half of the OLD body and finished only when released,
/// every later GET answered at once with the NEW body
fn slow_endpoint_case(c: &mut Ctx) {
    use std::io::{Read, Write as _};
    use std::sync::atomic::{AtomicBool, AtomicUsize, Ordering};
    use std::sync::{mpsc, Arc, Mutex};
    let listener = std::net::TcpListener::bind("127.0.0.1:0").unwrap();
    let port = listener.local_addr().unwrap().port();
    let old_n = c.rng.range(40, 4000);
    let new_n = c.rng.range(1, 4000);
    let old: Vec<u8> = (0..old_n).map(|i| 0x11 ^ (i as u8)).collect();
    let new: Vec<u8> = (0..new_n).map(|i| 0x22 ^ (i as u8).wrapping_mul(3)).collect();
    let half_sent = Arc::new(AtomicBool::new(false));
    let gets = Arc::new(AtomicUsize::new(0));
    let (tx, rx) = mpsc::channel::<()>();
    let rx = Arc::new(Mutex::new(rx));
    {
        let (old, new, half_sent, gets, rx) = (old.clone(), new.clone(), half_sent.clone(), gets.clone(), rx.clone());
        std::thread::spawn(move || {
            for conn in listener.incoming() {
                let Ok(mut s) = conn else { continue };
                let (old, new, half_sent, gets, rx) = (old.clone(), new.clone(), half_sent.clone(), gets.clone(), rx.clone());
                std::thread::spawn(move || {
                    let mut req = vec![];
                    let mut b = [0u8; 1];
                    while !req.ends_with(b"\r\n\r\n") {
                        match s.read(&mut b) {
                            Ok(1) => req.push(b[0]),
                            _ => return,
                        }
                    }
                    let k = gets.fetch_add(1, Ordering::SeqCst);
                    if k == 0 {
                        let _ = write!(s, "HTTP/1.1 200 OK\r\nContent-Length: {}\r\nConnection: close\r\n\r\n", old.len());
                        let _ = s.write_all(&old[..old.len() / 2]);
                        let _ = s.flush();
                        half_sent.store(true, Ordering::SeqCst);
                        let _ = rx.lock().unwrap().recv_timeout(std::time::Duration::from_secs(20));
                        let _ = s.write_all(&old[old.len() / 2..]);
                    } else {
                        let _ = write!(s, "HTTP/1.1 200 OK\r\nContent-Length: {}\r\nConnection: close\r\n\r\n", new.len());
                        let _ = s.write_all(&new);
                    }
                    let _ = s.flush();
                });
            }
        });
    }
    let id = uuid::Uuid::from_bytes(c.rng.bytes(16).try_into().unwrap());
    let url = format!("http://127.0.0.1:{}/audio/{}", port, id);
    let d = c.drain(80);
    c.s.trace.push(json!({"ev":"drain","quiescent":d.0,"rounds":d.1}));
    // the scenario needs exactly one reader of the first answer: the others get only the second announcement's content
    c.s.announce_external_audio(id, &url);
    let mut waited = 0;
    while !half_sent.load(Ordering::SeqCst) && waited < 400 {
        c.lockstep(1);
        std::thread::sleep(std::time::Duration::from_millis(2));
        waited += 1;
    }
    std::thread::sleep(std::time::Duration::from_millis(150));
    c.lockstep(2);
    let early: Vec<bool> = (1..=c.nclients).map(|p| c.s.audio_bytes(p, id).is_some()).collect();
    c.s.announce_external_audio(id, &url);
    let mut rounds = 0;
    while rounds < 400 && !(1..=c.nclients).all(|p| c.s.audio_bytes(p, id).as_deref() == Some(&new[..])) {
        c.lockstep(1);
        std::thread::sleep(std::time::Duration::from_millis(2));
        rounds += 1;
    }
    let got_new: Vec<bool> = (1..=c.nclients).map(|p| c.s.audio_bytes(p, id).as_deref() == Some(&new[..])).collect();
    let _ = tx.send(());
    std::thread::sleep(std::time::Duration::from_millis(250));
    c.lockstep(20);
    let fin: Vec<&str> = (1..=c.nclients)
        .map(|p| match c.s.audio_bytes(p, id) {
            Some(b) if b == new => "new",
            Some(b) if b == old => "old",
            Some(_) => "other",
            None => "none",
        })
        .collect();
    c.s.trace.push(json!({"ev":"slow_endpoint","uuid":bsharness::hex(id.as_bytes()),"half_sent":half_sent.load(Ordering::SeqCst),
        "applied_before_release":early,"new_applied":got_new,"final":fin,"gets":gets.load(Ordering::SeqCst),"old_len":old_n,"new_len":new_n}));
}

/// connection life cycles (C15): start hosting / connect / remove transports / reconnect, with the
/// frames of host and client interleaved arbitrarily and worlds of any size
fn conn_history(seed: u64, idx: usize, thorough: bool, out: &mut impl Write) {
    let mut rng = Rng::new(seed.wrapping_mul(9_000_011) ^ (idx as u64) ^ 0xC0);
    let nclients: u32 = if rng.chance(1, 3) { 2 } else { 1 };
    let mut c = Ctx { s: Session::new(rng.chance(1, 5), PeerCfg::default()), rng: rng.fork(), next_h: 0, live: vec![], nclients, dead_unacked: Default::default(), stall: Default::default() };
    for _ in 0..nclients {
        c.s.add_client(PeerCfg::default(), rng.below(3));
    }
    writeln!(out, "{}", json!({"ev":"history","family":"conn","id":format!("conn-{}-{}", seed, idx),"clients":nclients,"v6":false})).unwrap();
    let types: serde_json::Map<String, serde_json::Value> =
        ALL_TYS.iter().map(|t| (t.name().to_string(), json!(t.type_path()))).collect();
    c.s.trace.push(json!({"ev":"types","map":types,"registered":PeerCfg::default().registered.iter().map(|t| t.name()).collect::<Vec<_>>()}));
    c.s.describe_peers();
    // some prior content on the host so that the snapshot is not empty (sometimes large: many frames)
    let n0 = if thorough && rng.chance(1, 4) { rng.range(200, 900) } else { rng.below(12) };
    for k in 0..n0 {
        let h = c.fresh();
        let comps = if k % 2 == 0 { vec![CVal::new(Ty::A, k as i64), CVal::new(Ty::Name, k as i64)] } else { vec![] };
        c.s.spawn(0, h, true, &comps, None);
    }
    // one history in ten: a crowded world — a snapshot of several hundred messages reaching the joiner in bursts
    if idx % 10 == 3 {
        let k = rng.range(280, 520);
        for j in 0..k {
            let h = c.fresh();
            c.s.spawn(0, h, true, &[CVal::new(Ty::A, j as i64)], None);
        }
    }
    // one history in ten: a heavy world — a snapshot of 3 - 8 MiB, around the reliable channel's memory budget of 5 MiB
    // (above it renet refuses the join; below it the snapshot takes dozens of frames)
    if idx % 10 == 7 {
        let k = rng.range(6, 17);
        // the byte length of every message the snapshot of this world consists of, as the crate encodes them
        let (spawn_len, marker_len) = Session::plain_msg_lens();
        let mut sizes: Vec<usize> = vec![];
        for j in 0..k {
            let h = c.fresh();
            let mut v = CVal::new(Ty::V, 9 + j as i64);
            v.list = (0..512 * 1024).map(|i| ((i + j) % 251) as u64).collect();
            c.s.spawn(0, h, true, &[v, CVal::new(Ty::A, j as i64)], None);
            sizes.push(spawn_len);
            if let Some(e) = c.s.local_entity(0, h) {
                for ty in [Ty::V, Ty::A] {
                    if let Some(n) = c.s.comp_msg_len(0, e, ty) {
                        sizes.push(n);
                    }
                }
            }
        }
        sizes.push(marker_len);
        c.s.trace.push(json!({"ev":"heavy_world","entities":k,"bytes":k * 512 * 1024,"msg_sizes":sizes}));
    }
    // frames before anything is started
    for _ in 0..rng.below(3) { c.s.step(0); c.s.step(1); }
    c.s.start_host();
    // hosting sessions of any length (one frame included) before anybody joins: stop, idle, start again
    if rng.chance(1, 3) {
        for _ in 0..rng.range(1, 3) {
            for _ in 0..rng.range(1, 4) {
                c.s.step(0);
            }
            c.s.stop_host(0);
            for _ in 0..rng.below(5) {
                c.s.step(0);
            }
            c.s.restart_host();
        }
    }
    let steps = if thorough { rng.range(30, 90) } else { rng.range(20, 50) };
    let mut started: Vec<bool> = vec![false; (nclients + 1) as usize];
    let heavy = idx % 10 == 7 || idx % 10 == 3;
    if heavy {
        // the host alone settles its world first: a client that is already connected when the values are first detected gets
        // them twice (live broadcast and snapshot), which doubles what the channel has to hold
        for _ in 0..6 {
            c.s.step(0);
        }
    }
    for step_no in 0..steps {
        // a heavy world is joined once, plainly: the point is the size of the snapshot
        let op = if heavy { if step_no == 0 { 0 } else { 13 } } else { rng.below(14) };
        match op {
            0 => {
                let cl = if heavy { 1 } else { rng.range(1, nclients as usize) as u32 };
                if !started[cl as usize] {
                    c.s.connect(cl);
                    started[cl as usize] = true;
                }
            }
            1 => {
                // the application removes the client's transport (at any moment: connecting or connected)
                let cl = rng.range(1, nclients as usize) as u32;
                if started[cl as usize] && c.s.peers[cl as usize].app.world().contains_resource::<bevy_renet::renet::transport::NetcodeClientTransport>() {
                    c.s.disconnect(cl);
                }
            }
            2 => {
                // reconnect
                let cl = rng.range(1, nclients as usize) as u32;
                if started[cl as usize] && !c.s.peers[cl as usize].app.world().contains_resource::<bevy_renet::renet::transport::NetcodeClientTransport>() {
                    c.s.connect(cl);
                }
            }
            3 => {
                if rng.chance(1, 3) {
                    let h = c.fresh();
                    c.s.spawn(0, h, true, &[CVal::new(Ty::A, 5)], None);
                }
            }
            5 => {
                // a reconnect inside one frame: the transport is removed and a new one inserted before the client runs again
                let cl = rng.range(1, nclients as usize) as u32;
                if started[cl as usize] && c.s.peers[cl as usize].app.world().contains_resource::<bevy_renet::renet::transport::NetcodeClientTransport>() {
                    c.s.disconnect(cl);
                    c.s.connect(cl);
                }
            }
            4 => {
                // a join attempt that ends without ever connecting (refused / timed out / abandoned at renet level)
                let cl = rng.range(1, nclients as usize) as u32;
                let connecting = c.s.peers[cl as usize].app.world().get_resource::<bevy_renet::renet::RenetClient>().map(|r| r.is_connecting()).unwrap_or(false);
                if started[cl as usize] && connecting {
                    c.s.renet_disconnect(cl);
                }
            }
            _ => {}
        }
        // arbitrary interleaving of the peers' frames
        let p = rng.below((nclients + 1) as usize) as u32;
        c.s.step(p);
        if rng.chance(1, 2) {
            let q = rng.below((nclients + 1) as usize) as u32;
            c.s.step(q);
        }
    }
    c.lockstep(12);
    // a large snapshot takes many frames to cross the channel: the session is not drained before every connected client
    // has seen the end of the snapshot it asked for (bounded wait)
    for _ in 0..600 {
        let mut waiting = false;
        for p in 1..=nclients {
            let frames: Vec<&serde_json::Value> = c.s.trace.iter().filter(|v| v["ev"] == "frame" && v["peer"] == p && !v["state"].is_null()).collect();
            let Some(last) = frames.last() else { continue };
            if last["state"]["client_state"] != "Connected" || last["state"]["client_connected"] != true {
                continue;
            }
            let mut got = false;
            for f in frames.iter().rev() {
                if f["state"]["client_state"] != "Connected" && f["state"]["client_state"] != "Connecting" {
                    break;
                }
                if f["recv"].as_array().map(|a| a.iter().any(|m| m["msg"]["k"] == "finsync")).unwrap_or(false) {
                    got = true;
                    break;
                }
            }
            if !got {
                waiting = true;
            }
        }
        if !waiting {
            break;
        }
        c.lockstep(1);
    }
    let d = c.drain(60);
    c.s.trace.push(json!({"ev":"drain","quiescent":d.0,"rounds":d.1,"final":true}));
    let panicked = c.s.panicked.clone();
    c.s.emit(out);
    writeln!(out, "{}", json!({"ev":"end","panic":panicked.map(|(p, m)| json!({"peer":p,"msg":m}))})).unwrap();
}

fn history(family: &str, seed: u64, idx: usize, thorough: bool, out: &mut impl Write) {
    if family == "fault" {
        return fault_history(seed, idx, out);
    }
    if family == "conn" {
        return conn_history(seed, idx, thorough, out);
    }
    let mut rng = Rng::new(seed.wrapping_mul(1_000_003) ^ (idx as u64) ^ 0x5E55);
    let mut nclients = match rng.below(10) {
        0..=4 => 1,
        5..=7 => 2,
        _ => 3,
    } as u32;
    // chains of hand-overs (the same peer hosts, is demoted and hosts again): two peers, three to five promotions
    let promo_chain = family == "promo" && idx % 4 == 2;
    if promo_chain {
        nclients = 1;
    }
    let v6 = rng.chance(1, 5);
    let mut cfg_rng = rng.fork();
    let mut cfg_calls = 0usize;
    // one fix history in four: the host replicates light kinds that some clients never set up themselves (what lands on a peer
    // is decided by its type registry, not by its own `sync_component` calls; the crate's example client is such a peer)
    let fix_uneven = family == "fix" && idx % 4 == 3;
    let mut cfg_for = |family: &str| -> PeerCfg {
        let mut cfg = PeerCfg::default();
        cfg_calls += 1;
        if family == "filter" {
            // every subset of registered types, every on/off combination of the three switches, per peer
            cfg.registered = [Ty::A, Ty::B, Ty::E, Ty::V, Ty::U].iter().cloned().filter(|_| cfg_rng.chance(1, 2)).collect();
            if idx % 4 == 2 {
                cfg.registered.push(Ty::Skinned);
            }
            cfg.registered.push(Ty::HMat);
            cfg.registered.push(Ty::HMesh);
            cfg.materials = cfg_rng.chance(1, 2);
            cfg.meshes = cfg_rng.chance(1, 2);
            cfg.audios = cfg_rng.chance(1, 2);
        }
        if family == "promo" {
            // uuid assets live through a hand-over like everything else
            cfg.materials = true;
            cfg.meshes = true;
            cfg.audios = true;
        }
        if family == "join" {
            cfg.registered.push(Ty::HMat);
            cfg.registered.push(Ty::HMesh);
            // every on/off combination of the three switches, per peer (mostly on)
            cfg.materials = cfg_rng.chance(4, 5);
            cfg.meshes = cfg_rng.chance(4, 5);
            cfg.audios = cfg_rng.chance(4, 5);
        }
        if family == "asset" {
            cfg.registered.push(Ty::HMat);
            cfg.registered.push(Ty::HMesh);
            // the three switches: all on in two histories of three, otherwise any combination (the same on every peer of the
            // history: the endless exchanges one looks for need both ends of a link to behave alike)
            let combo = if idx % 3 == 2 { 1 + (seed as usize + idx / 3) % 7 } else { 7 };
            cfg.materials = combo & 1 != 0;
            cfg.meshes = combo & 2 != 0;
            cfg.audios = combo & 4 != 0;
        }
        if family == "skin" {
            cfg.registered.push(Ty::Skinned);
        }
        if family == "fix" {
            cfg.registered = vec![Ty::A, Ty::Transform, Ty::Visibility, Ty::PointLight, Ty::SpotLight, Ty::DirLight];
            if fix_uneven && (cfg_calls == 2 || (cfg_calls > 2 && cfg_rng.chance(1, 2))) {
                cfg.registered = vec![Ty::A, Ty::Transform, Ty::Visibility];
                if cfg_rng.chance(1, 3) {
                    cfg.registered.push(*cfg_rng.pick(&[Ty::PointLight, Ty::SpotLight, Ty::DirLight]));
                }
            }
        }
        cfg
    };
    let mut c = Ctx { s: Session::new(v6, cfg_for(family)), rng, next_h: 0, live: vec![], nclients, dead_unacked: Default::default(), stall: Default::default() };
    for _ in 0..nclients {
        let shift = c.rng.below(4);
        c.s.add_client(cfg_for(family), shift);
    }
    writeln!(out, "{}", json!({"ev":"history","family":family,"id":format!("{}-{}-{}", family, seed, idx),"clients":nclients,"v6":v6})).unwrap();

    let types: serde_json::Map<String, serde_json::Value> =
        ALL_TYS.iter().map(|t| (t.name().to_string(), json!(t.type_path()))).collect();
    c.s.trace.push(json!({"ev":"types","map":types,"registered":PeerCfg::default().registered.iter().map(|t| t.name()).collect::<Vec<_>>()}));
    // marks made before any connection exists
    let pre = if family == "ent" || family == "comp" { c.rng.below(3) } else { 0 };
    for _ in 0..pre {
        let p = c.any_peer();
        let h = c.fresh();
        let comps = if c.rng.chance(1, 2) { vec![small_val(&mut c.rng, Ty::A)] } else { vec![] };
        c.s.spawn(p, h, true, &comps, None);
        c.live.push(h);
        if c.rng.chance(1, 2) {
            c.s.step(p);
        }
    }
    c.s.describe_peers();
    c.s.start_host();
    c.lockstep(1);
    c.s.step(0);
    let mut connected = true;
    for cl in 1..=nclients {
        c.s.connect(cl);
        connected &= c.wait_connected(cl, 60);
    }
    c.s.trace.push(json!({"ev":"connected","ok":connected}));

    let rounds = if thorough { c.rng.range(8, 30) } else { c.rng.range(4, 14) };
    match family {
        "ent" => {
            let mut left: Vec<u32> = vec![];
            for _ in 0..rounds {
                for _ in 0..c.rng.below(4) {
                    if c.live.is_empty() || c.rng.chance(3, 5) {
                        let p = c.any_peer();
                        let h = c.fresh();
                        let ncomp = c.rng.below(3);
                        let comps: Vec<CVal> = (0..ncomp).map(|_| { let t = *c.rng.pick(&SIMPLE_TYS); small_val(&mut c.rng, t) }).collect();
                        // sometimes under an existing synchronized entity (a later despawn of that parent is not recursive)
                        let parent = if !c.live.is_empty() && c.rng.chance(1, 3) { Some(*c.rng.pick(&c.live.clone())) } else { None };
                        c.s.spawn(p, h, true, &comps, parent);
                        c.live.push(h);
                    } else {
                        let i = c.rng.below(c.live.len());
                        let h = c.live[i];
                        let p = c.any_peer();
                        if c.s.despawn(p, h) {
                            c.live.swap_remove(i);
                        }
                    }
                }
                if c.rng.chance(1, 6) {
                    // a few idle frames
                    let k = c.rng.range(1, 4);
                    c.lockstep(k);
                }
                // a short-lived entity: one peer spawns and despawns it while the others stand still
                if c.rng.chance(1, 5) {
                    let p = c.any_peer();
                    let h = c.fresh();
                    c.s.spawn(p, h, true, &[], None);
                    for _ in 0..c.rng.range(1, 2) {
                        c.s.step(p);
                    }
                    c.s.despawn(p, h);
                    for _ in 0..c.rng.range(1, 2) {
                        c.s.step(p);
                    }
                }
                // a client leaves the session in the middle of it
                if c.nclients >= 2 && c.rng.chance(1, 12) {
                    let who = c.rng.range(1, c.nclients as usize) as u32;
                    if !left.contains(&who) {
                        c.s.disconnect(who);
                        left.push(who);
                    }
                }
                c.random_steps();
            }
            c.s.trace.push(json!({"ev":"left","peers":left}));
        }
        "comp" | "burst" => {
            // a few entities from random origins, then single-writer phases per key separated by drains
            let ne = c.rng.range(1, 3);
            for _ in 0..ne {
                let p = c.any_peer();
                let h = c.fresh();
                let comps = if c.rng.chance(1, 2) { let t = *c.rng.pick(&SIMPLE_TYS); vec![small_val(&mut c.rng, t)] } else { vec![] };
                c.s.spawn(p, h, true, &comps, None);
                c.live.push(h);
            }
            let d = c.drain(40);
            c.s.trace.push(json!({"ev":"drain","quiescent":d.0,"rounds":d.1}));
            let phases = if thorough { c.rng.range(3, 7) } else { c.rng.range(2, 5) };
            // what each peer wrote last to each key, in any earlier phase
            let mut own_last: std::collections::BTreeMap<(u32, u32, &'static str), CVal> = Default::default();
            let mut prev_key: Option<(u32, Ty)> = None;
            for _ in 0..phases {
                let mut writer = c.any_peer();
                // often the key of the previous phase again, with another writer
                let (h, ty) = match (prev_key, c.rng.chance(2, 3)) {
                    (Some(k), true) => k,
                    _ => (*c.rng.pick(&c.live.clone()), *c.rng.pick(&SIMPLE_TYS)),
                };
                prev_key = Some((h, ty));
                // ... and often a peer that has been the writer of this key before (A, then B, then A again)
                let earlier: Vec<u32> = own_last.keys().filter(|k| k.1 == h && k.2 == ty.name()).map(|k| k.0).collect();
                if !earlier.is_empty() && c.rng.chance(1, 2) {
                    writer = *c.rng.pick(&earlier);
                }
                let mut nwrites = c.rng.range(1, 6);
                // values that are not equal to themselves (a NaN float): only the oracle judges these keys
                let nan = ty == Ty::B && c.rng.chance(1, 3);
                // a peer that simply puts back the value it had written the last time it was the writer
                let back = own_last.contains_key(&(writer, h, ty.name())) && c.rng.chance(1, 2);
                if back {
                    nwrites = 1;
                }
                c.s.trace.push(json!({"ev":"phase","writer":writer,"h":h,"ty":ty.name(),"nan":nan}));
                let mut last_v: Option<CVal> = None;
                // other entities written by one other peer each while this phase lasts
                let mut side_writer: std::collections::BTreeMap<u32, u32> = Default::default();
                for k in 0..nwrites {
                    // sometimes the application re-writes the value it wrote last (touching it through DerefMut),
                    // sometimes a peer returns to the value it wrote the last time it was the writer of this key
                    let v = match (&last_v, c.rng.chance(1, 4)) {
                        (Some(v), true) => v.clone(),
                        _ => match (own_last.get(&(writer, h, ty.name())), k == 0 && (back || c.rng.chance(1, 3))) {
                            (Some(v), true) => v.clone(),
                            _ => small_val(&mut c.rng, ty),
                        },
                    };
                    let v = if nan { CVal::new(Ty::B, 1_000_000 + c.rng.below(4) as i64) } else { v };
                    last_v = Some(v.clone());
                    own_last.insert((writer, h, ty.name()), v.clone());
                    c.s.write(writer, h, &v, &[]);
                    // unrelated traffic on other entities from other peers
                    if c.rng.chance(1, 4) {
                        let p = c.any_peer();
                        let h2 = c.fresh();
                        c.s.spawn(p, h2, true, &[], None);
                    }
                    // ... and, now and then, another peer writes the same kind of component on another entity (its only writer in
                    // this phase): pushes from the network and local writes of one type meet in one frame of a peer
                    if c.rng.chance(1, 3) && c.live.len() >= 2 {
                        let others: Vec<u32> = c.live.iter().cloned().filter(|x| *x != h).collect();
                        let h2 = *c.rng.pick(&others);
                        let p2 = match side_writer.get(&h2) {
                            Some(p) => *p,
                            None => {
                                let p = c.any_peer();
                                side_writer.insert(h2, p);
                                p
                            }
                        };
                        let v2 = small_val(&mut c.rng, ty);
                        c.s.trace.push(json!({"ev":"side_write","peer":p2,"h":h2,"ty":ty.name()}));
                        c.s.write(p2, h2, &v2, &[]);
                    }
                    match c.rng.below(4) {
                        0 => {
                            // writer runs ahead: only the writer steps
                            let k = c.rng.range(1, 3);
                            for _ in 0..k {
                                c.s.step(writer);
                            }
                        }
                        1 => c.lockstep(1),
                        2 => c.random_steps(),
                        _ => {
                            c.s.step(writer);
                        }
                    }
                }
                let d = c.drain(40);
                c.s.trace.push(json!({"ev":"drain","quiescent":d.0,"rounds":d.1}));
            }
            // one history in five: a burst — several large values (30 - 50 kB each, more than one packet budget together)
            // written to different entities between two frames of one peer
            if idx % 5 == 3 {
                let w = c.any_peer();
                let k = c.rng.range(2, 5);
                let mut hs = vec![];
                for _ in 0..k {
                    let h = c.fresh();
                    c.s.spawn(w, h, true, &[], None);
                    c.live.push(h);
                    hs.push(h);
                }
                let d = c.drain(40);
                c.s.trace.push(json!({"ev":"drain","quiescent":d.0,"rounds":d.1}));
                for (j, h) in hs.iter().enumerate() {
                    c.s.trace.push(json!({"ev":"phase","writer":w,"h":h,"ty":"V","nan":false,"burst":true}));
                    let mut v = CVal::new(Ty::V, 40 + j as i64);
                    let len = 30_000 + c.rng.below(60_000);
                    v.list = (0..len).map(|i| ((i + j) % 251) as u64).collect();
                    c.s.write(w, *h, &v, &[]);
                }
                c.s.step(w);
                // a burst of this size overruns the localhost socket buffer now and then; renet resends after a real-time
                // delay, however fast the frames run: wait (bounded) until every peer holds what the writer holds
                for _ in 0..800 {
                    c.lockstep(1);
                    let mut all = true;
                    for h in &hs {
                        let want = c.s.local_entity(w, *h).and_then(|e| c.s.comp_bytes(w, e, Ty::V));
                        for p in 0..c.peers() {
                            let got = c.s.local_entity(p, *h).and_then(|e| c.s.comp_bytes(p, e, Ty::V));
                            if got != want {
                                all = false;
                            }
                        }
                    }
                    if all || c.s.panicked.is_some() {
                        break;
                    }
                    std::thread::sleep(std::time::Duration::from_millis(2));
                }
                let d = c.drain(80);
                c.s.trace.push(json!({"ev":"drain","quiescent":d.0,"rounds":d.1}));
            }
            // one history in twelve: a wide world — more than a thousand entities whose component is written in one and the same
            // frame of one peer (a simulation step touching everything), once or in consecutive frames
            if idx % 12 == 7 {
                let w = if c.rng.chance(1, 2) { 0 } else { c.any_peer() };
                let n = c.rng.range(1100, 1500);
                c.s.trace.push(json!({"ev":"epoch","writer":w,"crowd":n}));
                let mut hs = vec![];
                for k in 0..n {
                    let h = c.fresh();
                    c.s.spawn(w, h, true, &[CVal::new(Ty::A, k as i64)], None);
                    hs.push(h);
                    if k % 50 == 49 {
                        c.lockstep(1);
                    }
                }
                let d = c.drain(300);
                c.s.trace.push(json!({"ev":"drain","quiescent":d.0,"rounds":d.1}));
                let rounds = c.rng.range(1, 3);
                c.s.trace.push(json!({"ev":"wide","writer":w,"hs":hs,"ty":"A","rounds":rounds}));
                for r in 0..rounds {
                    for (k, h) in hs.iter().enumerate() {
                        c.s.write(w, *h, &CVal::new(Ty::A, (r as i64 + 1) * 10_000 + k as i64), &[]);
                    }
                    c.s.step(w);
                }
                // bounded wait (a frame's worth of a thousand messages can overrun the socket buffer: renet resends in real time)
                for _ in 0..120 {
                    c.lockstep(1);
                    let mut all = true;
                    for h in hs.iter().rev().take(100).chain(hs.iter().take(100)) {
                        let want = c.s.local_entity(w, *h).and_then(|e| c.s.comp_bytes(w, e, Ty::A));
                        for p in 0..c.peers() {
                            let got = c.s.local_entity(p, *h).and_then(|e| c.s.comp_bytes(p, e, Ty::A));
                            if got != want {
                                all = false;
                            }
                        }
                    }
                    if all || c.s.panicked.is_some() {
                        break;
                    }
                    std::thread::sleep(std::time::Duration::from_millis(15));
                }
                let d = c.drain(80);
                c.s.trace.push(json!({"ev":"drain","quiescent":d.0,"rounds":d.1,"wide":true}));
            }
        }
        "parent" => {
            let ne = c.rng.range(2, 5);
            for _ in 0..ne {
                let p = c.any_peer();
                let h = c.fresh();
                // hierarchies created in the marking frame
                let parent = if !c.live.is_empty() && c.rng.chance(1, 3) {
                    let cand = *c.rng.pick(&c.live.clone());
                    if c.s.handles.get(&cand).map(|x| x.0) == Some(p) { Some(cand) } else { None }
                } else {
                    None
                };
                c.s.spawn(p, h, true, &[], parent);
                c.live.push(h);
            }
            let d = c.drain(40);
            c.s.trace.push(json!({"ev":"drain","quiescent":d.0,"rounds":d.1}));
            let mut cur_parent: std::collections::BTreeMap<u32, u32> = Default::default();
            // what every peer itself set last for a child, and who moved the child last
            let mut set_by: std::collections::BTreeMap<(u32, u32), u32> = Default::default();
            let mut last_mover: std::collections::BTreeMap<u32, u32> = Default::default();
            for _ in 0..rounds {
                let mut p = c.any_peer();
                let live = c.live.clone();
                let mut child = *c.rng.pick(&live);
                let mut parent = *c.rng.pick(&live);
                // the three steps as one unit: p1 puts the child under a, another peer moves it under b, p1 puts it back under a
                // (drained in between: nothing is concurrent)
                if c.peers() >= 2 && c.rng.chance(1, 4) {
                    let cands: Vec<u32> = live.iter().cloned().filter(|x| live.iter().filter(|y| *y < x).count() >= 2).collect();
                    if !cands.is_empty() {
                        let ch = *c.rng.pick(&cands);
                        let below: Vec<u32> = live.iter().cloned().filter(|y| *y < ch).collect();
                        let a = *c.rng.pick(&below);
                        let b = *c.rng.pick(&below.iter().cloned().filter(|y| *y != a).collect::<Vec<_>>());
                        let p1 = c.any_peer();
                        let others: Vec<u32> = (0..c.peers()).filter(|q| *q != p1).collect();
                        let p2 = *c.rng.pick(&others);
                        c.s.trace.push(json!({"ev":"put_back_after_other_mover","peer":p1,"other":p2,"h":ch}));
                        let mut ok = true;
                        for (q, pa) in [(p1, a), (p2, b), (p1, a)] {
                            c.s.set_parent(q, ch, pa);
                            cur_parent.insert(ch, pa);
                            set_by.insert((q, ch), pa);
                            last_mover.insert(ch, q);
                            if c.rng.chance(1, 2) {
                                c.random_steps();
                            }
                            let d = c.drain(60);
                            c.s.trace.push(json!({"ev":"drain","quiescent":d.0,"rounds":d.1}));
                            ok &= d.0;
                        }
                        if !ok {
                            break;
                        }
                        continue;
                    }
                }
                // a peer puts a child back where it had put it itself before another peer moved it away
                let back: Vec<(u32, u32, u32)> = set_by.iter().map(|((q, ch), pa)| (*q, *ch, *pa))
                    .filter(|(q, ch, pa)| cur_parent.get(ch) != Some(pa) && last_mover.get(ch) != Some(q)).collect();
                if !back.is_empty() && c.rng.chance(1, 3) {
                    let (q, ch, pa) = *c.rng.pick(&back);
                    p = q;
                    child = ch;
                    parent = pa;
                    c.s.trace.push(json!({"ev":"put_back_after_other_mover","peer":p,"h":child}));
                }
                // no cycles: parent must not be a descendant of child — keep it simple: parent handle < child handle
                if parent < child {
                    // a move away and back in consecutive frames of the mover (relayed at once when the mover is a client)
                    // while the other peers stand still: both links reach them in one batch
                    if let (Some(&old), true) = (cur_parent.get(&child), c.rng.chance(1, 3)) {
                        if old != parent {
                            c.s.trace.push(json!({"ev":"consecutive_reparent","peer":p,"h":child,"back":true}));
                            c.s.set_parent(p, child, parent);
                            c.s.step(p);
                            if p != 0 {
                                c.s.step(0);
                            }
                            c.s.set_parent(p, child, old);
                            c.s.step(p);
                            if p != 0 {
                                c.s.step(0);
                            }
                            let d = c.drain(60);
                            c.s.trace.push(json!({"ev":"drain","quiescent":d.0,"rounds":d.1}));
                            if !d.0 {
                                break;
                            }
                            continue;
                        }
                    }
                    cur_parent.insert(child, parent);
                    set_by.insert((p, child), parent);
                    last_mover.insert(child, p);
                    c.s.set_parent(p, child, parent);
                    // the same peer moves the same child again in the next frame (no other peer involved)
                    if c.rng.chance(1, 4) {
                        let other: Vec<u32> = live.iter().cloned().filter(|x| *x < child && *x != parent).collect();
                        if !other.is_empty() {
                            c.s.step(p);
                            let p2 = *c.rng.pick(&other);
                            c.s.trace.push(json!({"ev":"consecutive_reparent","peer":p,"h":child}));
                            c.s.set_parent(p, child, p2);
                            cur_parent.insert(child, p2);
                            set_by.insert((p, child), p2);
                        }
                    }
                }
                // non-conflicting operations: let the exchange drain before the next one
                let d = c.drain(60);
                c.s.trace.push(json!({"ev":"drain","quiescent":d.0,"rounds":d.1}));
                if !d.0 {
                    break;
                }
            }
        }
        "asset" => {
            const AK: [AKind; 4] = [AKind::Mesh, AKind::Image, AKind::Audio, AKind::Material];
            // (kind, uuid, last writer, settled: a quiescent drain happened since that writer's last publication)
            let mut published: Vec<(AKind, uuid::Uuid, u32, bool, u64)> = vec![];
            for _ in 0..rounds {
                let p = c.any_peer();
                if published.is_empty() || c.rng.chance(1, 2) {
                    let kind = *c.rng.pick(&AK);
                    let id = uuid::Uuid::from_bytes(c.rng.bytes(16).try_into().unwrap());
                    let n = c.rng.below(1000) as u64;
                    c.s.asset_insert(p, kind, Some(id), n);
                    published.push((kind, id, p, false, n));
                } else {
                    // overwrite under the same uuid: by the peer that wrote it last at any time, by any other
                    // peer once the previous content has settled everywhere (one writer per epoch)
                    let k = c.rng.below(published.len());
                    let (kind, id, owner, settled, last_n) = published[k];
                    let w = if settled && c.rng.chance(2, 3) { p } else { owner };
                    // sometimes the same content again (the application touches the asset without changing it)
                    let n = if w == owner && c.rng.chance(1, 4) { last_n } else { 1000 + c.rng.below(1000) as u64 };
                    c.s.trace.push(json!({"ev":"overwrite","peer":w,"prev":owner}));
                    c.s.asset_insert(w, kind, Some(id), n);
                    published[k] = (kind, id, w, false, n);
                }
                if c.rng.chance(1, 2) {
                    c.random_steps();
                } else {
                    let d = c.drain(80);
                    c.s.trace.push(json!({"ev":"drain","quiescent":d.0,"rounds":d.1}));
                    if d.0 {
                        for e in published.iter_mut() {
                            e.3 = true;
                        }
                    }
                }
            }
            // one history in six: put back — a peer publishes, another peer overwrites once that has settled, the first peer
            // publishes its old content again, byte for byte (an undo, a toggle between two states)
            if idx % 6 == 4 && c.nclients >= 1 {
                let d = c.drain(80);
                c.s.trace.push(json!({"ev":"drain","quiescent":d.0,"rounds":d.1}));
                for _ in 0..c.rng.range(1, 2) {
                    let kind = *c.rng.pick(&AK);
                    let id = uuid::Uuid::from_bytes(c.rng.bytes(16).try_into().unwrap());
                    let p1 = c.any_peer();
                    let mut p2 = c.any_peer();
                    while p2 == p1 {
                        p2 = c.any_peer();
                    }
                    let (n1, n2) = (6000 + c.rng.below(500) as u64, 7000 + c.rng.below(500) as u64);
                    c.s.asset_insert(p1, kind, Some(id), n1);
                    let d = c.drain(80);
                    c.s.trace.push(json!({"ev":"drain","quiescent":d.0,"rounds":d.1}));
                    c.s.trace.push(json!({"ev":"overwrite","peer":p2,"prev":p1}));
                    c.s.asset_insert(p2, kind, Some(id), n2);
                    let d = c.drain(80);
                    c.s.trace.push(json!({"ev":"drain","quiescent":d.0,"rounds":d.1}));
                    c.s.trace.push(json!({"ev":"overwrite","peer":p1,"prev":p2,"put_back":true}));
                    c.s.asset_insert(p1, kind, Some(id), n1);
                    let d = c.drain(80);
                    c.s.trace.push(json!({"ev":"drain","quiescent":d.0,"rounds":d.1}));
                }
            }
            // one history in six: a large body is overwritten by a small one while its download is still running on the
            // readers (the answer to the newer request must win, whichever download finishes first)
            if idx % 6 == 2 {
                let d = c.drain(80);
                c.s.trace.push(json!({"ev":"drain","quiescent":d.0,"rounds":d.1}));
                let w = c.any_peer();
                let id = uuid::Uuid::from_bytes(c.rng.bytes(16).try_into().unwrap());
                let mib = c.rng.range(24, 56) as u64;
                c.s.asset_insert(w, AKind::Audio, Some(id), mib * 1_000_000 + c.rng.below(1000) as u64);
                c.s.step(w);
                for _ in 0..c.rng.range(1, 3) {
                    for p in 0..c.peers() {
                        if p != w {
                            c.s.step(p);
                        }
                    }
                }
                c.s.trace.push(json!({"ev":"overwrite","peer":w,"prev":w,"during_download":true}));
                c.s.asset_insert(w, AKind::Audio, Some(id), 1000 + c.rng.below(1000) as u64);
                c.s.step(w);
                c.drain(200);
                std::thread::sleep(std::time::Duration::from_millis(500));
                c.lockstep(4);
                let d = c.drain(80);
                c.s.trace.push(json!({"ev":"drain","quiescent":d.0,"rounds":d.1}));
            }
            // one history in six: somebody joins after an asset first served by the host has been overwritten by a client
            // (everything drained in between: what the joiner is pointed at must be the current content)
            if idx % 6 == 3 && c.nclients >= 1 {
                let d = c.drain(80);
                c.s.trace.push(json!({"ev":"drain","quiescent":d.0,"rounds":d.1}));
                let kind = *c.rng.pick(&[AKind::Mesh, AKind::Image, AKind::Audio, AKind::Material]);
                let id = uuid::Uuid::from_bytes(c.rng.bytes(16).try_into().unwrap());
                c.s.asset_insert(0, kind, Some(id), 4000 + c.rng.below(500) as u64);
                let d = c.drain(80);
                c.s.trace.push(json!({"ev":"drain","quiescent":d.0,"rounds":d.1}));
                let w = c.rng.range(1, c.nclients as usize) as u32;
                c.s.trace.push(json!({"ev":"overwrite","peer":w,"prev":0}));
                c.s.asset_insert(w, kind, Some(id), 5000 + c.rng.below(500) as u64);
                let d = c.drain(80);
                c.s.trace.push(json!({"ev":"drain","quiescent":d.0,"rounds":d.1}));
                let shift = c.rng.below(5);
                let j = c.s.add_client(cfg_for(family), shift);
                c.nclients += 1;
                c.s.describe_peers();
                c.s.connect(j);
                let ok = c.wait_connected(j, 80);
                c.s.trace.push(json!({"ev":"late_join","peer":j,"ok":ok}));
                c.lockstep(10);
                std::thread::sleep(std::time::Duration::from_millis(200));
                let d = c.drain(120);
                c.s.trace.push(json!({"ev":"drain","quiescent":d.0,"rounds":d.1}));
            }
            // one history in six: a burst — 20 to 40 assets of one class published in one frame, all downloads finishing while
            // the readers stand still (more than any per-frame budget an implementation might have)
            if idx % 6 == 1 {
                let d = c.drain(80);
                c.s.trace.push(json!({"ev":"drain","quiescent":d.0,"rounds":d.1}));
                let w = c.any_peer();
                let kind = *c.rng.pick(&[AKind::Mesh, AKind::Image, AKind::Audio]);
                let k = c.rng.range(20, 40);
                for j in 0..k {
                    let id = uuid::Uuid::from_bytes(c.rng.bytes(16).try_into().unwrap());
                    c.s.asset_insert(w, kind, Some(id), 3000 + j as u64);
                }
                c.s.step(w);
                c.s.step(w);
                for p in 0..c.peers() {
                    if p != w {
                        c.s.step(p);
                    }
                }
                std::thread::sleep(std::time::Duration::from_millis(500));
                if w != 0 {
                    // relayed by the host: the other clients start their downloads one host frame later
                    c.s.step(0);
                    for p in 1..c.peers() {
                        if p != w {
                            c.s.step(p);
                        }
                    }
                    std::thread::sleep(std::time::Duration::from_millis(500));
                }
                let d = c.drain(120);
                c.s.trace.push(json!({"ev":"drain","quiescent":d.0,"rounds":d.1}));
            }
            // one history in six: the endpoint an announcement points at answers slowly (headers and half of the body, the rest
            // later) and the uuid is announced again meanwhile: the answer to the newer request must be what the readers keep
            if idx % 6 == 5 && c.nclients >= 1 {
                slow_endpoint_case(&mut c);
            }
        }
        "filter" => {
            const TYS: [Ty; 5] = [Ty::A, Ty::B, Ty::E, Ty::V, Ty::U];
            const AK: [AKind; 4] = [AKind::Mesh, AKind::Image, AKind::Audio, AKind::Material];
            // one history in four: a component that names other entities under an exclusion — a skinned entity excluded from
            // replication whose joints are marked one after the other, some only much later
            let mut late_joint: Option<(u32, u32)> = None;
            if idx % 4 == 2 {
                let p = c.any_peer();
                let j1 = c.fresh();
                c.s.spawn(p, j1, true, &[], None);
                let j2 = c.fresh();
                c.s.spawn(p, j2, false, &[], None);
                let sk = c.fresh();
                c.s.spawn(p, sk, true, &[], None);
                c.s.exclude(p, sk, Ty::Skinned, true);
                c.live.push(j1);
                c.live.push(sk);
                let d = c.drain(40);
                c.s.trace.push(json!({"ev":"drain","quiescent":d.0,"rounds":d.1}));
                c.s.write(p, sk, &CVal::new(Ty::Skinned, 300), &[j1, j2]);
                let d = c.drain(40);
                c.s.trace.push(json!({"ev":"drain","quiescent":d.0,"rounds":d.1}));
                late_joint = Some((p, j2));
            }
            for _ in 0..rounds {
                for _ in 0..c.rng.range(1, 3) {
                    let p = c.any_peer();
                    match c.rng.below(8) {
                        0 | 1 => {
                            // marked and unmarked entities with any components (registered there or not)
                            let h = c.fresh();
                            let mark = c.rng.chance(2, 3);
                            let mut comps: Vec<CVal> = vec![];
                            for t in TYS {
                                if c.rng.chance(1, 3) {
                                    comps.push(small_val(&mut c.rng, t));
                                }
                            }
                            c.s.spawn(p, h, mark, &comps, None);
                            // exclusion added before the entity is processed
                            if c.rng.chance(1, 3) {
                                let t = *c.rng.pick(&TYS[..4]);
                                c.s.exclude(p, h, t, true);
                            }
                            c.live.push(h);
                        }
                        2 | 3 => {
                            if !c.live.is_empty() {
                                let h = *c.rng.pick(&c.live.clone());
                                let t = *c.rng.pick(&TYS);
                                let v = small_val(&mut c.rng, t);
                                c.s.write(p, h, &v, &[]);
                            }
                        }
                        4 => {
                            if !c.live.is_empty() {
                                let h = *c.rng.pick(&c.live.clone());
                                let t = *c.rng.pick(&TYS[..4]);
                                let on = c.rng.chance(2, 3);
                                c.s.exclude(p, h, t, on);
                            }
                        }
                        5 => {
                            // an exclusion replaced in place: removed and put back (or put and removed) with no frame in between,
                            // around a value the other peers do not have
                            if !c.live.is_empty() {
                                let h = *c.rng.pick(&c.live.clone());
                                let t = *c.rng.pick(&TYS[..4]);
                                let excluded = c.rng.chance(2, 3);
                                c.s.exclude(p, h, t, excluded);
                                if c.rng.chance(1, 2) {
                                    c.random_steps();
                                }
                                let v = small_val(&mut c.rng, t);
                                c.s.write(p, h, &v, &[]);
                                if c.rng.chance(1, 2) {
                                    c.s.step(p);
                                }
                                c.s.exclude(p, h, t, !excluded);
                                c.s.exclude(p, h, t, excluded);
                            }
                        }
                        _ => {
                            let kind = *c.rng.pick(&AK);
                            let uuid = if c.rng.chance(2, 3) { Some(uuid::Uuid::from_bytes(c.rng.bytes(16).try_into().unwrap())) } else { None };
                            let n = c.rng.below(1000) as u64;
                            c.s.asset_insert(p, kind, uuid, n);
                        }
                    }
                }
                c.random_steps();
            }
            let d = c.drain(60);
            c.s.trace.push(json!({"ev":"drain","quiescent":d.0,"rounds":d.1}));
            // one history in four: the host is alone for a while (every client leaves), changes a value, excludes it afterwards,
            // and only then somebody (re)joins: nothing detected while alone may leave later
            if idx % 4 == 1 && !c.live.is_empty() {
                for p in 1..c.peers() {
                    c.s.disconnect(p);
                }
                for _ in 0..6 {
                    c.s.step(0);
                }
                for _ in 0..c.rng.range(1, 3) {
                    let h = *c.rng.pick(&c.live.clone());
                    let t = *c.rng.pick(&TYS[..4]);
                    let v = small_val(&mut c.rng, t);
                    c.s.exclude(0, h, t, false);
                    c.s.write(0, h, &v, &[]);
                    for _ in 0..c.rng.range(1, 3) {
                        c.s.step(0);
                    }
                    c.s.exclude(0, h, t, true);
                }
                for _ in 0..c.rng.range(6, 12) {
                    c.s.step(0);
                }
                if c.peers() > 1 && c.rng.chance(1, 2) {
                    c.s.connect(1);
                    let ok = c.wait_connected(1, 60);
                    c.s.trace.push(json!({"ev":"late_join","peer":1,"ok":ok,"rejoin":true}));
                    let d = c.drain(60);
                    c.s.trace.push(json!({"ev":"drain","quiescent":d.0,"rounds":d.1}));
                }
            }
            // the skeleton's last joint becomes a synchronized entity only now (the skin itself stays excluded)
            if let Some((p, j2)) = late_joint {
                if c.s.mark_existing(p, j2) {
                    let d = c.drain(60);
                    c.s.trace.push(json!({"ev":"drain","quiescent":d.0,"rounds":d.1,"late_joint":true}));
                }
            }
            // a client that joins now receives the snapshot
            let cfgj = cfg_for(family);
            let id = c.s.add_client(cfgj, 2);
            c.nclients += 1;
            c.s.describe_peers();
            c.s.connect(id);
            let ok = c.wait_connected(id, 60);
            c.s.trace.push(json!({"ev":"late_join","peer":id,"ok":ok}));
        }
        "fix" => {
            const KINDS: [Ty; 5] = [Ty::Transform, Ty::Visibility, Ty::PointLight, Ty::SpotLight, Ty::DirLight];
            let origin = if fix_uneven { 0 } else { c.any_peer() };
            let e = c.fresh();
            c.s.spawn(origin, e, true, &[], None);
            let d = c.drain(40);
            c.s.trace.push(json!({"ev":"drain","quiescent":d.0,"rounds":d.1}));
            // one history in four: the entity is a parent by the time its components land — a child that already has its own
            // Visibility / Transform (and their companions) was linked under it first
            let adopts = idx % 4 == 1;
            if adopts {
                let ch = c.fresh();
                c.s.spawn(origin, ch, true, &[], None);
                let d = c.drain(40);
                c.s.trace.push(json!({"ev":"drain","quiescent":d.0,"rounds":d.1}));
                c.s.write(origin, ch, &CVal::new(Ty::Visibility, 1), &[]);
                if c.rng.chance(1, 2) {
                    c.s.write(origin, ch, &CVal::new(Ty::Transform, 2), &[]);
                }
                let d = c.drain(40);
                c.s.trace.push(json!({"ev":"drain","quiescent":d.0,"rounds":d.1}));
                c.s.set_parent(origin, ch, e);
                let d = c.drain(40);
                c.s.trace.push(json!({"ev":"drain","quiescent":d.0,"rounds":d.1,"adopted":ch}));
            }
            // subset and arrival order of the five kinds
            let mut kinds: Vec<Ty> = KINDS.iter().cloned().filter(|_| c.rng.chance(1, 2)).collect();
            if kinds.is_empty() {
                kinds.push(*c.rng.pick(&KINDS));
            }
            if adopts && !kinds.contains(&Ty::Visibility) {
                kinds.push(Ty::Visibility);
            }
            for i in (1..kinds.len()).rev() {
                let j = c.rng.below(i + 1);
                kinds.swap(i, j);
            }
            // companions either all absent (a replica spawned by the network has none) or all already present
            let present = c.rng.chance(1, 3);
            c.s.trace.push(json!({"ev":"fix_case","h":e,"origin":origin,"kinds":kinds.iter().map(|k| k.name()).collect::<Vec<_>>(),"present":present}));
            if present {
                for p in 0..c.peers() {
                    if p != origin {
                        c.s.add_companions(p, e, &kinds);
                    }
                }
            }
            let mut n = 1;
            // one history in three is paced: every peer runs the same small number of frames between two arrivals, so that every
            // frame offset between two kinds landing on one entity is walked (not only what random stepping happens to produce)
            let paced = c.rng.chance(1, 3);
            for k in kinds.clone() {
                c.s.trace.push(json!({"ev":"phase","writer":origin,"h":e,"ty":k.name(),"first":true}));
                c.s.write(origin, e, &CVal::new(k, n), &[]);
                n += 1;
                if paced {
                    let off = c.rng.below(5);
                    for _ in 0..off {
                        c.lockstep(1);
                        std::thread::sleep(std::time::Duration::from_millis(1));
                    }
                } else if c.rng.chance(1, 2) {
                    c.random_steps();
                } else if c.rng.chance(1, 2) {
                    // a second write while the first is still on its way through the receiver's fix systems
                    let off = c.rng.below(6);
                    c.lockstep(off);
                    c.s.write(origin, e, &CVal::new(k, n), &[]);
                    n += 1;
                }
            }
            // the first arrivals are judged on their own: once drained every peer holds what the origin wrote
            let d = c.drain(40);
            c.s.trace.push(json!({"ev":"drain","quiescent":d.0,"rounds":d.1}));
            c.lockstep(3);
            // further writes to the same components at every frame offset 0..3
            for k in kinds.clone() {
                let off = c.rng.below(4);
                c.lockstep(off);
                let writer = if fix_uneven || c.rng.chance(2, 3) { origin } else { c.any_peer() };
                c.s.trace.push(json!({"ev":"phase","writer":writer,"h":e,"ty":k.name()}));
                for _ in 0..c.rng.range(1, 3) {
                    n += 1;
                    c.s.write(writer, e, &CVal::new(k, n), &[]);
                    if c.rng.chance(1, 2) { c.s.step(writer); } else { c.random_steps(); }
                }
                let d = c.drain(40);
                c.s.trace.push(json!({"ev":"drain","quiescent":d.0,"rounds":d.1}));
            }
        }
        "skin" => {
            // joints: synchronized entities from random origins; peers' local ids are shifted differently
            // one history in six has a big skeleton (bevy renders up to 256 joints per skin): a payload of 17 - 23 kB
            let nj = if idx % 6 == 4 { c.rng.range(190, 256) } else { c.rng.range(0, 5) };
            let mut joints = vec![];
            for _ in 0..nj {
                let p = c.any_peer();
                let h = c.fresh();
                c.s.spawn(p, h, true, &[], None);
                joints.push(h);
                c.live.push(h);
            }
            let origin = c.any_peer();
            let m = c.fresh();
            c.s.spawn(origin, m, true, &[], None);
            let d = c.drain(40);
            c.s.trace.push(json!({"ev":"drain","quiescent":d.0,"rounds":d.1}));
            let updates = c.rng.range(1, 4);
            let mut prev_list: Option<Vec<u32>> = None;
            for k in 0..updates {
                // arbitrary order, repeats allowed; sometimes only the bind poses change (same joints)
                let len = if joints.is_empty() { 0 } else if joints.len() > 100 { c.rng.range(186, joints.len()) } else { c.rng.below(6) };
                let list: Vec<u32> = match (&prev_list, c.rng.chance(1, 2)) {
                    (Some(l), true) => l.clone(),
                    _ => (0..len).map(|_| *c.rng.pick(&joints)).collect(),
                };
                prev_list = Some(list.clone());
                let writer = if k == 0 || c.rng.chance(2, 3) { origin } else { c.any_peer() };
                let v = CVal::new(Ty::Skinned, (k as i64 + 1) * 100);
                c.s.trace.push(json!({"ev":"phase","writer":writer,"h":m,"ty":"Skinned","joints":list}));
                c.s.write(writer, m, &v, &list);
                let d = c.drain(40);
                c.s.trace.push(json!({"ev":"drain","quiescent":d.0,"rounds":d.1}));
                if !d.0 {
                    break;
                }
            }
            // a second skinned entity over the same bind-pose asset with its own joints (same number, other entities / order)
            if let (Some(list), true) = (prev_list.clone(), c.rng.chance(1, 2)) {
                if !list.is_empty() && joints.len() >= 2 {
                    let m2 = c.fresh();
                    c.s.spawn(origin, m2, true, &[], None);
                    let d = c.drain(40);
                    c.s.trace.push(json!({"ev":"drain","quiescent":d.0,"rounds":d.1}));
                    let list2: Vec<u32> = (0..list.len()).map(|_| *c.rng.pick(&joints)).collect();
                    // the peer that wrote `m` last holds the asset
                    let holder = c.s.trace.iter().rev().find(|v| v["ev"] == "phase" && v["ty"] == "Skinned").and_then(|v| v["writer"].as_u64()).unwrap_or(origin as u64) as u32;
                    c.s.trace.push(json!({"ev":"phase","writer":holder,"h":m2,"ty":"Skinned","joints":list2,"shared_with":m}));
                    if c.s.write_skinned_shared(holder, m2, m, &list2) {
                        let d = c.drain(40);
                        c.s.trace.push(json!({"ev":"drain","quiescent":d.0,"rounds":d.1}));
                    }
                }
            }
            // the rig starts to be used: the joints gain a component after the skinned entity exists, which moves them to an
            // archetype younger than the skinned entity's (the snapshot then lists the skinned entity before its joints)
            // one history in six: a populated scene comes to exist in between (entities of a kind not seen before in this history:
            // their archetype is younger than the skinned entity's and older than the one the joints move to), so that in the
            // snapshot the skinned entity and its joints are more than one frame's worth of bytes apart
            let far = idx % 6 == 2 && !joints.is_empty();
            if far {
                // the skeleton as it is when the scene gets populated: every joint, in order
                let v = CVal::new(Ty::Skinned, 9_900);
                c.s.trace.push(json!({"ev":"phase","writer":origin,"h":m,"ty":"Skinned","joints":joints}));
                c.s.write(origin, m, &v, &joints);
                let d = c.drain(40);
                c.s.trace.push(json!({"ev":"drain","quiescent":d.0,"rounds":d.1}));
                let w = c.any_peer();
                let n = c.rng.range(700, 1000);
                c.s.trace.push(json!({"ev":"epoch","writer":w,"crowd":n}));
                for k in 0..n {
                    let h = c.fresh();
                    c.s.spawn(w, h, true, &[CVal::new(Ty::E, k as i64)], None);
                    if k % 50 == 49 {
                        c.lockstep(1);
                    }
                }
                let d = c.drain(300);
                c.s.trace.push(json!({"ev":"drain","quiescent":d.0,"rounds":d.1}));
            }
            if !joints.is_empty() && (far || c.rng.chance(1, 2)) {
                let w = c.any_peer();
                for (k, j) in joints.clone().iter().enumerate() {
                    let v = CVal::new(if far || c.rng.chance(1, 2) { Ty::A } else { Ty::Transform }, 50 + k as i64);
                    c.s.write(w, *j, &v, &[]);
                }
                let d = c.drain(60);
                c.s.trace.push(json!({"ev":"drain","quiescent":d.0,"rounds":d.1}));
            }
            // a client that joins afterwards gets the SkinnedMesh through the snapshot
            if far || c.rng.chance(2, 3) {
                let shift = c.rng.below(5);
                let id = c.s.add_client(cfg_for(family), shift);
                c.nclients += 1;
                c.s.connect(id);
                let ok = c.wait_connected(id, if far { 300 } else { 60 });
                c.s.trace.push(json!({"ev":"late_join","peer":id,"ok":ok}));
                // the skin is replaced right behind the join: the update crosses whatever the joiner does with its snapshot
                if ok && !joints.is_empty() && c.rng.chance(1, 2) {
                    let writer = if c.rng.chance(1, 2) { 0 } else { origin };
                    let mut list: Vec<u32> = prev_list.clone().unwrap_or_default();
                    if list.is_empty() {
                        list = joints.clone();
                    }
                    list.reverse();
                    let off = c.rng.below(3);
                    c.lockstep(off);
                    c.s.trace.push(json!({"ev":"phase","writer":writer,"h":m,"ty":"Skinned","joints":list,"behind_join":true}));
                    c.s.write(writer, m, &CVal::new(Ty::Skinned, 7_700), &list);
                    let d = c.drain(60);
                    c.s.trace.push(json!({"ev":"drain","quiescent":d.0,"rounds":d.1}));
                }
            }
        }
        "promo" => {
            const TYS: [Ty; 4] = [Ty::A, Ty::B, Ty::E, Ty::V];
            fn op(c: &mut Ctx, w: u32) {
                match c.rng.below(8) {
                    0 | 1 | 2 => {
                        let h = c.fresh();
                        let mut comps: Vec<CVal> = vec![];
                        for t in TYS {
                            if c.rng.chance(1, 3) {
                                comps.push(small_val(&mut c.rng, t));
                            }
                        }
                        let parent = if !c.live.is_empty() && c.rng.chance(1, 3) { Some(*c.rng.pick(&c.live.clone())) } else { None };
                        c.s.spawn(w, h, true, &comps, parent);
                        c.live.push(h);
                    }
                    3 | 4 | 5 => {
                        if !c.live.is_empty() {
                            let h = *c.rng.pick(&c.live.clone());
                            let t = *c.rng.pick(&TYS);
                            let v = small_val(&mut c.rng, t);
                            c.s.write(w, h, &v, &[]);
                        }
                    }
                    6 => {
                        if c.live.len() >= 2 {
                            let a = *c.rng.pick(&c.live.clone());
                            let b = *c.rng.pick(&c.live.clone());
                            if a != b {
                                c.s.set_parent(w, a, b);
                            }
                        }
                    }
                    _ => {
                        if c.live.len() > 2 {
                            let i = c.rng.below(c.live.len());
                            let h = c.live[i];
                            if c.s.despawn(w, h) {
                                c.live.swap_remove(i);
                            }
                        }
                    }
                }
            }
            fn epochs(c: &mut Ctx, n: usize) {
                for _ in 0..n {
                    let w = c.any_peer();
                    c.s.trace.push(json!({"ev":"epoch","writer":w}));
                    for _ in 0..c.rng.range(1, 3) {
                        op(c, w);
                        if c.rng.chance(1, 2) {
                            c.random_steps();
                        }
                    }
                    let d = c.drain(80);
                    c.s.trace.push(json!({"ev":"drain","quiescent":d.0,"rounds":d.1}));
                }
            }
            let n0 = c.rng.range(1, 4);
            epochs(&mut c, n0);
            // some hierarchy that is older than the promotion
            if c.live.len() >= 2 && c.rng.chance(2, 3) {
                let w = c.any_peer();
                c.s.trace.push(json!({"ev":"epoch","writer":w}));
                for _ in 0..c.rng.range(1, 3) {
                    let a = *c.rng.pick(&c.live.clone());
                    let b = *c.rng.pick(&c.live.clone());
                    if b < a {
                        c.s.set_parent(w, a, b);
                    }
                }
                let d = c.drain(80);
                c.s.trace.push(json!({"ev":"drain","quiescent":d.0,"rounds":d.1}));
            }
            // uuid assets that are older than the promotion (published by anybody, settled everywhere)
            let mut old_assets: Vec<(AKind, uuid::Uuid)> = vec![];
            for _ in 0..c.rng.below(3) {
                let w = c.any_peer();
                let kind = *c.rng.pick(&[AKind::Material, AKind::Material, AKind::Mesh, AKind::Image, AKind::Audio]);
                let id = uuid::Uuid::from_bytes(c.rng.bytes(16).try_into().unwrap());
                let n = c.rng.below(1000) as u64;
                c.s.asset_insert(w, kind, Some(id), n);
                old_assets.push((kind, id));
                let d = c.drain(80);
                c.s.trace.push(json!({"ev":"drain","quiescent":d.0,"rounds":d.1}));
            }
            let promotions = if promo_chain { c.rng.range(3, 5) } else if c.rng.chance(1, 4) { 2 } else { 1 };
            let mut host: u32 = 0;
            for round in 0..promotions {
                // every instance listens on its own port once it becomes host (all peers share one ip here)
                for p in 0..c.peers() {
                    let port = bsharness::session::free_udp_port(c.s.ip);
                    c.s.set_port(p, port);
                }
                let k = c.rng.below(c.nclients as usize);
                let ok = c.s.promote(host, k);
                c.s.trace.push(json!({"ev":"promotion","host":host,"client_index":k,"sent":ok}));
                // the hand-over, sometimes with the application still at work on some peer
                let busy = c.rng.chance(1, 3);
                let w = c.any_peer();
                // ... and sometimes the host's application does something in the very frame in which it asks for the promotion:
                // it is still the host of an ordinary session, and what it does reaches the promoted client over the old connection
                if ok && c.rng.chance(1, 2) {
                    c.s.trace.push(json!({"ev":"epoch","writer":host,"with_request":true}));
                    // in the request's frame or in the host's next one (the request has left, `NewHost` is frames away)
                    if c.rng.chance(1, 2) {
                        c.s.step(host);
                    }
                    // a new entity or a despawn: what the former host's application does here is judged (not D18's)
                    if c.live.len() > 2 && c.rng.chance(1, 2) {
                        let i = c.rng.below(c.live.len());
                        let h = c.live[i];
                        if c.s.despawn(host, h) {
                            c.live.swap_remove(i);
                        }
                    } else {
                        let h = c.fresh();
                        let comps = if c.rng.chance(1, 2) { vec![small_val(&mut c.rng, Ty::A)] } else { vec![] };
                        c.s.spawn(host, h, true, &comps, None);
                        c.live.push(h);
                    }
                }
                for _ in 0..c.rng.range(20, 40) {
                    if busy && c.rng.chance(1, 4) {
                        op(&mut c, w);
                    }
                    c.random_steps();
                }
                let d = c.drain(80);
                c.s.trace.push(json!({"ev":"drain","quiescent":d.0,"rounds":d.1,"after_promotion":true}));
                // who is host now?
                let mut new_host = host;
                for p in 0..c.peers() {
                    if p != host && c.s.is_hosting(p) {
                        new_host = p;
                    }
                }
                c.s.trace.push(json!({"ev":"handover","old":host,"new":new_host}));
                if new_host == host {
                    break;
                }
                host = new_host;
                let hp = c.s.port_of(host);
                c.s.port = hp;
                // the new host (or the former one) moves children around that were linked before the hand-over
                if c.live.len() >= 2 && c.rng.chance(2, 3) {
                    let w = if c.rng.chance(2, 3) { host } else { c.any_peer() };
                    c.s.trace.push(json!({"ev":"epoch","writer":w}));
                    // children that have been given a parent so far (their link is older than the hand-over)
                    let mut linked: Vec<u32> = vec![];
                    for v in c.s.trace.iter() {
                        if v["ev"] == "op" && (v["op"] == "set_parent" || (v["op"] == "spawn" && !v["parent"].is_null())) {
                            if let Some(h) = v["h"].as_u64() {
                                if c.live.contains(&(h as u32)) && !linked.contains(&(h as u32)) {
                                    linked.push(h as u32);
                                }
                            }
                        }
                    }
                    for _ in 0..c.rng.range(1, 4) {
                        let a = if !linked.is_empty() && c.rng.chance(2, 3) { *c.rng.pick(&linked) } else { *c.rng.pick(&c.live.clone()) };
                        let b = *c.rng.pick(&c.live.clone());
                        if b < a {
                            c.s.set_parent(w, a, b);
                        }
                    }
                    let d = c.drain(80);
                    c.s.trace.push(json!({"ev":"drain","quiescent":d.0,"rounds":d.1}));
                }
                // assets that are older than the hand-over are edited afterwards — by the former host in particular
                for (kind, id) in old_assets.clone() {
                    if c.rng.chance(2, 3) {
                        let former = c.s.trace.iter().rev().find(|v| v["ev"] == "handover").and_then(|v| v["old"].as_u64()).unwrap_or(0) as u32;
                        let w = if c.rng.chance(2, 3) { former } else { c.any_peer() };
                        c.s.trace.push(json!({"ev":"overwrite","peer":w,"after_handover":true}));
                        c.s.asset_insert(w, kind, Some(id), 2000 + c.rng.below(1000) as u64);
                        let d = c.drain(80);
                        c.s.trace.push(json!({"ev":"drain","quiescent":d.0,"rounds":d.1}));
                    }
                }
                let n1 = c.rng.range(1, 3);
                epochs(&mut c, n1);
                // somebody joins the new host (in a chain only behind the last hand-over: with a third peer the next one is D7's)
                if c.rng.chance(1, 2) && (!promo_chain || round + 1 == promotions) {
                    let shift = c.rng.below(5);
                    let id = c.s.add_client(cfg_for(family), shift);
                    c.nclients += 1;
                    c.s.describe_peers();
                    c.s.connect(id);
                    c.s.trace.push(json!({"ev":"join_begin","peer":id,"writer":host}));
                    let mut ok = false;
                    for _ in 0..80 {
                        c.lockstep(1);
                        let last = c.s.trace.iter().rev().find(|v| v["ev"] == "frame" && v["peer"] == id).cloned();
                        if let Some(v) = last {
                            if v["state"]["client_state"] == "Connected" && v["state"]["sync_finished"].as_u64().unwrap_or(0) >= 1 {
                                ok = true;
                                break;
                            }
                        }
                    }
                    c.s.trace.push(json!({"ev":"late_join","peer":id,"ok":ok}));
                    let d = c.drain(80);
                    c.s.trace.push(json!({"ev":"drain","quiescent":d.0,"rounds":d.1}));
                    epochs(&mut c, 1);
                }
            }
        }
        "join" => {
            const TYS: [Ty; 4] = [Ty::A, Ty::B, Ty::E, Ty::V];
            const AK: [AKind; 4] = [AKind::Mesh, AKind::Image, AKind::Audio, AKind::Material];
            let mut assets: Vec<(AKind, uuid::Uuid)> = vec![];
            // one operation of the current writer: any of the things a session is built from
            fn op(c: &mut Ctx, w: u32, assets: &mut Vec<(AKind, uuid::Uuid)>) {
                match c.rng.below(10) {
                    0 | 1 => {
                        let h = c.fresh();
                        let mut comps: Vec<CVal> = vec![];
                        for t in TYS {
                            if c.rng.chance(1, 3) {
                                comps.push(small_val(&mut c.rng, t));
                            }
                        }
                        let parent = if !c.live.is_empty() && c.rng.chance(1, 3) { Some(*c.rng.pick(&c.live.clone())) } else { None };
                        c.s.spawn(w, h, true, &comps, parent);
                        c.live.push(h);
                    }
                    2 | 3 | 4 => {
                        if !c.live.is_empty() {
                            let h = *c.rng.pick(&c.live.clone());
                            let t = *c.rng.pick(&TYS);
                            let v = small_val(&mut c.rng, t);
                            c.s.write(w, h, &v, &[]);
                        }
                    }
                    5 => {
                        if c.live.len() >= 2 {
                            let a = *c.rng.pick(&c.live.clone());
                            let b = *c.rng.pick(&c.live.clone());
                            if a != b {
                                c.s.set_parent(w, a, b);
                            }
                        }
                    }
                    6 => {
                        if c.live.len() > 2 && c.rng.chance(1, 2) {
                            let i = c.rng.below(c.live.len());
                            let h = c.live[i];
                            if c.s.despawn(w, h) {
                                c.live.swap_remove(i);
                            }
                        }
                    }
                    _ => {
                        if c.rng.chance(1, 6) {
                            // a uuid material nobody can encode (strong handle to a local image): every sender skips it
                            let id = uuid::Uuid::from_bytes(c.rng.bytes(16).try_into().unwrap());
                            c.s.asset_insert_unencodable_material(w, id);
                        } else if assets.is_empty() || c.rng.chance(1, 2) {
                            let kind = *c.rng.pick(&AK);
                            let id = uuid::Uuid::from_bytes(c.rng.bytes(16).try_into().unwrap());
                            let n = c.rng.below(1000) as u64;
                            c.s.asset_insert(w, kind, Some(id), n);
                            assets.push((kind, id));
                        } else {
                            let (kind, id) = *c.rng.pick(&assets.clone());
                            let n = 1000 + c.rng.below(1000) as u64;
                            c.s.asset_insert(w, kind, Some(id), n);
                        }
                    }
                }
            }
            // one history in three: the host's scene has a synchronized entity under a plain, unsynchronized node (a scene root),
            // and after it — same kind of entity, same archetype — a synchronized child of a synchronized parent
            if idx % 3 == 1 {
                c.s.trace.push(json!({"ev":"epoch","writer":0,"scene_root":true}));
                let n = c.fresh();
                c.s.spawn(0, n, false, &[], None);
                let x = c.fresh();
                c.s.spawn(0, x, true, &[], Some(n));
                c.live.push(x);
                let a = c.fresh();
                c.s.spawn(0, a, true, &[], None);
                c.live.push(a);
                let b = c.fresh();
                c.s.spawn(0, b, true, &[], Some(a));
                c.live.push(b);
                let d = c.drain(80);
                c.s.trace.push(json!({"ev":"drain","quiescent":d.0,"rounds":d.1}));
            }
            // a crowded world (one history in eighteen): the snapshot is hundreds of messages and reaches the joiner in bursts
            let crowded = idx % 18 == 4;
            let mut crowd_hs: Vec<u32> = vec![];
            if crowded {
                let w = c.any_peer();
                let n = c.rng.range(300, 800);
                c.s.trace.push(json!({"ev":"epoch","writer":w,"crowd":n}));
                for _ in 0..n {
                    let h = c.fresh();
                    let v = small_val(&mut c.rng, Ty::A);
                    c.s.spawn(w, h, true, &[v], None);
                    c.live.push(h);
                    crowd_hs.push(h);
                }
                let d = c.drain(300);
                c.s.trace.push(json!({"ev":"drain","quiescent":d.0,"rounds":d.1}));
            }
            // the session before the join: epochs of one writer each, drained in between
            for _ in 0..rounds {
                let w = c.any_peer();
                c.s.trace.push(json!({"ev":"epoch","writer":w}));
                for _ in 0..c.rng.range(1, 4) {
                    op(&mut c, w, &mut assets);
                    if c.rng.chance(1, 2) {
                        c.random_steps();
                    }
                }
                let d = c.drain(80);
                c.s.trace.push(json!({"ev":"drain","quiescent":d.0,"rounds":d.1}));
            }
            // the join: one writer keeps changing things while a new client connects and / or an old one returns
            // (one history in three: the writer is an established client and sets a parent link in every round of the join, so
            // that the host reads a link to relay in the very poll in which it reads the joiner's request)
            let links = idx % 3 == 2 && c.nclients >= 1;
            let w = if links { 1 + c.rng.below(c.nclients as usize) as u32 } else { c.any_peer() };
            let variant = c.rng.below(4);
            let mut comers: Vec<u32> = vec![];
            if variant >= 2 && c.nclients >= 1 {
                // a client leaves, the session goes on without it, then it comes back still holding what it had
                let cands: Vec<u32> = (1..=c.nclients).filter(|p| *p != w).collect();
                if !cands.is_empty() {
                    let x = *c.rng.pick(&cands);
                    c.s.disconnect(x);
                    c.s.trace.push(json!({"ev":"left","peer":x}));
                    c.lockstep(3);
                    c.s.trace.push(json!({"ev":"epoch","writer":w,"absent":x}));
                    // one time in three the absent client's application keeps working: it writes a component of an entity it
                    // holds, in one or several frames, while its link is down (recorded finding D22)
                    if c.rng.chance(1, 3) && !c.live.is_empty() {
                        let hh = *c.rng.pick(&c.live.clone());
                        let ty = *c.rng.pick(&[Ty::A, Ty::B, Ty::E]);
                        for _ in 0..c.rng.range(1, 3) {
                            let v = small_val(&mut c.rng, ty);
                            c.s.write(x, hh, &v, &[]);
                            c.s.step(x);
                        }
                        c.s.trace.push(json!({"ev":"away_write","peer":x,"h":hh,"ty":ty.name()}));
                    } else if c.rng.chance(1, 5) && c.live.len() > 2 {
                        // ... or despawns an entity it holds
                        let i = c.rng.below(c.live.len());
                        let hd = c.live[i];
                        if c.s.despawn(x, hd) {
                            c.live.swap_remove(i);
                            c.s.step(x);
                            c.s.trace.push(json!({"ev":"away_despawn","peer":x,"h":hd}));
                        }
                    } else if c.rng.chance(1, 4) && c.live.len() >= 2 {
                        // ... or re-parents an entity it holds
                        let a = *c.rng.pick(&c.live.clone());
                        let b = *c.rng.pick(&c.live.clone());
                        if b < a {
                            c.s.set_parent(x, a, b);
                            c.s.step(x);
                            c.s.trace.push(json!({"ev":"away_link","peer":x,"h":a,"parent":b}));
                        }
                    }
                    for _ in 0..c.rng.range(1, 5) {
                        op(&mut c, w, &mut assets);
                        if c.rng.chance(1, 2) {
                            c.random_steps();
                        }
                    }
                    if c.rng.chance(1, 2) {
                        let d = c.drain(80);
                        c.s.trace.push(json!({"ev":"drain","quiescent":d.0,"rounds":d.1,"absent":x}));
                    }
                    comers.push(x);
                }
            }
            if variant != 2 || comers.is_empty() {
                let shift = c.rng.below(5);
                let id = c.s.add_client(cfg_for(family), shift);
                c.nclients += 1;
                c.s.describe_peers();
                comers.push(id);
            }
            c.s.trace.push(json!({"ev":"epoch","writer":w,"joining":comers}));
            for j in comers.clone() {
                c.s.connect(j);
                c.s.trace.push(json!({"ev":"join_begin","peer":j,"writer":w}));
                if crowded {
                    // the host runs ahead: whole bursts of the snapshot wait in the joiner's socket — and it keeps rewriting
                    // the youngest entities (the tail of the snapshot) while the snapshot is on its way
                    // (entities of the crowd only: they are settled everywhere; an entity some client has just spawned may still
                    // have its first value on the way, and writing it from the host would be two writers at once)
                    let young: Vec<u32> = crowd_hs.iter().rev().filter(|h| c.live.contains(h)).take(12).cloned().collect();
                    for _ in 0..c.rng.range(10, 40) {
                        for _ in 0..c.rng.range(2, 6) {
                            if !young.is_empty() && c.rng.chance(1, 2) {
                                let h = *c.rng.pick(&young);
                                let v = small_val(&mut c.rng, Ty::A);
                                c.s.write(0, h, &v, &[]);
                            }
                            c.s.step(0);
                        }
                        c.s.step(j);
                    }
                }
                // the handshake and the snapshot run while the writer goes on
                let rounds_now = if links { c.rng.range(8, 16) } else { c.rng.below(14) };
                for _ in 0..rounds_now {
                    for _ in 0..c.rng.below(3) {
                        op(&mut c, w, &mut assets);
                    }
                    if links && c.live.len() >= 2 {
                        let a = *c.rng.pick(&c.live.clone());
                        let b = *c.rng.pick(&c.live.clone());
                        if b < a {
                            c.s.set_parent(w, a, b);
                        }
                        if c.rng.chance(1, 2) {
                            c.lockstep(1);
                            continue;
                        }
                    }
                    c.random_steps();
                }
            }
            for j in comers.clone() {
                let ok = c.wait_connected(j, 80);
                c.s.trace.push(json!({"ev":"late_join","peer":j,"ok":ok}));
            }
            for _ in 0..c.rng.below(4) {
                op(&mut c, w, &mut assets);
                c.random_steps();
            }
        }
        _ => panic!("unknown family {}", family),
    }
    let d = c.drain(60);
    c.s.trace.push(json!({"ev":"drain","quiescent":d.0,"rounds":d.1,"final":true}));
    let panicked = c.s.panicked.clone();
    c.s.emit(out);
    writeln!(out, "{}", json!({"ev":"end","panic":panicked.map(|(p, m)| json!({"peer":p,"msg":m}))})).unwrap();
}

fn main() {
    let args: Vec<String> = std::env::args().collect();
    let family = args.get(1).map(|s| s.as_str()).unwrap_or("ent").to_string();
    let seed: u64 = args.get(2).and_then(|s| s.parse().ok()).unwrap_or(1);
    let count: usize = args.get(3).and_then(|s| s.parse().ok()).unwrap_or(5);
    let thorough = args.get(4).map(|s| s == "thorough").unwrap_or(false);
    let only: Option<usize> = args.get(5).and_then(|s| s.parse().ok());
    let stdout = std::io::stdout();
    let mut w = std::io::BufWriter::new(stdout.lock());
    for i in 0..count {
        if let Some(o) = only {
            if o != i {
                continue;
            }
        }
        // a history that cannot even be set up (a localhost port taken by another process between probing and binding
        // panics inside the plugins' socket set-up, outside any frame) is started again; it says nothing about a property
        let mut done = false;
        for attempt in 0..4 {
            let mut buf: Vec<u8> = vec![];
            let r = std::panic::catch_unwind(std::panic::AssertUnwindSafe(|| history(&family, seed, i, thorough, &mut buf)));
            match r {
                Ok(()) => {
                    w.write_all(&buf).unwrap();
                    done = true;
                    break;
                }
                Err(_) => {
                    eprintln!("session: history {}-{}-{} aborted during set-up (attempt {}), starting it again", family, seed, i, attempt + 1);
                    std::thread::sleep(std::time::Duration::from_millis(50));
                }
            }
        }
        if !done {
            eprintln!("session: history {}-{}-{} could not be set up", family, seed, i);
            std::process::exit(3);
        }
        w.flush().unwrap();
    }
    std::process::exit(0);
}
