//! C14 correspondence driver: a real `SyncAssetTransfer` endpoint (through the verif hook) on
//! 127.0.0.1 and ::1, an independent HTTP/1.1 client over `TcpStream`, random interleavings of
//! publications and requests, sequential and from 8 concurrent connections.
//!
//! usage: http <seed> <count> [quick|thorough]
use std::collections::BTreeMap;
use std::io::{Read, Write};
use std::net::{IpAddr, Ipv4Addr, Ipv6Addr, SocketAddr, TcpListener, TcpStream};
use std::sync::atomic::{AtomicUsize, Ordering};
use std::sync::{Arc, Mutex};
use std::time::Duration;

use bevy::{
    prelude::*,
    render::{
        render_asset::RenderAssetUsages,
        render_resource::{Extent3d, PrimitiveTopology, TextureDimension, TextureFormat},
    },
};
use bevy_sync::verif;
use bsharness::{hex, payload, rng::Rng};
use uuid::Uuid;

#[derive(Clone, Debug)]
struct Resp {
    status: u16,
    content_length: Option<usize>,
    chunked: bool,
    body: Vec<u8>,
}

fn free_port(ip: IpAddr) -> u16 {
    TcpListener::bind(SocketAddr::new(ip, 0)).unwrap().local_addr().unwrap().port()
}

fn dechunk(mut b: &[u8]) -> Option<Vec<u8>> {
    let mut out = vec![];
    loop {
        let pos = b.windows(2).position(|w| w == b"\r\n")?;
        let line = std::str::from_utf8(&b[..pos]).ok()?;
        let n = usize::from_str_radix(line.split(';').next()?.trim(), 16).ok()?;
        b = &b[pos + 2..];
        if n == 0 {
            return Some(out);
        }
        if b.len() < n + 2 {
            return None;
        }
        out.extend_from_slice(&b[..n]);
        b = &b[n + 2..];
    }
}

/// one request on its own connection, `Connection: close`, read to EOF
fn request(addr: SocketAddr, method: &str, path: &[u8], body: &[u8]) -> Result<Resp, String> {
    let mut s = TcpStream::connect_timeout(&addr, Duration::from_secs(5)).map_err(|e| e.to_string())?;
    s.set_read_timeout(Some(Duration::from_secs(10))).ok();
    let mut req = Vec::new();
    req.extend_from_slice(method.as_bytes());
    req.push(b' ');
    req.extend_from_slice(path);
    req.extend_from_slice(b" HTTP/1.1\r\nHost: verif\r\nConnection: close\r\n");
    if !body.is_empty() || method == "POST" || method == "PUT" {
        req.extend_from_slice(format!("Content-Length: {}\r\n", body.len()).as_bytes());
    }
    req.extend_from_slice(b"\r\n");
    req.extend_from_slice(body);
    s.write_all(&req).map_err(|e| e.to_string())?;
    let mut buf = Vec::new();
    s.read_to_end(&mut buf).map_err(|e| format!("read: {}", e))?;
    parse_response(buf)
}

fn parse_response(buf: Vec<u8>) -> Result<Resp, String> {
    let hend = buf.windows(4).position(|w| w == b"\r\n\r\n").ok_or("no header end")?;
    let head = String::from_utf8_lossy(&buf[..hend]).to_string();
    let mut lines = head.split("\r\n");
    let status: u16 = lines.next().and_then(|l| l.split(' ').nth(1)).and_then(|s| s.parse().ok()).ok_or("bad status line")?;
    let mut cl = None;
    let mut chunked = false;
    for l in lines {
        let low = l.to_ascii_lowercase();
        if let Some(v) = low.strip_prefix("content-length:") {
            cl = v.trim().parse().ok();
        }
        if low.starts_with("transfer-encoding:") && low.contains("chunked") {
            chunked = true;
        }
    }
    let raw = &buf[hend + 4..];
    let body = if chunked { dechunk(raw).ok_or("bad chunking")? } else { raw.to_vec() };
    Ok(Resp { status, content_length: cl, chunked, body })
}

fn resp_desc(r: &Result<Resp, String>) -> String {
    match r {
        Ok(r) => format!(
            "RESP {} {} {}",
            r.status,
            if r.chunked { "chunked".to_string() } else { r.content_length.map(|x| x.to_string()).unwrap_or("-".into()) },
            hex(&r.body)
        ),
        Err(e) => format!("RESP error {}", e.replace(' ', "_")),
    }
}

const CLASSES: [&str; 3] = ["mesh", "image", "audio"];

struct Ep {
    idx: usize,
    addr: SocketAddr,
    max: usize,
    ep: verif::AssetEndpoint,
    published: Vec<(usize, Uuid)>, // (class, id)
}

fn publish(out: &mut Vec<String>, rng: &mut Rng, e: &mut Ep, stats: &mut BTreeMap<String, u64>) {
    let class = rng.below(3);
    let id = if !e.published.is_empty() && rng.chance(1, 4) {
        // republish under a known uuid (possibly under another class): overwrite / cross-class cases
        let (_, id) = *rng.pick(&e.published);
        *stats.entry("http.publish.reused_uuid".into()).or_default() += 1;
        id
    } else {
        Uuid::from_bytes(rng.bytes(16).try_into().unwrap())
    };
    let sizes = [0usize, 1, 10, e.max.saturating_sub(1), e.max, e.max + 1, 3 * e.max + 7];
    let (bin, url) = match class {
        0 => {
            let mut mesh = Mesh::new(PrimitiveTopology::TriangleList, RenderAssetUsages::MAIN_WORLD | RenderAssetUsages::RENDER_WORLD);
            let n = rng.below(40);
            mesh.insert_attribute(
                Mesh::ATTRIBUTE_POSITION,
                (0..n).map(|_| [f32::from_bits(rng.u32()), 1.0, f32::from_bits(rng.u32())]).collect::<Vec<[f32; 3]>>(),
            );
            (verif::mesh_to_bin(&mesh), e.ep.serve_mesh(&id, &mesh))
        }
        1 => {
            let w = rng.range(1, 24);
            let data = payload(rng, w * 4);
            let img = Image::new(
                Extent3d { width: w as u32, height: 1, depth_or_array_layers: 1 },
                TextureDimension::D2,
                data,
                TextureFormat::Rgba8Unorm,
                RenderAssetUsages::RENDER_WORLD | RenderAssetUsages::MAIN_WORLD,
            );
            (verif::image_to_bin(&img).unwrap(), e.ep.serve_image(&id, &img))
        }
        _ => {
            let n = *rng.pick(&sizes);
            let bytes = payload(rng, n);
            let a = AudioSource { bytes: bytes.clone().into() };
            (bytes, e.ep.serve_audio(&id, &a))
        }
    };
    *stats.entry(format!("http.publish.{}", CLASSES[class])).or_default() += 1;
    let cls = if bin.len() < e.max { "below_limit" } else { "at_or_above_limit" };
    *stats.entry(format!("http.publish.body.{}", cls)).or_default() += 1;
    e.published.push((class, id));
    out.push(format!("pub {} {} {} {} URL {}", e.idx, CLASSES[class], hex(id.as_bytes()), hex(&bin), hex(url.as_bytes())));
}

fn gen_path(rng: &mut Rng, e: &Ep, stats: &mut BTreeMap<String, u64>) -> (String, Vec<u8>) {
    let known = if e.published.is_empty() { None } else { Some(*rng.pick(&e.published)) };
    let rnd = Uuid::from_bytes(rng.bytes(16).try_into().unwrap());
    let kind = rng.below(16);
    let (label, path): (&str, String) = match (kind, known) {
        (0..=4, Some((c, id))) => ("valid", format!("/{}/{}", CLASSES[c], id)),
        (5, Some((c, id))) => ("wrong_class", format!("/{}/{}", CLASSES[(c + 1 + rng.below(2)) % 3], id)),
        (6, _) => ("unknown_uuid", format!("/{}/{}", CLASSES[rng.below(3)], rnd)),
        (7, Some((c, id))) => match rng.below(4) {
            0 => ("uuid_simple", format!("/{}/{}", CLASSES[c], id.simple())),
            1 => ("uuid_upper", format!("/{}/{}", CLASSES[c], id.to_string().to_uppercase())),
            2 => ("uuid_urn", format!("/{}/{}", CLASSES[c], id.urn())),
            _ => ("uuid_braced", format!("/{}/{}", CLASSES[c], id.braced())),
        },
        (8, Some((c, id))) => ("nested", format!("/x/{}/{}", CLASSES[c], id)),
        (9, Some((c, id))) => ("trailing", format!("/{}/{}/extra", CLASSES[c], id)),
        (10, Some((c, id))) => ("query", format!("/{}/{}?v=1", CLASSES[c], id)),
        (11, Some((c, id))) => ("two_classes", format!("/{}//{}/{}", CLASSES[(c + 1) % 3], CLASSES[c], id)),
        (12, _) => (
            "non_uuid",
            format!("/{}/{}", CLASSES[rng.below(3)], ["", "x", "not-a-uuid", "0123", "zzzzzzzz-zzzz-zzzz-zzzz-zzzzzzzzzzzz", "../secret"][rng.below(6)]),
        ),
        (13, _) => ("no_class", ["/", "/meshes", "/mesh", "/favicon.ico", "/audio", "/images/1", "*"][rng.below(7)].to_string()),
        (14, Some((c, id))) => {
            // damage one character of a valid path
            let mut p = format!("/{}/{}", CLASSES[c], id).into_bytes();
            let i = rng.below(p.len());
            p[i] = *rng.pick(b"/gG-x0{}:%~");
            ("damaged", String::from_utf8(p).unwrap())
        }
        (_, _) => ("unknown_uuid", format!("/{}/{}", CLASSES[rng.below(3)], rnd)),
    };
    *stats.entry(format!("http.path.{}", label)).or_default() += 1;
    let method = if rng.chance(5, 6) { "GET" } else { *rng.pick(&["POST", "PUT", "DELETE", "OPTIONS", "PATCH"]) };
    *stats.entry(format!("http.method.{}", method)).or_default() += 1;
    (method.to_string(), path.into_bytes())
}

fn main() {
    let args: Vec<String> = std::env::args().collect();
    let seed: u64 = args.get(1).and_then(|s| s.parse().ok()).unwrap_or(1);
    let count: usize = args.get(2).and_then(|s| s.parse().ok()).unwrap_or(200);
    let thorough = args.get(3).map(|s| s == "thorough").unwrap_or(false);
    let mut rng = Rng::new(seed ^ 0x477);
    let mut stats: BTreeMap<String, u64> = BTreeMap::new();
    let mut lines: Vec<String> = vec![];
    let mut oracle_fail = 0u64;

    let ips = [IpAddr::V4(Ipv4Addr::LOCALHOST), IpAddr::V6(Ipv6Addr::LOCALHOST)];
    let mut eps: Vec<Ep> = vec![];
    for (idx, ip) in ips.iter().enumerate() {
        let port = free_port(*ip);
        let max = *rng.pick(&[64usize, 1000, 4096]);
        let ep = verif::AssetEndpoint::new(*ip, port, max);
        lines.push(format!(
            "endpoint {} {} {} {} {}",
            idx,
            if ip.is_ipv4() { "v4" } else { "v6" },
            hex(ip.to_string().as_bytes()),
            port,
            max
        ));
        eps.push(Ep { idx, addr: SocketAddr::new(*ip, port), max, ep, published: vec![] });
    }
    std::thread::sleep(Duration::from_millis(50));

    // ---- sequential phase
    let mut n = 0usize;
    while n < count {
        let ei = rng.below(eps.len());
        if rng.chance(1, 4) || eps[ei].published.is_empty() {
            publish(&mut lines, &mut rng, &mut eps[ei], &mut stats);
        } else {
            let (method, path) = gen_path(&mut rng, &eps[ei], &mut stats);
            let body = if method == "POST" || method == "PUT" { { let k = rng.below(3 * eps[ei].max); rng.bytes(k) } } else { vec![] };
            let r = request(eps[ei].addr, &method, &path, &body);
            if let Err(e) = &r {
                oracle_fail += 1;
                lines.push(format!("#ORACLE-FAIL http http-{}-{} request got no answer: {}", seed, n, e));
            }
            *stats.entry(format!("http.status.{}", r.as_ref().map(|r| r.status).unwrap_or(0))).or_default() += 1;
            lines.push(format!("req http-{}-{} {} {} {} {}", seed, n, ei, method, hex(&path), resp_desc(&r)));
            n += 1;
        }
    }

    // ---- concurrent phase: 8 connections hammer one endpoint while the main thread publishes
    let rounds = if thorough { 4 } else { 1 };
    for round in 0..rounds {
        let ei = round % eps.len();
        let base = lines.iter().filter(|l| l.starts_with(&format!("pub {} ", ei))).count();
        let started = Arc::new(AtomicUsize::new(base));
        let done = Arc::new(AtomicUsize::new(base));
        let results: Arc<Mutex<Vec<String>>> = Arc::new(Mutex::new(vec![]));
        let nreq = if thorough { 60 } else { 25 };
        // pre-generate the request plans (paths over current and *future* ids are both interesting:
        // future ids are drawn now and published during the storm)
        let future: Vec<(usize, Uuid)> = (0..12).map(|_| (rng.below(3), Uuid::from_bytes(rng.bytes(16).try_into().unwrap()))).collect();
        let mut handles = vec![];
        for t in 0..8 {
            let mut trng = rng.fork();
            let addr = eps[ei].addr;
            let known: Vec<(usize, Uuid)> = eps[ei].published.iter().cloned().chain(future.iter().cloned()).collect();
            let (started, done, results) = (started.clone(), done.clone(), results.clone());
            handles.push(std::thread::spawn(move || {
                for k in 0..nreq {
                    let (c, id) = *trng.pick(&known);
                    let path = match trng.below(6) {
                        0 => format!("/{}/{}", CLASSES[(c + 1) % 3], id),
                        1 => format!("/{}/nonsense", CLASSES[c]),
                        _ => format!("/{}/{}", CLASSES[c], id),
                    };
                    let lo = done.load(Ordering::SeqCst);
                    let r = request(addr, "GET", path.as_bytes(), &[]);
                    let hi = started.load(Ordering::SeqCst);
                    results.lock().unwrap().push(format!(
                        "creq http-c{}-{}-{} {} {} {} GET {} {}",
                        round, t, k, ei, lo, hi, hex(path.as_bytes()), resp_desc(&r)
                    ));
                }
            }));
        }
        for (c, id) in future {
            std::thread::sleep(Duration::from_millis(rng.below(4) as u64));
            let blen = rng.below(200) + 1;
            let bytes = payload(&mut rng, blen);
            started.fetch_add(1, Ordering::SeqCst);
            let (bin, url) = match c {
                2 => {
                    let a = AudioSource { bytes: bytes.clone().into() };
                    (bytes, eps[ei].ep.serve_audio(&id, &a))
                }
                1 => {
                    let w = (bytes.len() / 4).max(1);
                    let img = Image::new(
                        Extent3d { width: w as u32, height: 1, depth_or_array_layers: 1 },
                        TextureDimension::D2,
                        payload(&mut rng, w * 4),
                        TextureFormat::Rgba8Unorm,
                        RenderAssetUsages::RENDER_WORLD | RenderAssetUsages::MAIN_WORLD,
                    );
                    (verif::image_to_bin(&img).unwrap(), eps[ei].ep.serve_image(&id, &img))
                }
                _ => {
                    let mut mesh = Mesh::new(PrimitiveTopology::LineList, RenderAssetUsages::MAIN_WORLD | RenderAssetUsages::RENDER_WORLD);
                    mesh.insert_attribute(Mesh::ATTRIBUTE_POSITION, vec![[1.0f32, 2.0, bytes.len() as f32]]);
                    (verif::mesh_to_bin(&mesh), eps[ei].ep.serve_mesh(&id, &mesh))
                }
            };
            done.fetch_add(1, Ordering::SeqCst);
            eps[ei].published.push((c, id));
            lines.push(format!("pub {} {} {} {} URL {}", ei, CLASSES[c], hex(id.as_bytes()), hex(&bin), hex(url.as_bytes())));
        }
        for h in handles {
            h.join().unwrap();
        }
        let mut rs = results.lock().unwrap().clone();
        rs.sort();
        for r in rs {
            if r.contains("RESP error") {
                oracle_fail += 1;
                lines.push(format!("#ORACLE-FAIL http {} concurrent request got no answer", r.split(' ').nth(1).unwrap_or("?")));
            }
            *stats.entry("http.concurrent.requests".into()).or_default() += 1;
            lines.push(r);
        }
    }

    // ---- slow-reader phase: a publication made while the responder is in the middle of a large response of
    // the same class must be served afterwards.  The large asset is oracle-only (no `pub` line: its body would be
    // 64 MB of hex); the small one and the request for it are ordinary model lines.
    for c in 0..3usize {
        let ei = c % eps.len();
        let big_n = 32usize << 20;
        let big_id = Uuid::from_bytes(rng.bytes(16).try_into().unwrap());
        let big_bin: Vec<u8> = match c {
            2 => {
                let bytes: Vec<u8> = (0..big_n).map(|i| (i % 251) as u8 ^ (i >> 13) as u8).collect();
                let a = AudioSource { bytes: bytes.clone().into() };
                eps[ei].ep.serve_audio(&big_id, &a);
                bytes
            }
            1 => {
                let mut x = rng.u64() | 1;
                let data: Vec<u8> = (0..big_n).map(|_| { x ^= x << 13; x ^= x >> 7; x ^= x << 17; x as u8 }).collect();
                let img = Image::new(
                    Extent3d { width: 4096, height: (big_n / 4096) as u32, depth_or_array_layers: 1 },
                    TextureDimension::D2,
                    data,
                    TextureFormat::R8Unorm,
                    RenderAssetUsages::RENDER_WORLD | RenderAssetUsages::MAIN_WORLD,
                );
                eps[ei].ep.serve_image(&big_id, &img);
                verif::image_to_bin(&img).unwrap()
            }
            _ => {
                let mut x = rng.u64() | 1;
                let mut mesh = Mesh::new(PrimitiveTopology::PointList, RenderAssetUsages::MAIN_WORLD | RenderAssetUsages::RENDER_WORLD);
                mesh.insert_attribute(
                    Mesh::ATTRIBUTE_POSITION,
                    (0..big_n / 12).map(|_| { x ^= x << 13; x ^= x >> 7; x ^= x << 17; [(x as u32 >> 8) as f32, (x >> 40) as f32, 1.0] }).collect::<Vec<[f32; 3]>>(),
                );
                eps[ei].ep.serve_mesh(&big_id, &mesh);
                verif::mesh_to_bin(&mesh)
            }
        };
        let addr = eps[ei].addr;
        let path = format!("/{}/{}", CLASSES[c], big_id);
        let (tx, rx) = std::sync::mpsc::channel::<()>();
        let slow = std::thread::spawn(move || -> Result<Vec<u8>, String> {
            let mut s = TcpStream::connect(addr).map_err(|e| e.to_string())?;
            s.set_read_timeout(Some(Duration::from_secs(30))).ok();
            write!(s, "GET {} HTTP/1.1\r\nHost: localhost\r\nConnection: close\r\n\r\n", path).map_err(|e| e.to_string())?;
            let mut raw = vec![0u8; 512];
            let n = s.read(&mut raw).map_err(|e| e.to_string())?;
            raw.truncate(n);
            tx.send(()).ok();
            std::thread::sleep(Duration::from_millis(400));
            s.read_to_end(&mut raw).map_err(|e| e.to_string())?;
            Ok(raw)
        });
        let started = rx.recv_timeout(Duration::from_secs(30)).is_ok();
        // the responder is inside the large response now: a burst of requests from independent connections queues up
        // behind it (every one of them must be answered once the responder is free) ...
        let burst_target = eps[ei].published.iter().rev().find(|(_, u)| *u != big_id).cloned();
        let mut burst = vec![];
        if let Some((bc, bid)) = burst_target {
            for k in 0..48 {
                let bpath = format!("/{}/{}", CLASSES[bc], bid);
                burst.push(std::thread::spawn(move || {
                    let r = request(addr, "GET", bpath.as_bytes(), &[]);
                    (k, bpath, r)
                }));
            }
        }
        // ... and a small asset of the same class is published
        let id = Uuid::from_bytes(rng.bytes(16).try_into().unwrap());
        let blen = rng.below(40) + 1;
        let bytes = payload(&mut rng, blen);
        let (bin, url) = match c {
            2 => {
                let a = AudioSource { bytes: bytes.clone().into() };
                (bytes, eps[ei].ep.serve_audio(&id, &a))
            }
            1 => {
                let img = Image::new(
                    Extent3d { width: bytes.len() as u32, height: 1, depth_or_array_layers: 1 },
                    TextureDimension::D2,
                    bytes,
                    TextureFormat::R8Unorm,
                    RenderAssetUsages::RENDER_WORLD | RenderAssetUsages::MAIN_WORLD,
                );
                (verif::image_to_bin(&img).unwrap(), eps[ei].ep.serve_image(&id, &img))
            }
            _ => {
                let mut mesh = Mesh::new(PrimitiveTopology::LineStrip, RenderAssetUsages::MAIN_WORLD | RenderAssetUsages::RENDER_WORLD);
                mesh.insert_attribute(Mesh::ATTRIBUTE_POSITION, vec![[0.5f32, bytes.len() as f32, bytes[0] as f32]]);
                (verif::mesh_to_bin(&mesh), eps[ei].ep.serve_mesh(&id, &mesh))
            }
        };
        eps[ei].published.push((c, id));
        let pub_idx = lines.len();
        lines.push(format!("pub {} {} {} {} URL {}", ei, CLASSES[c], hex(id.as_bytes()), hex(&bin), hex(url.as_bytes())));
        *stats.entry(format!("http.slow_reader.{}", CLASSES[c])).or_default() += 1;
        let tag = format!("http-{}-slow{}", seed, c);
        match slow.join().unwrap() {
            Ok(raw) if started => {
                let ok = parse_response(raw).map(|r| r.status == 200 && r.body == big_bin).unwrap_or(false);
                if !ok {
                    oracle_fail += 1;
                    lines.push(format!("#ORACLE-FAIL http {} a {} MiB {} body read slowly is not the published one", tag, big_n >> 20, CLASSES[c]));
                }
            }
            other => {
                oracle_fail += 1;
                lines.push(format!("#ORACLE-FAIL http {} the slow download of a large {} did not complete: {:?}", tag, CLASSES[c], other.err()));
            }
        }
        // (the burst's target was published before this phase: its lines go before nothing that could change its answer)
        let mut not_served = 0;
        let mut burst_lines = vec![];
        for b in burst {
            let (k, bpath, r) = b.join().unwrap();
            if !matches!(&r, Ok(resp) if resp.status == 200) {
                not_served += 1;
            }
            burst_lines.push(format!("req http-{}-burst{}-{:02} {} GET {} {}", seed, c, k, ei, hex(bpath.as_bytes()), resp_desc(&r)));
        }
        burst_lines.sort();
        *stats.entry("http.slow_reader.burst_requests".into()).or_default() += burst_lines.len() as u64;
        if not_served > 0 {
            oracle_fail += 1;
            lines.push(format!("#ORACLE-FAIL http http-{}-burst{}-00 {} of {} requests for a published asset that arrived while the responder was busy with a large response were not answered with 200", seed, c, not_served, burst_lines.len()));
        }
        // the burst lines are placed before this phase's `pub` line
        for (j, l) in burst_lines.into_iter().enumerate() {
            lines.insert(pub_idx + j, l);
        }
        let path = format!("/{}/{}", CLASSES[c], id);
        let r = request(eps[ei].addr, "GET", path.as_bytes(), &[]);
        match &r {
            Ok(resp) if resp.status == 200 && resp.body == bin => {}
            _ => {
                oracle_fail += 1;
                lines.push(format!("#ORACLE-FAIL http {} a {} published while a large response of the same class was being written is not served afterwards ({})", tag, CLASSES[c], resp_desc(&r).chars().take(60).collect::<String>()));
            }
        }
        lines.push(format!("req {} {} GET {} {}", tag, ei, hex(path.as_bytes()), resp_desc(&r)));
    }

    // ---- liveness after everything: every endpoint still answers a fresh valid request
    for e in eps.iter() {
        if let Some((c, id)) = e.published.last() {
            let path = format!("/{}/{}", CLASSES[*c], id);
            let r = request(e.addr, "GET", path.as_bytes(), &[]);
            if r.is_err() {
                oracle_fail += 1;
                lines.push(format!("#ORACLE-FAIL http http-{}-final{} endpoint no longer answers", seed, e.idx));
            }
            lines.push(format!("req http-{}-final{} {} GET {} {}", seed, e.idx, e.idx, hex(path.as_bytes()), resp_desc(&r)));
        }
    }

    let stdout = std::io::stdout();
    let mut w = std::io::BufWriter::new(stdout.lock());
    for l in lines {
        writeln!(w, "{}", l).unwrap();
    }
    for (k, v) in stats {
        writeln!(w, "#STAT {}={}", k, v).unwrap();
    }
    writeln!(w, "#STAT oracle_fail={}", oracle_fail).unwrap();
    w.flush().unwrap();
    // the endpoint threads never end: leave without joining them
    std::process::exit(0);
}
