import BevySyncModel.Lz4
import BevySyncModel.Wire
import BevySyncModel.Codec.Mesh
import BevySyncModel.Codec.Image
import BevySyncModel.Codec.Message
import BevySyncModel.Codec.Reflect
import BevySyncModel.Generated.TextureFormats
import BevySyncModel.Generated.Http
import BevySyncModel.Http
import BevySyncModel.Slice.Comp
import BevySyncModel.Slice.Panic
import BevySyncModel.Slice.Skin
import BevySyncModel.Slice.Fix
import BevySyncModel.Slice.Filter
import BevySyncModel.Slice.Ent
import BevySyncModel.Slice.Conn
import BevySyncModel.Slice.Asset
import BevySyncModel.Slice.Mat
import BevySyncModel.Slice.Mark
import BevySyncModel.Slice.Snap
import BevySyncModel.Slice.Promo
import BevySyncModel.Slice.Chain
import BevySyncModel.Slice.Budget
import BevySyncModel.Slice.World
import BevySyncModel.Slice.Hier
/-! `bsmodel`: runs the executable model definitions on the cases the Rust harness prints, one line
in, one line out (`ok <id>` / `MISMATCH <id> <what>`).  Lines starting with `#` are ignored.
Only model files are imported (no proofs, no Mathlib), so this links as a native executable.
Parsing below is glue, not model: it is trusted to hand the model the case the harness printed. -/
open BevySync BevySync.Wire BevySync.Codec

def hexVal (c : Char) : Nat :=
  if '0' ≤ c ∧ c ≤ '9' then c.toNat - '0'.toNat
  else if 'a' ≤ c ∧ c ≤ 'f' then c.toNat - 'a'.toNat + 10
  else 0

partial def unhexGo : List Char → List UInt8 → List UInt8
  | a :: b :: r, acc => unhexGo r (UInt8.ofNat (hexVal a * 16 + hexVal b) :: acc)
  | _, acc => acc.reverse

def unhex (s : String) : List UInt8 := if s == "-" then [] else unhexGo s.toList []

partial def lanesGo (w : Nat) : List UInt8 → List Nat → List Nat
  | [], acc => acc.reverse
  | bs, acc => lanesGo w (bs.drop w) (leVal (bs.take w) :: acc)
def lanes (w : Nat) (bs : List UInt8) : List Nat := lanesGo w bs []

partial def chunkGo (k : Nat) : List Nat → List (List Nat) → List (List Nat)
  | [], acc => acc.reverse
  | l, acc => chunkGo k (l.drop k) (l.take k :: acc)
def chunk (k : Nat) (l : List Nat) : List (List Nat) := chunkGo k l []

def parseAttr (k w : Nat) (tok : String) : Option Rows :=
  if tok == "-" then none
  else if tok == "0" then some []
  else some (chunk k (lanes w (unhex tok)))

def parseIdx (tok : String) : Indices :=
  if tok == "-" then .none
  else
    let body := (tok.drop 2).toString
    if tok.startsWith "h:" then .u16 (lanes 2 (unhex body)) else .u32 (lanes 4 (unhex body))

def parseMorph (tok : String) : Morph :=
  if tok == "-" then .none
  else if tok == "s" then .strong
  else if tok.startsWith "u:" then .weakUuid (unhex (tok.drop 2).toString)
  else
    match tok.splitOn ":" with
    | [_, g, i] => .weakIndex g.toNat! i.toNat!
    | _ => .none

def parseNames (tok : String) : Option (List (List UInt8)) :=
  if tok == "-" then none
  else if tok == "0" then some []
  else some ((tok.splitOn ",").map (fun s => if s == "e" then [] else unhex s))

/-- `T t A a0..a7 I idx M morph N names` (15 tokens) -/
def parseMesh : List String → Option (Mesh × List String)
  | "T" :: t :: "A" :: p :: n :: a0 :: a1 :: tg :: cl :: jw :: ji :: "I" :: ix :: "M" :: mo :: "N" :: nm :: rest =>
    some ({ topology := t.toNat!, positions := parseAttr 3 4 p, normals := parseAttr 3 4 n,
            uv0 := parseAttr 2 4 a0, uv1 := parseAttr 2 4 a1, tangents := parseAttr 4 4 tg,
            colors := parseAttr 4 4 cl, jointWeights := parseAttr 4 4 jw, jointIndices := parseAttr 4 2 ji,
            indices := parseIdx ix, morph := parseMorph mo, morphNames := parseNames nm }, rest)
  | _ => none

def names := Generated.textureFormatNames

def parseImage : List String → Option (Except String Image × List String)
  | w :: h :: d :: dim :: fmt :: data :: rest =>
    match findIdx names (unhex fmt) with
    | some f => some (.ok { width := w.toNat!, height := h.toNat!, depth := d.toNat!, dim := dim.toNat!,
                            fmt := f, data := unhex data }, rest)
    | none => some (.error "format name not in the regenerated table", rest)
  | _ => none

def parseMsg : List String → Option Msg
  | ["spawn", u] => some (.entitySpawn (unhex u))
  | ["parented", e, p] => some (.entityParented (unhex e) (unhex p))
  | ["delete", u] => some (.entityDelete (unhex u))
  | ["comp", u, n, d] => some (.componentUpdated (unhex u) (unhex n) (unhex d))
  | ["mat", u, m] => some (.standardMaterialUpdated (unhex u) (unhex m))
  | ["mesh", u, s] => some (.meshUpdated (unhex u) (unhex s))
  | ["image", u, s] => some (.imageUpdated (unhex u) (unhex s))
  | ["audio", u, s] => some (.audioUpdated (unhex u) (unhex s))
  | ["promote"] => some .promoteToHost
  | ["newhost", v, ip, port, web, mx] =>
    let o := (unhex ip).map (·.toNat)
    some (.newHost { ip := if v == "4" then .v4 o else .v6 o, port := port.toNat!, webPort := web.toNat!,
                     maxTransfer := mx.toNat! })
  | ["reqsync"] => some .requestInitialSync
  | ["finsync"] => some .finishedInitialSync
  | _ => none

/-! ### Ty / Val text syntax (see harness `reflect_cases.rs`) -/
partial def takeWhileC (p : Char → Bool) : List Char → List Char → List Char × List Char
  | c :: r, acc => if p c then takeWhileC p r (c :: acc) else (acc.reverse, c :: r)
  | [], acc => (acc.reverse, [])

def natOf (cs : List Char) : Nat := cs.foldl (fun n c => n * 10 + (c.toNat - '0'.toNat)) 0

mutual
partial def pTy : List Char → Option (Ty × List Char)
  | 'u' :: r =>
    let (d, r') := takeWhileC Char.isDigit r []
    some (.uint (natOf d), r')
  | 'b' :: r => some (.bool, r)
  | 's' :: r => some (.str, r)
  | 'y' :: r => some (.bytes, r)
  | 'g' :: r => some (.uuid, r)
  | 'o' :: '(' :: r => match pTy r with
    | some (t, ')' :: r') => some (.opt t, r')
    | _ => none
  | 'q' :: '(' :: r => match pTy r with
    | some (t, ')' :: r') => some (.seq t, r')
    | _ => none
  | 't' :: '(' :: r => match pTys r with
    | some (ts, r') => some (.tup (TyList.ofList ts), r')
    | none => none
  | 'e' :: '(' :: r => match pTys r with
    | some (ts, r') => some (.enm (TyList.ofList ts), r')
    | none => none
  | _ => none
partial def pTys : List Char → Option (List Ty × List Char)
  | ')' :: r => some ([], r)
  | cs => match pTy cs with
    | some (t, ',' :: r) => match pTys r with
      | some (ts, r') => some (t :: ts, r')
      | none => none
    | some (t, ')' :: r) => some ([t], r)
    | _ => none
end

def hexOf (cs : List Char) : List UInt8 := unhex (String.ofList cs)
def isHexC (c : Char) : Bool := c.isDigit || ('a' ≤ c && c ≤ 'f') || c == '-'

mutual
partial def pVal : List Char → Option (Val × List Char)
  | 'i' :: r =>
    let (w, r1) := takeWhileC Char.isDigit r []
    match r1 with
    | ':' :: r2 =>
      let (n, r3) := takeWhileC Char.isDigit r2 []
      some (.int (natOf w) (natOf n), r3)
    | _ => none
  | 'T' :: r => some (.bool true, r)
  | 'F' :: r => some (.bool false, r)
  | 's' :: ':' :: r => let (h, r') := takeWhileC isHexC r []; some (.str (hexOf h), r')
  | 'y' :: ':' :: r => let (h, r') := takeWhileC isHexC r []; some (.bytes (hexOf h), r')
  | 'g' :: ':' :: r => let (h, r') := takeWhileC isHexC r []; some (.uuid (hexOf h), r')
  | 'n' :: r => some (.none, r)
  | 'S' :: '(' :: r => match pVal r with
    | some (v, ')' :: r') => some (.some v, r')
    | _ => none
  | 'q' :: '(' :: r => match pVals r with
    | some (vs, r') => some (.seq (ValList.ofList vs), r')
    | none => none
  | 't' :: '(' :: r => match pVals r with
    | some (vs, r') => some (.tup (ValList.ofList vs), r')
    | none => none
  | 'v' :: r =>
    let (d, r1) := takeWhileC Char.isDigit r []
    match r1 with
    | '(' :: r2 => match pVal r2 with
      | some (v, ')' :: r3) => some (.variant (natOf d) v, r3)
      | _ => none
    | _ => none
  | _ => none
partial def pVals : List Char → Option (List Val × List Char)
  | ')' :: r => some ([], r)
  | cs => match pVal cs with
    | some (v, ',' :: r) => match pVals r with
      | some (vs, r') => some (v :: vs, r')
      | none => none
    | some (v, ')' :: r) => some ([v], r)
    | _ => none
end

def parseTy (s : String) : Option Ty := match pTy s.toList with | some (t, []) => some t | _ => none
def parseVal (s : String) : Option Val := match pVal s.toList with | some (v, []) => some v | _ => none

def parseReg (s : String) : Option Registry :=
  (s.splitOn ";").mapM (fun e => match e.splitOn "=" with
    | [p, t] => (parseTy t).map (fun ty => (unhex p, ty))
    | _ => none)

/-! ### per-line checks -/
def checkMesh (toks : List String) : String :=
  match parseMesh toks with
  | some (m, "BIN" :: bin :: "DEC" :: dec) =>
    let bin := unhex bin
    if !m.wf then "MISMATCH model: mesh outside the codec's domain (wf false)"
    else if meshToBin m != bin then "MISMATCH enc: model bytes differ from mesh_to_bin"
    else
      match binToMesh bin, dec with
      | .error _, ["panic"] => "ok"
      | .ok m', d =>
        match parseMesh d with
        | some (md, []) =>
          if m' != md then "MISMATCH dec: model mesh differs from bin_to_mesh"
          else if m' != m.normalize then "MISMATCH roundtrip: decoded mesh differs from the original"
          else "ok"
        | _ => "MISMATCH dec: implementation panicked, model decodes"
      | .error _, _ => "MISMATCH dec: model fails, implementation decodes"
  | _ => "MISMATCH parse"

def checkMeshDec (toks : List String) : String :=
  match toks with
  | "BIN" :: bin :: "DEC" :: dec =>
    match binToMesh (unhex bin), dec with
    | .error (.panicDecompress _), ["panic"] => "ok"
    | .error .glue, _ => "MISMATCH dec: glue cannot read a well-typed MeshData"
    | .ok m', d =>
      match parseMesh d with
      | some (md, []) => if m' == md then "ok" else "MISMATCH dec: model mesh differs from bin_to_mesh (malformed input)"
      | _ => "MISMATCH dec: implementation panicked, model decodes (malformed input)"
    | .error _, _ => "MISMATCH dec: model panics, implementation decodes (malformed input)"
  | _ => "MISMATCH parse"

def descImageEq (r : Option Image) (dec : List String) : Option String :=
  match r, dec with
  | none, ["none"] => none
  | some i, d =>
    match parseImage d with
    | some (.ok i', []) => if i == i' then none else some "model image differs from bin_to_image"
    | some (.error e, _) => some e
    | _ => some "implementation returned None/panicked, model decodes"
  | none, _ => some "model returns None, implementation decodes"

def checkImage (toks : List String) : String :=
  match parseImage toks with
  | some (.error e, _) => s!"MISMATCH table: {e}"
  | some (.ok i, "BIN" :: bin :: "DEC" :: dec) =>
    let bin := unhex bin
    if !i.wf names then "MISMATCH model: image outside the codec's domain (wf false)"
    else if imageToBin names i != bin then "MISMATCH enc: model bytes differ from image_to_bin"
    else
      match binToImage names bin, dec with
      | .error _, ["panic"] => "ok"
      | .error _, _ => "MISMATCH dec: model panics, implementation does not"
      | .ok _, ["panic"] => "MISMATCH dec: implementation panicked, model does not"
      | .ok r, d =>
        match descImageEq r d with
        | some e => s!"MISMATCH dec: {e}"
        | none => if r == some i then "ok" else "MISMATCH roundtrip: decoded image differs from the original"
  | _ => "MISMATCH parse"

def checkImageDec (toks : List String) : String :=
  match toks with
  | "BIN" :: bin :: "DEC" :: dec =>
    match binToImage names (unhex bin), dec with
    | .error _, ["panic"] => "ok"
    | .error _, _ => "MISMATCH dec: model panics, implementation does not (malformed input)"
    | .ok _, ["panic"] => "MISMATCH dec: implementation panicked, model does not (malformed input)"
    | .ok (some _), ["assert"] => "ok"   -- bevy's `Image::new` debug assertion on a decoded image
    | .ok none, ["assert"] => "MISMATCH dec: implementation reached Image::new, model returns None"
    | .ok r, d =>
      match descImageEq r d with
      | some e => s!"MISMATCH dec: {e} (malformed input)"
      | none => "ok"
  | _ => "MISMATCH parse"

def splitAt (key : String) (toks : List String) : List String × List String :=
  (toks.takeWhile (· != key), (toks.dropWhile (· != key)).drop 1)

def checkMsg (toks : List String) : String :=
  let (d, rest) := splitAt "BIN" toks
  match parseMsg d, rest with
  | some m, [bin] =>
    let bin := unhex bin
    if !m.wf then "MISMATCH model: message outside the domain (wf false)"
    else if encodeMsg m != bin then "MISMATCH enc: model bytes differ from bincode::serialize(&Message)"
    else if decodeMsg bin != some m then "MISMATCH dec: model does not decode the bytes back to the message"
    else "ok"
  | _, _ => "MISMATCH parse"

def checkMsgDec (toks : List String) : String :=
  match toks with
  | "BIN" :: bin :: "DEC" :: dec =>
    match decodeMsg (unhex bin), dec with
    | none, ["err"] => "ok"
    | some m, d =>
      match parseMsg d with
      | some m' => if m == m' then "ok" else "MISMATCH dec: model message differs from bincode::deserialize (malformed input)"
      | none => "MISMATCH dec: implementation fails, model decodes (malformed input)"
    | none, _ => "MISMATCH dec: model fails, implementation decodes (malformed input)"
  | _ => "MISMATCH parse"

def checkReflect (toks : List String) : String :=
  match toks with
  | ["REG", reg, "PATH", path, "VAL", val, "BIN", bin, "DECVAL", decval, "REBIN", rebin] =>
    match parseReg reg, parseVal val with
    | some reg, some v =>
      let path := unhex path
      let bin := unhex bin
      match reg.find path with
      | none => "MISMATCH parse: path not in registry"
      | some t =>
        if !(wt t v && wt .str (.str path)) then "MISMATCH model: value is not well-typed for the derived descriptor"
        else if reflectToBin path v != bin then "MISMATCH enc: model bytes differ from reflect_to_bin"
        else
          match binToReflect reg bin with
          | none => "MISMATCH dec: model cannot decode reflect_to_bin output"
          | some (p', v') =>
            if p' != path || !(Val.beq v' v) then "MISMATCH roundtrip: model decodes to a different value"
            else
              match parseVal decval with
              | none => s!"MISMATCH dec: implementation result unreadable ({decval.take 40})"
              | some dv =>
                if !(Val.beq dv v') then "MISMATCH dec: bin_to_reflect value differs from the model's"
                else if unhex rebin != bin then "MISMATCH reenc: implementation re-encoding differs"
                else if reflectToBin p' v' != bin then "MISMATCH reenc: model re-encoding differs"
                else "ok"
    | _, _ => "MISMATCH parse: descriptor or value syntax"
  | _ => "MISMATCH parse"

def checkFmtName (toks : List String) : String :=
  match toks with
  | [n] => if (findIdx names (unhex n)).isSome then "ok" else "MISMATCH table: format name not in the regenerated table"
  | _ => "MISMATCH parse"

/-! ### HTTP endpoint (stateful: per endpoint the cache after every publication) -/
structure HttpEp where
  v6 : Bool
  addrText : List UInt8
  portText : List UInt8
  max : Nat
  hist : Array Http.Caches

/-! ### slice replays: the check script projects a real session trace onto one slice instance and
sends the model actions (`a …`) interleaved with what the implementation showed (`x …`) -/
structure CompInst where
  id : String
  legacy : Bool
  lpatch : Bool
  relayAlways : Bool := false
  st : Comp.State (List Nat)
  steps : Nat := 0
  failed : Option String := none

structure EntInst where
  id : String
  st : Ent.State
  steps : Nat := 0
  failed : Option String := none

structure DState where
  eps : Array HttpEp := #[]
  comp : Option CompInst := none
  ent : Option EntInst := none

def parseV (s : String) : Option (List Nat) :=
  if s == "-" then none else if s == "e" then some [] else some ((s.splitOn ".").map String.toNat!)

def showV : Option (List Nat) → String
  | none => "-"
  | some [] => "e"
  | some l => ".".intercalate (l.map toString)

def compAct (toks : List String) : Option (Comp.Act (List Nat)) :=
  match toks with
  | ["writeH", v] => (parseV v).map Comp.Act.writeH
  | ["detectH"] => some .detectH
  | ["reactH"] => some .reactH
  | ["pollH", i, n] => some (.pollH i.toNat! n.toNat!)
  | ["flushH"] => some .flushH
  | ["writeC", i, v] => (parseV v).map (Comp.Act.writeC i.toNat!)
  | ["detectC", i] => some (.detectC i.toNat!)
  | ["reactC", i] => some (.reactC i.toNat!)
  | ["pollC", i, n] => some (.pollC i.toNat! n.toNat!)
  | ["flushC", i] => some (.flushC i.toNat!)
  | _ => none

def compPeerObs (p : Comp.Peer (List Nat)) : String :=
  s!"val={showV p.val} token={if p.token then 1 else 0} queue={p.queue.length}"

def entAct (toks : List String) : Option Ent.Act :=
  match toks with
  | ["markH"] => some .markH | ["createdH"] => some .createdH | ["despawnH"] => some .despawnH | ["removedH"] => some .removedH
  | ["pollH", i, n] => some (.pollH i.toNat! n.toNat!)
  | ["markC", i] => some (.markC i.toNat!) | ["createdC", i] => some (.createdC i.toNat!)
  | ["despawnC", i] => some (.despawnC i.toNat!) | ["removedC", i] => some (.removedC i.toNat!)
  | ["pollC", i, n] => some (.pollC i.toNat! n.toNat!)
  | ["leave", i] => some (.leave i.toNat!)
  | _ => none

def handleEnt (st : DState) (ei : EntInst) (toks : List String) : DState × Option String :=
  match toks with
  | "a" :: rest =>
    match entAct rest with
    | some a => ({ st with ent := some { ei with st := Ent.step ei.st a, steps := ei.steps + 1 } }, none)
    | none => ({ st with ent := some { ei with failed := ei.failed.orElse (fun _ => some s!"bad action {rest}") } }, none)
  | "x" :: rest =>
    if ei.failed.isSome then (st, none) else
    let (who, p, exp) : String × Option Ent.Peer × List String := match rest with
      | "H" :: e => ("H", some ei.st.host, e)
      | "C" :: i :: e => (s!"C{i}", (Ent.findClient i.toNat! ei.st.clients).map (·.p), e)
      | _ => ("?", none, [])
    match p, exp with
    | some p, [cnt, tr] =>
      let m := s!"count={p.count} tracked={if p.tracked then 1 else 0}"
      let o := s!"count={cnt} tracked={tr}"
      if m == o then (st, none)
      else ({ st with ent := some { ei with failed := some s!"after {ei.steps} actions peer {who}: model {m} vs implementation {o}" } }, none)
    | _, _ => ({ st with ent := some { ei with failed := some "bad expectation" } }, none)
  | ["send"] =>
    ({ st with ent := none }, some (match ei.failed with
      | none => s!"ok {ei.id}"
      | some f => s!"MISMATCH slice ent: {f} {ei.id}"))
  | _ => (st, some "MISMATCH parse slice ent")

def handleSlice (st : DState) (toks : List String) : DState × Option String :=
  match st.ent, toks with
  | some ei, t => handleEnt st ei t
  | none, "sbegin" :: "ent" :: inst :: n :: _ =>
    let clients := (List.range n.toNat!).map (fun k => ({ id := k + 1 } : Ent.Client))
    ({ st with ent := some { id := inst, st := { clients := clients } } }, none)
  | none, toks =>
  match toks with
  | "sbegin" :: "comp" :: inst :: n :: legacy :: patch :: vH :: vs =>
    let clients := (List.range n.toNat!).map (fun k =>
      ({ id := k + 1, p := { val := parseV (vs.getD k "-") } } : Comp.Client (List Nat)))
    ({ st with comp := some { id := inst, legacy := legacy == "1", lpatch := patch == "l", relayAlways := patch == "R",
                              st := { host := { val := parseV vH }, clients := clients } } }, none)
  | "a" :: rest =>
    match st.comp with
    | some ci =>
      match compAct rest with
      | some a =>
        let patch : List Nat → List Nat → List Nat := if ci.lpatch then Comp.listPatch else Comp.replace
        ({ st with comp := some { ci with st := Comp.step ci.relayAlways ci.legacy patch ci.st a, steps := ci.steps + 1 } }, none)
      | none => ({ st with comp := some { ci with failed := ci.failed.orElse (fun _ => some s!"bad action {rest}") } }, none)
    | none => (st, some "MISMATCH slice: action outside an instance")
  | "x" :: rest =>
    match st.comp with
    | some ci =>
      if ci.failed.isSome then (st, none) else
      let (who, p, exp) : String × Option (Comp.Peer (List Nat)) × List String := match rest with
        | "H" :: e => ("H", some ci.st.host, e)
        | "C" :: i :: e => (s!"C{i}", (Comp.findClient i.toNat! ci.st.clients).map (·.p), e)
        | _ => ("?", none, [])
      match p, exp with
      | some p, [v, t, q] =>
        let obs := s!"val={v} token={t} queue={q}"
        if compPeerObs p == obs then (st, none)
        else ({ st with comp := some { ci with failed := some s!"after {ci.steps} actions peer {who}: model {compPeerObs p} vs implementation {obs}" } }, none)
      | _, _ => ({ st with comp := some { ci with failed := some "bad expectation" } }, none)
    | none => (st, some "MISMATCH slice: expectation outside an instance")
  | ["send"] =>
    match st.comp with
    | some ci =>
      ({ st with comp := none }, some (match ci.failed with
        | none => s!"ok {ci.id}"
        | some f => s!"MISMATCH slice comp: {f} {ci.id}"))
    | none => (st, some "MISMATCH slice: send outside an instance")
  | _ => (st, some "MISMATCH parse slice")

def classOf (s : String) : Option Http.Class :=
  if s == "mesh" then some .mesh else if s == "image" then some .image else if s == "audio" then some .audio else none

def respMatches (r : Http.Response) (status cl body : String) : Bool :=
  toString r.status == status && r.body == unhex body &&
    (match r.contentLength with
     | some n => cl == toString n
     | none => cl == "chunked")

def descResp (r : Http.Response) : String :=
  s!"{r.status}/{match r.contentLength with | some n => toString n | none => "chunked"}/{r.body.length}B"

def handleHttp (st : DState) (toks : List String) : DState × Option String :=
  match toks with
  | ["endpoint", _, fam, addr, port, max] =>
    ({ st with eps := st.eps.push { v6 := fam == "v6", addrText := unhex addr, portText := port.toUTF8.toList,
                                     max := max.toNat!, hist := #[Http.Caches.empty] } }, none)
  | ["pub", ep, cls, id, bin, "URL", url] =>
    match st.eps[ep.toNat!]?, classOf cls with
    | some e, some c =>
      let cur := e.hist.back?.getD Http.Caches.empty
      let nxt := Http.publish Generated.httpServeOverwrites cur c (unhex id) (unhex bin)
      let e' := { e with hist := e.hist.push nxt }
      let expectUrl := Http.baseUrl (if e.v6 then .v6 e.addrText else .v4 e.addrText) e.portText ++ Http.servedPath c (unhex id)
      let st' := { st with eps := st.eps.set! ep.toNat! e' }
      if expectUrl == unhex url then (st', some s!"ok pub-{ep}-{e.hist.size}")
      else (st', some s!"MISMATCH url: advertised url differs from baseUrl ++ servedPath pub-{ep}-{e.hist.size}")
    | _, _ => (st, some "MISMATCH parse pub")
  | ["req", id, ep, _method, path, "RESP", status, cl, body] =>
    match st.eps[ep.toNat!]? with
    | some e =>
      let r := Http.route e.max (e.hist.back?.getD Http.Caches.empty) (unhex path)
      if respMatches r status cl body then (st, some s!"ok {id}")
      else (st, some s!"MISMATCH http: model {descResp r} vs implementation {status}/{cl} {id}")
    | none => (st, some s!"MISMATCH parse {id}")
  | ["creq", id, ep, lo, hi, _method, path, "RESP", status, cl, body] =>
    match st.eps[ep.toNat!]? with
    | some e =>
      let ks := (List.range (hi.toNat! + 1)).filter (fun k => lo.toNat! ≤ k)
      let okk := ks.any (fun k => match e.hist[k]? with
        | some c => respMatches (Http.route e.max c (unhex path)) status cl body
        | none => false)
      if okk then (st, some s!"ok {id}")
      else (st, some s!"MISMATCH http-linearisability: no cache state in [{lo},{hi}] explains {status}/{cl} {id}")
    | none => (st, some s!"MISMATCH parse {id}")
  | "req" :: id :: _ => (st, some s!"MISMATCH http: request without a response {id}")
  | "creq" :: id :: _ => (st, some s!"MISMATCH http: request without a response {id}")
  | _ => (st, some "MISMATCH parse http")

/-! ### fault cases (C08): `fault <id> <guards 4 bits> <world a.b.c|-> <steps ;-separated> <ok|panic>` -/
def parsePanicStep (t : String) : Option Panic.Step :=
  match t.splitOn ":" with
  | ["ad", e] => some (.appDespawn e.toNat!)
  | ["ac", e, d] => some (.applyComp e.toNat! (d == "1"))
  | ["am", d] => some (.applyMaterial (d == "1"))
  | ["spc", c, p, ch] => some (.setParentC c.toNat! p.toNat! (ch == "1"))
  | ["sph", c, p, ch] => some (.setParentH c.toNat! p.toNat! (ch == "1"))
  | ["sp", e] => some (.spawnCmd e.toNat!)
  | ["dc", e] => some (.despawnCmd e.toNat!)
  | ["in"] => some .inert
  | _ => none

def checkFault (toks : List String) : String :=
  match toks with
  | [g, w, steps, obs] =>
    let bit (i : Nat) : Bool := (g.toList.getD i '0') == '1'
    let guards : Panic.Guards := ⟨bit 0, bit 1, bit 2, bit 3⟩
    let world : List Nat := if w == "-" then [] else (w.splitOn ".").map String.toNat!
    match (steps.splitOn ";").mapM parsePanicStep with
    | some ss =>
      match Panic.runAll guards world ss, obs with
      | .ok _, "ok" => "ok"
      | .error _, "panic" => "ok"
      | .ok _, _ => "MISMATCH fault: the model's flush completes, the implementation panicked"
      | .error _, _ => "MISMATCH fault: the model panics, the implementation did not"
    | none => "MISMATCH parse fault steps"
  | _ => "MISMATCH parse fault"

/-! ### skinned-mesh translation (C16): `skin <id> E2U e:u,… U2E u:e,… JOINTS a.b.c EXPECT x.y.z` -/
def parsePairs (s : String) : List (Nat × Nat) :=
  if s == "-" then [] else (s.splitOn ",").filterMap (fun p => match p.splitOn ":" with
    | [a, b] => some (a.toNat!, b.toNat!)
    | _ => none)
def lookupPair (l : List (Nat × Nat)) (k : Nat) : Option Nat := (l.find? (fun p => p.1 == k)).map (·.2)
def parseNats (s : String) : List Nat := if s == "-" then [] else (s.splitOn ".").map String.toNat!

def checkSkin (toks : List String) : String :=
  match toks with
  | ["E2U", e2u, "U2E", u2e, "JOINTS", js, "EXPECT", ex] =>
    let m := Skin.toSkinned (lookupPair (parsePairs u2e)) (Skin.toMapper (P := Nat) (lookupPair (parsePairs e2u)) (parseNats js) [])
    if m.1 == parseNats ex then "ok" else "MISMATCH skin: model joints differ from the receiver's SkinnedMesh.joints"
  | _ => "MISMATCH parse skin"

/-! ### companion fixes (C17): `fixrun <id> <reinserts> ar:kind:v;ac:Companion;fr:8.3.0…;x:Comp.Comp…` -/
def kindOf (s : String) : Option Fix.Kind :=
  match s with
  | "transform" => some .transform | "visibility" => some .visibility | "pointLight" => some .pointLight
  | "spotLight" => some .spotLight | "dirLight" => some .dirLight | _ => none

def companionNames : List (String × Fix.Companion) :=
  [("GlobalTransform", .globalTransform), ("InheritedVisibility", .inheritedVisibility), ("ViewVisibility", .viewVisibility),
   ("CubemapFrusta", .cubemapFrusta), ("CubemapVisibleEntities", .cubemapVisibleEntities), ("Frustum", .frustum),
   ("CascadesFrusta", .cascadesFrusta), ("CascadesVisibleEntities", .cascadesVisibleEntities), ("Cascades", .cascades),
   ("CascadeShadowConfig", .cascadeShadowConfig)]

def companionOf (s : String) : Option Fix.Companion := (companionNames.find? (fun p => p.1 == s)).map (·.2)

def presentNames (e : Fix.Ent) : List String :=
  ((companionNames.filter (fun p => e.has p.2)).map (·.1)).toArray.qsort (· < ·) |>.toList

def checkFixRun (toks : List String) : String :=
  match toks with
  | [re, script] =>
    let reins := re == "1"
    let rec go (e : Fix.Ent) (n : Nat) : List String → String
      | [] => "ok"
      | t :: rest =>
        match t.splitOn ":" with
        | ["ar", k, v] => match kindOf k with
          | some k => go (Fix.step reins e (.arrive k v.toNat!)) (n + 1) rest
          | none => "MISMATCH parse fix kind"
        | ["ac", c] => match companionOf c with
          | some c => go (Fix.step reins e (.addCompanion c)) (n + 1) rest
          | none => "MISMATCH parse fix companion"
        | ["fr", order] =>
          let ord := if order == "" then [] else (order.splitOn ".").map String.toNat!
          go (Fix.run reins e (Fix.frame ord)) (n + 1) rest
        | ["x", names] =>
          let obs := if names == "-" then [] else names.splitOn "."
          if presentNames e == obs then go e (n + 1) rest
          else s!"MISMATCH fix: after {n} script steps the model has companions {presentNames e}, the implementation {obs}"
        | _ => "MISMATCH parse fix script"
    go {} 0 (script.splitOn ";")
  | _ => "MISMATCH parse fixrun"

/-! ### emission filter (C04): an observed origination judged by the model's `allowedB` on the originator's configuration -/
def clsOf (s : String) : Option Filter.Class :=
  match s with
  | "material" => some .material | "image" => some .image | "mesh" => some .mesh | "audio" => some .audio | _ => none

def checkFilter (toks : List String) : String :=
  match toks with
  | ["comp", reg, synced, comps, excl, ty] =>
    let e : Filter.Ent := { id := 1, marked := false, synced := synced == "1", comps := parseNats comps, changed := [], excluded := parseNats excl }
    let p : Filter.Peer := Filter.Peer.mk (parseNats reg) (Filter.Switches.mk false false false) [e] []
    if Filter.allowedB p (.comp 1 ty.toNat!) then "ok" else "MISMATCH filter: the model forbids this ComponentUpdated on the originator's configuration"
  | ["spawn", synced] =>
    let e : Filter.Ent := { id := 1, marked := false, synced := synced == "1", comps := [], changed := [], excluded := [] }
    let p : Filter.Peer := Filter.Peer.mk [] (Filter.Switches.mk false false false) [e] []
    if Filter.allowedB p (.spawn 1) then "ok" else "MISMATCH filter: the model forbids this EntitySpawn"
  | ["asset", sw, cls, has] =>
    match clsOf cls with
    | some c =>
      let b (i : Nat) : Bool := sw.toList.getD i '0' == '1'
      let a : Filter.Asset := { cls := c, uuid := some 1, pendingEvent := true }
      let p : Filter.Peer := Filter.Peer.mk [] (Filter.Switches.mk (b 0) (b 1) (b 2)) [] (if has == "1" then [a] else [])
      if Filter.allowedB p (.asset c 1) then "ok" else "MISMATCH filter: the model forbids this asset update on the originator's configuration"
    | none => "MISMATCH parse filter class"
  | _ => "MISMATCH parse filter"

/-! ### connection states (C15): `conn <id> <legacy> <script>`; script tokens ;-separated:
`si`/`sr` insert/remove server transport, `ci`/`cr` client transport, `k1`/`k0` RenetClient connected or not,
`f` one frame, `x:<ServerState>:<ClientState>` what the implementation published after the frame -/
def csName : Conn.CS → String
  | .disconnected => "Disconnected" | .connecting => "Connecting" | .connected => "Connected"

def checkConn (toks : List String) : String :=
  match toks with
  | [lg, script] =>
    -- `lg`: bit 0 = pre-D10 disconnect condition, bit 1 = pre-D19 connecting condition
    let legacy := lg == "1" || lg == "3"
    let strict := lg == "2" || lg == "3"
    let rec go (s : Conn.Server) (c : Conn.Client) (n : Nat) : List String → String
      | [] => "ok"
      | t :: rest =>
        match t.splitOn ":" with
        | ["si"] => go s.insert c (n + 1) rest
        | ["sr"] => go s.remove c (n + 1) rest
        | ["ci"] => go s c.insert (n + 1) rest
        | ["cr"] => go s c.remove (n + 1) rest
        | ["k1"] => go s (c.setConnected true) (n + 1) rest
        | ["k0"] => go s (c.setConnected false) (n + 1) rest
        | ["f"] => go s.frame (c.frame legacy strict) (n + 1) rest
        | ["x", ss, cs] =>
          let ms := if s.state then "Connected" else "Disconnected"
          if ms == ss && csName c.state == cs then go s c (n + 1) rest
          else s!"MISMATCH conn: after {n} script steps the model publishes {ms}/{csName c.state}, the implementation {ss}/{cs}"
        | _ => "MISMATCH parse conn script"
    go {} {} 0 (script.splitOn ";")
  | _ => "MISMATCH parse conn"

/-! ### uuid assets of a downloadable class (C06): `asset <id> <countTokens> <skipServed> <nclients> <script>`;
script tokens ;-separated: `p:<peer>:<v>` peer (0 = host) publishes content `v`, `r` one fair round of the
model, `d` the traffic drains (fair rounds until nothing moves), `x:<peer>:<content>:<served>:<tokens>` what
the implementation holds at that drain (`-` = nothing) -/
def optName : Option Nat → String
  | none => "-"
  | some v => toString v

def checkAsset (toks : List String) : String :=
  match toks with
  | [ct, sk, n, script] =>
    match n.toNat? with
    | none => "MISMATCH parse asset n"
    | some n =>
      let ct := ct == "1"
      let sk := sk == "1"
      let ids := (List.range n).map (· + 1)
      let s0 : Asset.State := { clients := ids.map (fun i => { id := i }) }
      let rec go (s : Asset.State) (k : Nat) : List String → String
        | [] => "ok"
        | t :: rest =>
          match t.splitOn ":" with
          | ["p", pr, v] =>
            match pr.toNat?, v.toNat? with
            | some pr, some v =>
              go (Asset.step ct sk s (if pr = 0 then .publishH v else .publishC pr v)) (k + 1) rest
            | _, _ => "MISMATCH parse asset publish"
          | ["r"] => go (Asset.run ct sk s (Asset.roundActs ids)) (k + 1) rest
          | ["d"] => go (Asset.settle ct sk 64 s) (k + 1) rest
          | ["x", pr, c, sv, tk] =>
            match pr.toNat? with
            | some pr =>
              match Asset.peerOf s pr with
              | some p =>
                if optName p.content == c && optName p.served == sv && toString p.tokens == tk then go s (k + 1) rest
                else s!"MISMATCH asset: after {k} script steps the model has peer {pr} at content {optName p.content} served {optName p.served} tokens {p.tokens}, the implementation at content {c} served {sv} tokens {tk}"
              | none => "MISMATCH asset: no such peer"
            | none => "MISMATCH parse asset x"
          | _ => "MISMATCH parse asset script"
      go s0 0 (script.splitOn ";")
  | _ => "MISMATCH parse asset"

/-! ### uuid materials (C06): `mat <id> <countTokens> <nclients> <script>`, script as for `asset`,
`x:<peer>:<content>:<tokens>` -/
def checkMat (toks : List String) : String :=
  match toks with
  | [ct, n, script] =>
    match n.toNat? with
    | none => "MISMATCH parse mat n"
    | some n =>
      let ct := ct == "1"
      let ids := (List.range n).map (· + 1)
      let s0 : Mat.State := { clients := ids.map (fun i => { id := i }) }
      let rec go (s : Mat.State) (k : Nat) : List String → String
        | [] => "ok"
        | t :: rest =>
          match t.splitOn ":" with
          | ["p", pr, v] =>
            match pr.toNat?, v.toNat? with
            | some pr, some v =>
              go (Mat.step ct s (if pr = 0 then .publishH v else .publishC pr v)) (k + 1) rest
            | _, _ => "MISMATCH parse mat publish"
          | ["r"] => go (Mat.run ct s (Mat.roundActs ids)) (k + 1) rest
          | ["d"] => go (Mat.settle ct 64 s) (k + 1) rest
          | ["x", pr, c, tk] =>
            match pr.toNat? with
            | some pr =>
              match Mat.peerOf s pr with
              | some p =>
                if optName p.content == c && toString p.tokens == tk then go s (k + 1) rest
                else s!"MISMATCH mat: after {k} script steps the model has peer {pr} at content {optName p.content} tokens {p.tokens}, the implementation at content {c} tokens {tk}"
              | none => "MISMATCH mat: no such peer"
            | none => "MISMATCH parse mat x"
          | _ => "MISMATCH parse mat script"
      go s0 0 (script.splitOn ";")
  | _ => "MISMATCH parse mat"

/-! ### values carried at mark time (C02): `mark <id> <legacy> <before> <frames> <announced>` -/
def checkMark (toks : List String) : String :=
  match toks with
  | [lg, bf, n, obs] =>
    match n.toNat?, obs.toNat? with
    | some n, some obs =>
      let m := (Mark.run (lg == "1") (bf == "1") {} n).announced
      if m == obs then "ok"
      else s!"MISMATCH mark: the model announces the value carried at mark time {m} time(s) within {n} frames, the implementation {obs} time(s)"
    | _, _ => "MISMATCH parse mark"
  | _ => "MISMATCH parse mark"

/-! ### the joiner's side of one key (C03): `snapj <id> <present0> <val0|-> <script>`; script tokens ;-separated:
`s` an `EntitySpawn` of the uuid arrives, `u:<v>` a `ComponentUpdated` of the key, `f` the joiner's frame ends (every
closure of the frame has run), `x:<present>:<val|->:<count>` what the implementation holds after that frame -/
def checkSnapJ (toks : List String) : String :=
  match toks with
  | [p0, v0, script] =>
    let pres := p0 == "1"
    let j0 : Snap.Joiner Nat :=
      { connected := true, present := pres, count := if pres then 1 else 0, p := { val := v0.toNat? } }
    let rec go (j : Snap.Joiner Nat) (k : Nat) : List String → String
      | [] => "ok"
      | t :: rest =>
        match t.splitOn ":" with
        | ["s"] => go (Snap.recv j .spawn) (k + 1) rest
        | ["u", v] =>
          match v.toNat? with
          | some v => go (Snap.recv j (.upd v)) (k + 1) rest
          | none => "MISMATCH parse snapj value"
        | ["f"] => go { j with p := Comp.detect j.p } (k + 1) rest
        | ["x", pr, v, c] =>
          let mp := if j.present then "1" else "0"
          if mp == pr && optName j.p.val == v && toString j.count == c then go j (k + 1) rest
          else s!"MISMATCH snapj: after {k} script steps the model's joiner has replica {mp} value {optName j.p.val} count {j.count}, the implementation replica {pr} value {v} count {c}"
        | _ => "MISMATCH parse snapj script"
    go j0 0 (script.splitOn ";")
  | _ => "MISMATCH parse snapj"

/-! ### hand-over (C07): `promo <id> <others> <script>`; script tokens ;-separated: `p:<deliver>:<accepted>` a frame of the
promoted client, `h:<deliver>:<progress>` a frame of the former host, `o` another client leaves the former host,
`xh:<srv>:<promo>:<cli>:<clients>` / `xp:<srv>:<promo>:<cli>:<clients>` what the implementation shows after that frame
(`cli` of the former host: 0 no transport, 1 connecting, 3 connected), `q:<n>` snapshot requests the new host received -/
def checkPromo (toks : List String) : String :=
  match toks with
  | [others, script] =>
    match others.toNat? with
    | none => "MISMATCH parse promo others"
    | some others =>
      let b := fun (t : String) => t == "1"
      let bs := fun (x : Bool) => if x then "1" else "0"
      let rec go (s : Promo.State) (k : Nat) : List String → String
        | [] => "ok"
        | t :: rest =>
          match t.splitOn ":" with
          | ["p", d, a] => go (Promo.step s (.pFrame (b d) (b a))) (k + 1) rest
          | ["h", d, g] => go (Promo.step s (.hFrame (b d) (b g))) (k + 1) rest
          | ["o"] => go (Promo.step s .otherLeaves) (k + 1) rest
          | ["xh", srv, pr, cli, cl] =>
            let mc := if s.hCli == 4 then 3 else s.hCli
            if bs s.hSrv == srv && bs s.hPromo == pr && toString mc == cli && toString s.hClients == cl then go s (k + 1) rest
            else s!"MISMATCH promo: after {k} script steps the model's former host has server {bs s.hSrv} flag {bs s.hPromo} client {mc} clients {s.hClients}, the implementation server {srv} flag {pr} client {cli} clients {cl}"
          | ["xp", srv, pr, cli, cl] =>
            if bs s.pSrv == srv && bs s.pPromo == pr && bs s.pCli == cli && toString s.pClients == cl then go s (k + 1) rest
            else s!"MISMATCH promo: after {k} script steps the model's promoted client has server {bs s.pSrv} flag {bs s.pPromo} client transport {bs s.pCli} clients {s.pClients}, the implementation server {srv} flag {pr} client transport {cli} clients {cl}"
          | ["q", n] =>
            if toString s.snapReq == n then go s (k + 1) rest
            else s!"MISMATCH promo: the model's former host requested {s.snapReq} snapshot(s), the implementation {n}"
          | _ => "MISMATCH parse promo script"
      go (Promo.init others) 0 (script.splitOn ";")
  | _ => "MISMATCH parse promo"

/-! ### bevy_hierarchy against `Slice/Hier` (C05): `hier <id> <n> <ops> <expected>`; entities are 1..n, `ops` =
comma-separated `L.p.c` (local `set_parent`) / `M.p.c` (what the `EntityParented` handlers do, guard included), `expected` =
for every entity in order `parent:children` (`-` = none, children dot-separated **in the order of the `Children` component**),
separated by `;` — as a bare bevy `World` reports them after the same operations -/
def checkHier (toks : List String) : String :=
  match toks with
  | [n, ops, expected] =>
    match n.toNat? with
    | none => "MISMATCH parse hier n"
    | some n =>
      let parsed := (ops.splitOn ",").filter (· != "") |>.map (fun o =>
        match o.splitOn "." with
        | [k, p, c] => match p.toNat?, c.toNat? with
          | some p, some c => if k == "L" then some (false, p, c) else if k == "M" then some (true, p, c) else none
          | _, _ => none
        | _ => none)
      if parsed.any (·.isNone) then "MISMATCH parse hier ops" else
      let h := Hier.runOps Hier.empty (parsed.filterMap id)
      let dump := ";".intercalate ((List.range n).map (fun i =>
        let e := i + 1
        let par := match h.par e with | some p => toString p | none => "-"
        let ch := if (h.ch e).isEmpty then "-" else ".".intercalate ((h.ch e).map toString)
        s!"{par}:{ch}"))
      if dump == expected then "ok" else s!"MISMATCH hier: after {parsed.length} operations the model holds {dump}, bevy_hierarchy {expected}"
  | _ => "MISMATCH parse hier"

/-! ### snapshot against the reliable channel's memory budget (C15, D20): `budget <id> <budget> <used> <sizes> <refused>`;
`sizes` = dot-separated byte lengths of the snapshot's messages and the marker as the host encodes them, `refused` = 1 when the
implementation's joiner was disconnected having received nothing -/
def checkBudget (toks : List String) : String :=
  match toks with
  | [budget, used, sizes, refused] =>
    match budget.toNat?, used.toNat? with
    | some b, some u =>
      let szs := (sizes.splitOn ".").filterMap (·.toNat?)
      if szs.length != (sizes.splitOn ".").length then "MISMATCH parse budget sizes" else
      let c := Budget.sendAll b { used := u } szs
      let r := if c.closed then "1" else "0"
      if r == refused then "ok"
      else s!"MISMATCH budget: {szs.length} messages of {Budget.total szs} bytes against {b} (used {u}): the model's channel {if c.closed then "refuses the join" else "serves the join"}, the implementation's joiner was {if refused == "1" then "refused" else "served"}"
    | _, _ => "MISMATCH parse budget numbers"
  | _ => "MISMATCH parse budget"

/-! ### whole-world snapshot (C03 / C15): `world <id> <script>`; the joiner's side of a join replayed on `Slice/World.lean`:
`k:<u>` a uuid the joiner knows beforehand (returning client), `s:<u>` / `c:<u>:<t>:<v>` / `p:<c>:<p>` every `EntitySpawn` /
`ComponentUpdated` / `EntityParented` it received, in order, up to `FinishedInitialSync` (uuids, types and values as small
numbers assigned by the trace reader); then what the implementation's joiner holds at that frame: `E:<u.u...>` its uuids,
`C:<u>:<t>:<v>` a component value, `P:<u>:<p>` a parent link (`-`: none) -/
def checkWorld (toks : List String) : String :=
  match toks with
  | [script] =>
    let rec go (c : WorldSnap.Client) (k : Nat) : List String → String
      | [] => "ok"
      | t :: rest =>
        match t.splitOn ":" with
        | ["k", u] => (match u.toNat? with
            | some u => go { c with ents := c.ents ++ [u] } (k + 1) rest
            | none => "MISMATCH parse world k")
        | ["s", u] => (match u.toNat? with
            | some u => go (WorldSnap.apply c (.spawn u)) (k + 1) rest
            | none => "MISMATCH parse world s")
        | ["c", u, ty, v] => (match u.toNat?, ty.toNat?, v.toNat? with
            | some u, some ty, some v => go (WorldSnap.apply c (.comp u ty v)) (k + 1) rest
            | _, _, _ => "MISMATCH parse world c")
        | ["p", ch, p] => (match ch.toNat?, p.toNat? with
            | some ch, some p => go (WorldSnap.apply c (.parent ch p)) (k + 1) rest
            | _, _ => "MISMATCH parse world p")
        | ["E", us] =>
          let want := ((us.splitOn ".").filterMap (·.toNat?))
          let have_ := c.ents
          if want.all (· ∈ have_) && have_.all (· ∈ want) && have_.length == want.length then go c (k + 1) rest
          else s!"MISMATCH world: after {k} script steps the model's joiner knows {have_.length} uuids, the implementation's {want.length} (or other ones)"
        | ["C", u, ty, v] => (match u.toNat?, ty.toNat?, v.toNat? with
            | some u, some ty, some v =>
              if WorldSnap.getComp c u ty == some v then go c (k + 1) rest
              else s!"MISMATCH world: entity {u} type {ty}: the model's joiner holds {WorldSnap.getComp c u ty}, the implementation's value {v}"
            | _, _, _ => "MISMATCH parse world C")
        | ["P", u, p] => (match u.toNat? with
            | some u =>
              let want := p.toNat?
              if WorldSnap.getParent c u == want then go c (k + 1) rest
              else s!"MISMATCH world: entity {u}: the model's joiner has parent {WorldSnap.getParent c u}, the implementation's {p}"
            | none => "MISMATCH parse world P")
        | _ => "MISMATCH parse world script"
    go {} 0 (script.splitOn ";")
  | _ => "MISMATCH parse world"

/-! ### chains of hand-overs (C07): `chain <id> <script>`; tokens: `f:<who>:<deliver>:<accept>:<progress>` a frame of peer
`who` (0 = the first host, 1 = its client), `r:<who>` the application of `who` requests a promotion,
`x:<who>:<srv>:<promo>:<cli>:<clients>` what the implementation shows after that frame (`cli`: 0 no client transport,
1 connecting, 3 connected), `q:<who>:<n>` snapshot requests `who` has sent in the hand-over that just ended -/
def checkChain (toks : List String) : String :=
  match toks with
  | [script] =>
    let b := fun (t : String) => t == "1"
    let bs := fun (x : Bool) => if x then "1" else "0"
    let rec go (s : Chain.State) (k : Nat) : List String → String
      | [] => "ok"
      | t :: rest =>
        match t.splitOn ":" with
        | ["f", w, d, a, g] => go (Chain.step s (.frame (b w) (b d) (b a) (b g))) (k + 1) rest
        | ["r", w] =>
          if Chain.taken s (.request (b w)) then go (Chain.step s (.request (b w))) (k + 1) rest
          else s!"MISMATCH chain: after {k} script steps peer {w} requests a promotion but the model's session is not at rest under it"
        | ["x", w, srv, pr, cli, cl] =>
          let x := Chain.host s (b w)
          let mc := if x.cli == 4 then 3 else x.cli
          -- a promoted peer still holding its old client transport: whether the former host's `server.disconnect` has
          -- reached it yet is the network's business; only the presence of the transport is compared (as in `promo`)
          let cliOk := if x.cli == 4 && x.srv then cli != "0" else toString mc == cli
          if bs x.srv == srv && bs x.promo == pr && cliOk && toString x.clients == cl then go s (k + 1) rest
          else s!"MISMATCH chain: after {k} script steps the model's peer {w} has server {bs x.srv} flag {bs x.promo} client {mc} clients {x.clients}, the implementation server {srv} flag {pr} client {cli} clients {cl}"
        | ["q", w, n] =>
          let x := Chain.host s (b w)
          if toString x.snapReq == n then go s (k + 1) rest
          else s!"MISMATCH chain: the model's peer {w} requested {x.snapReq} snapshot(s) in this hand-over, the implementation {n}"
        | _ => "MISMATCH parse chain script"
    go Chain.rest0 0 (script.splitOn ";")
  | _ => "MISMATCH parse chain"

def handle (st : DState) (line : String) : DState × Option String :=
  let line := line.trimAscii.toString
  if line.isEmpty || line.startsWith "#" then (st, none)
  else
    match line.splitOn " " with
    | "fmtname" :: rest => (st, some s!"{checkFmtName rest} fmtname")
    | "endpoint" :: rest => handleHttp st ("endpoint" :: rest)
    | "pub" :: rest => handleHttp st ("pub" :: rest)
    | "req" :: rest => handleHttp st ("req" :: rest)
    | "creq" :: rest => handleHttp st ("creq" :: rest)
    | "sbegin" :: rest => handleSlice st ("sbegin" :: rest)
    | "a" :: rest => handleSlice st ("a" :: rest)
    | "x" :: rest => handleSlice st ("x" :: rest)
    | "send" :: rest => handleSlice st ("send" :: rest)
    | kind :: id :: rest =>
      let r := match kind with
        | "mesh" => checkMesh rest
        | "meshdec" => checkMeshDec rest
        | "image" => checkImage rest
        | "imagedec" => checkImageDec rest
        | "msg" => checkMsg rest
        | "msgdec" => checkMsgDec rest
        | "reflect" => checkReflect rest
        | "fault" => checkFault rest
        | "skin" => checkSkin rest
        | "fixrun" => checkFixRun rest
        | "filter" => checkFilter rest
        | "conn" => checkConn rest
        | "asset" => checkAsset rest
        | "mat" => checkMat rest
        | "mark" => checkMark rest
        | "snapj" => checkSnapJ rest
        | "promo" => checkPromo rest
        | "chain" => checkChain rest
        | "budget" => checkBudget rest
        | "world" => checkWorld rest
        | "hier" => checkHier rest
        | _ => "MISMATCH unknown line kind"
      (st, some s!"{r} {id}")
    | _ => (st, some "MISMATCH parse ?")

partial def loop (h : IO.FS.Stream) (out : IO.FS.Stream) (st : DState) : IO Unit := do
  let line ← h.getLine
  if line.isEmpty then return ()
  let (st', r) := handle st line
  match r with
  | some r => out.putStrLn r
  | none => pure ()
  loop h out st'

def main : IO Unit := do
  let out ← IO.getStdout
  loop (← IO.getStdin) out {}
  out.flush
