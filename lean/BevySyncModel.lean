-- Root of the library: everything `lake build` should check.
import BevySyncModel.Props.C11
import BevySyncModel.Props.C12
import BevySyncModel.Props.C13
import BevySyncModel.Props.C14
