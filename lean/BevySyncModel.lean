-- Root of the library: everything `lake build` should check.
import BevySyncModel.Props.C11
import BevySyncModel.Props.C12
import BevySyncModel.Props.C13
import BevySyncModel.Props.C14
import BevySyncModel.Props.C15
import BevySyncModel.Props.C16
import BevySyncModel.Props.C17
import BevySyncModel.Props.C01
import BevySyncModel.Props.C02
import BevySyncModel.Props.C04
import BevySyncModel.Props.C05
import BevySyncModel.Props.C08
import BevySyncModel.Props.C09
import BevySyncModel.Props.C10
import BevySyncModel.Props.C06
import BevySyncModel.Props.C03
import BevySyncModel.Props.C07
