import BevySyncModel.Lz4
import BevySyncModel.Proofs.Lz4
