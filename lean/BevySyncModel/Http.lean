/-! Model of the HTTP asset endpoint of `src/networking/assets/mod.rs`:
`SyncAssetTransfer::respond` (routing), `serve_*` (publishing), the advertised URLs, and
`Uuid::parse_str` (uuid 1.x: simple, hyphenated, braced, urn).  No imports.

tiny_http facts used (DESIGN.md F8): a `Request` dropped without a response is answered 500 with an
empty body; a body shorter than the chunking threshold (`max_transfer`) is sent with Content-Length,
a longer one chunked (HTTP/1.1 request without a `TE` header). -/
namespace BevySync
namespace Http

abbrev Str := List UInt8

inductive Class where
  | mesh | image | audio
deriving Repr, DecidableEq

structure Caches where
  meshes : List (List UInt8 × List UInt8)
  images : List (List UInt8 × List UInt8)
  audios : List (List UInt8 × List UInt8)
deriving Repr, DecidableEq

def Caches.empty : Caches := ⟨[], [], []⟩

def lookup (k : List UInt8) : List (List UInt8 × List UInt8) → Option (List UInt8)
  | [] => none
  | (k', v) :: rest => if k' == k then some v else lookup k rest

def Caches.get (c : Caches) : Class → List (List UInt8 × List UInt8)
  | .mesh => c.meshes
  | .image => c.images
  | .audio => c.audios

def Caches.set (c : Caches) (cl : Class) (l : List (List UInt8 × List UInt8)) : Caches :=
  match cl with
  | .mesh => { c with meshes := l }
  | .image => { c with images := l }
  | .audio => { c with audios := l }

def insertKV (k v : List UInt8) : List (List UInt8 × List UInt8) → List (List UInt8 × List UInt8)
  | [] => [(k, v)]
  | (k', v') :: rest => if k' == k then (k, v) :: rest else (k', v') :: insertKV k v rest

/-- `serve_*`: `overwrite = false` is `entry(id).or_insert_with(..)` (first publication wins),
`overwrite = true` is `insert(id, ..)` (last publication wins) -/
def publish (overwrite : Bool) (c : Caches) (cl : Class) (id bin : List UInt8) : Caches :=
  match lookup id (c.get cl) with
  | some _ => if overwrite then c.set cl (insertKV id bin (c.get cl)) else c
  | none => c.set cl (insertKV id bin (c.get cl))

/-! ### strings -/
def isPrefix : Str → Str → Bool
  | [], _ => true
  | _ :: _, [] => false
  | a :: p, b :: s => a == b && isPrefix p s

/-- `str::contains` for a non-empty pattern -/
def containsSub (p : Str) : Str → Bool
  | [] => isPrefix p []
  | c :: s => isPrefix p (c :: s) || containsSub p s

def stripPrefix : Str → Str → Option Str
  | [], s => some s
  | _ :: _, [] => none
  | a :: p, b :: s => if a == b then stripPrefix p s else none

def sImage : Str := [47, 105, 109, 97, 103, 101, 47]   -- "/image/"
def sMesh : Str := [47, 109, 101, 115, 104, 47]        -- "/mesh/"
def sAudio : Str := [47, 97, 117, 100, 105, 111, 47]   -- "/audio/"

def Class.prefix : Class → Str
  | .mesh => sMesh
  | .image => sImage
  | .audio => sAudio

/-! ### uuid text -/
def hexDigit (n : Nat) : UInt8 := if n < 10 then UInt8.ofNat (48 + n) else UInt8.ofNat (87 + n)


/-- value of an ASCII hex digit (either case), as `decode_hex32` computes it -/
def unhexDigit (c : UInt8) : Option Nat :=
  if 48 ≤ c ∧ c ≤ 57 then some (c.toNat - 48)
  else if 97 ≤ c ∧ c ≤ 102 then some (c.toNat - 87)
  else if 65 ≤ c ∧ c ≤ 70 then some (c.toNat - 55)
  else none

def unhexPairs : Str → Option (List UInt8)
  | [] => some []
  | [_] => none
  | a :: b :: r =>
    match unhexDigit a, unhexDigit b, unhexPairs r with
    | some x, some y, some rest => some (UInt8.ofNat (x * 16 + y) :: rest)
    | _, _, _ => none

def dash : UInt8 := 45

def hi (b : UInt8) : UInt8 := hexDigit (b.toNat / 16)
def lo (b : UInt8) : UInt8 := hexDigit (b.toNat % 16)

/-- `Uuid::to_string()` / `Display`: lower-case hyphenated -/
def hyphenated : List UInt8 → Str
  | [b0, b1, b2, b3, b4, b5, b6, b7, b8, b9, b10, b11, b12, b13, b14, b15] =>
    [hi b0, lo b0, hi b1, lo b1, hi b2, lo b2, hi b3, lo b3, dash,
     hi b4, lo b4, hi b5, lo b5, dash, hi b6, lo b6, hi b7, lo b7, dash,
     hi b8, lo b8, hi b9, lo b9, dash,
     hi b10, lo b10, hi b11, lo b11, hi b12, lo b12, hi b13, lo b13, hi b14, lo b14, hi b15, lo b15]
  | _ => []

/-- `parse_hyphenated` on exactly 36 bytes -/
def parseHyphenated : Str → Option (List UInt8)
  | c0 :: c1 :: c2 :: c3 :: c4 :: c5 :: c6 :: c7 :: h1 :: c8 :: c9 :: c10 :: c11 :: h2 :: c12 :: c13 :: c14 :: c15 ::
    h3 :: c16 :: c17 :: c18 :: c19 :: h4 :: c20 :: c21 :: c22 :: c23 :: c24 :: c25 :: c26 :: c27 :: c28 :: c29 ::
    c30 :: c31 :: [] =>
    if h1 == dash && h2 == dash && h3 == dash && h4 == dash then
      unhexPairs [c0, c1, c2, c3, c4, c5, c6, c7, c8, c9, c10, c11, c12, c13, c14, c15, c16, c17, c18, c19,
                  c20, c21, c22, c23, c24, c25, c26, c27, c28, c29, c30, c31]
    else none
  | _ => none

def sUrn : Str := [117, 114, 110, 58, 117, 117, 105, 100, 58]  -- "urn:uuid:"

/-- `Uuid::parse_str`: dispatch on the byte length (32 simple, 36 hyphenated, 38 braced, 45 urn) -/
def parseUuid (s : Str) : Option (List UInt8) :=
  if s.length == 32 then unhexPairs s
  else if s.length == 36 then parseHyphenated s
  else if s.length == 38 then
    match s with
    | 123 :: r => if r.getLast? == some 125 then parseHyphenated r.dropLast else none
    | _ => none
  else if s.length == 45 then
    match stripPrefix sUrn s with
    | some r => parseHyphenated r
    | none => none
  else none

/-! ### routing -/
structure Response where
  status : Nat
  body : List UInt8
  contentLength : Option Nat      -- `none`: chunked transfer encoding
deriving Repr, DecidableEq

/-- what a `Request` dropped without an answer gets from tiny_http -/
def dropped : Response := { status := 500, body := [], contentLength := some 0 }
def notFound : Response := { status := 404, body := [], contentLength := some 0 }

/-- the if / else-if chain of `respond`: `contains` decides the class, `strip_prefix` must then succeed -/
def classify (url : Str) : Option (Class × Str) :=
  if containsSub sImage url then (stripPrefix sImage url).map (fun r => (Class.image, r))
  else if containsSub sMesh url then (stripPrefix sMesh url).map (fun r => (Class.mesh, r))
  else if containsSub sAudio url then (stripPrefix sAudio url).map (fun r => (Class.audio, r))
  else none

def route (maxTransfer : Nat) (c : Caches) (url : Str) : Response :=
  match classify url with
  | none => dropped
  | some (cl, idText) =>
    match parseUuid idText with
    | none => dropped
    | some id =>
      match lookup id (c.get cl) with
      | none => notFound
      | some bin =>
        { status := 200, body := bin,
          contentLength := if bin.length < maxTransfer then some bin.length else none }

/-- the responder loop: one response per request, in order; the caches are only read -/
def respondAll (maxTransfer : Nat) (c : Caches) (urls : List Str) : List Response :=
  urls.map (route maxTransfer c)

/-- path part of the URL that `serve_*` advertises -/
def servedPath (cl : Class) (id : List UInt8) : Str := cl.prefix ++ hyphenated id

/-! ### base URL -/
inductive Addr where
  | v4 (text : Str)     -- dotted quad as printed by `Ipv4Addr::fmt`
  | v6 (text : Str)     -- as printed by `Ipv6Addr::fmt` (hex groups and colons)
deriving Repr, DecidableEq

def sHttp : Str := [104, 116, 116, 112, 58, 47, 47]  -- "http://"

def baseUrl (a : Addr) (portText : Str) : Str :=
  match a with
  | .v4 t => sHttp ++ t ++ [58] ++ portText
  | .v6 t => sHttp ++ [91] ++ t ++ [93, 58] ++ portText

/-- authority split as an HTTP client does it: `[..]` brackets an IPv6 literal, otherwise host ends at the last ':' -/
def splitAuthority (url : Str) : Option (Str × Str) :=
  match stripPrefix sHttp url with
  | none => none
  | some r =>
    match r with
    | 91 :: r' =>
      let host := r'.takeWhile (· != 93)
      match r'.dropWhile (· != 93) with
      | 93 :: 58 :: port => some (host, port)
      | _ => none
    | _ =>
      let host := r.takeWhile (· != 58)
      match r.dropWhile (· != 58) with
      | 58 :: port => some (host, port)
      | _ => none

end Http
end BevySync
