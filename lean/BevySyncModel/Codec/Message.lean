import BevySyncModel.Wire
/-! Model of `src/proto.rs` (`Message`) and `SyncConnectionParameters` (`src/lib.rs`) under
`bincode::serialize` / `bincode::deserialize`.  The `#[repr(u8)] = 1, 2, 4 …` discriminants do not
reach the wire: serde writes the variant **index** (0-based declaration order) as u32. -/
namespace BevySync
namespace Codec
open Wire

abbrev Uuid := List UInt8      -- 16 bytes (well-formedness)
abbrev Str := List UInt8       -- UTF-8 bytes

inductive Ip where
  | v4 (octets : List Nat)     -- 4 octets
  | v6 (octets : List Nat)     -- 16 octets
deriving Repr, DecidableEq

structure ConnParams where     -- SyncConnectionParameters::Socket
  ip : Ip
  port : Nat
  webPort : Nat
  maxTransfer : Nat
deriving Repr, DecidableEq

inductive Msg where
  | entitySpawn (id : Uuid)
  | entityParented (entity parent : Uuid)
  | entityDelete (id : Uuid)
  | componentUpdated (id : Uuid) (name : Str) (data : List UInt8)
  | standardMaterialUpdated (id : Uuid) (material : List UInt8)
  | meshUpdated (id : Uuid) (url : Str)
  | imageUpdated (id : Uuid) (url : Str)
  | audioUpdated (id : Uuid) (url : Str)
  | promoteToHost
  | newHost (params : ConnParams)
  | requestInitialSync
  | finishedInitialSync
deriving Repr, DecidableEq

def u8 : Ty := .uint 1
def ipTy : Ty := .enm (TyList.ofList
  [.tup (TyList.ofList [.tup (TyList.ofList (List.replicate 4 u8))]),
   .tup (TyList.ofList [.tup (TyList.ofList (List.replicate 16 u8))])])
def connParamsTy : Ty := .enm (TyList.ofList [.tup (TyList.ofList [ipTy, .uint 2, .uint 2, .uint 8])])

def messageVariants : List (String × List Ty) :=
  [("EntitySpawn", [.uuid]),
   ("EntityParented", [.uuid, .uuid]),
   ("EntityDelete", [.uuid]),
   ("ComponentUpdated", [.uuid, .str, .bytes]),
   ("StandardMaterialUpdated", [.uuid, .bytes]),
   ("MeshUpdated", [.uuid, .str]),
   ("ImageUpdated", [.uuid, .str]),
   ("AudioUpdated", [.uuid, .str]),
   ("PromoteToHost", []),
   ("NewHost", [connParamsTy]),
   ("RequestInitialSync", []),
   ("FinishedInitialSync", [])]

def messageTy : Ty := .enm (TyList.ofList (messageVariants.map (fun v => Ty.tup (TyList.ofList v.2))))

def octetsVal (o : List Nat) : Val := .tup (ValList.ofList (o.map (Val.int 1)))
def ipVal : Ip → Val
  | .v4 o => .variant 0 (.tup (ValList.ofList [octetsVal o]))
  | .v6 o => .variant 1 (.tup (ValList.ofList [octetsVal o]))
def connParamsVal (p : ConnParams) : Val :=
  .variant 0 (.tup (ValList.ofList [ipVal p.ip, .int 2 p.port, .int 2 p.webPort, .int 8 p.maxTransfer]))

def payload (l : List Val) : Val := .tup (ValList.ofList l)

def msgToVal : Msg → Val
  | .entitySpawn id => .variant 0 (payload [.uuid id])
  | .entityParented e p => .variant 1 (payload [.uuid e, .uuid p])
  | .entityDelete id => .variant 2 (payload [.uuid id])
  | .componentUpdated id n d => .variant 3 (payload [.uuid id, .str n, .bytes d])
  | .standardMaterialUpdated id m => .variant 4 (payload [.uuid id, .bytes m])
  | .meshUpdated id u => .variant 5 (payload [.uuid id, .str u])
  | .imageUpdated id u => .variant 6 (payload [.uuid id, .str u])
  | .audioUpdated id u => .variant 7 (payload [.uuid id, .str u])
  | .promoteToHost => .variant 8 (payload [])
  | .newHost p => .variant 9 (payload [connParamsVal p])
  | .requestInitialSync => .variant 10 (payload [])
  | .finishedInitialSync => .variant 11 (payload [])

def optMapNat (f : Val → Option Nat) : List Val → Option (List Nat)
  | [] => Option.some []
  | a :: l =>
    match f a with
    | Option.none => Option.none
    | Option.some b =>
      match optMapNat f l with
      | Option.none => Option.none
      | Option.some bs => Option.some (b :: bs)

def valNat : Val → Option Nat
  | .int _ n => Option.some n
  | _ => Option.none

def valOctets : Val → Option (List Nat)
  | .tup vs => optMapNat valNat vs.toList
  | _ => Option.none

def valIp : Val → Option Ip
  | .variant 0 (.tup (.cons o .nil)) => (valOctets o).map Ip.v4
  | .variant 1 (.tup (.cons o .nil)) => (valOctets o).map Ip.v6
  | _ => Option.none

def valConnParams : Val → Option ConnParams
  | .variant 0 (.tup (.cons ip (.cons (.int _ p) (.cons (.int _ w) (.cons (.int _ m) .nil))))) =>
    (valIp ip).map (fun ip => { ip := ip, port := p, webPort := w, maxTransfer := m })
  | _ => Option.none

def valToMsg : Val → Option Msg
  | .variant 0 (.tup (.cons (.uuid id) .nil)) => Option.some (.entitySpawn id)
  | .variant 1 (.tup (.cons (.uuid e) (.cons (.uuid p) .nil))) => Option.some (.entityParented e p)
  | .variant 2 (.tup (.cons (.uuid id) .nil)) => Option.some (.entityDelete id)
  | .variant 3 (.tup (.cons (.uuid id) (.cons (.str n) (.cons (.bytes d) .nil)))) =>
      Option.some (.componentUpdated id n d)
  | .variant 4 (.tup (.cons (.uuid id) (.cons (.bytes m) .nil))) => Option.some (.standardMaterialUpdated id m)
  | .variant 5 (.tup (.cons (.uuid id) (.cons (.str u) .nil))) => Option.some (.meshUpdated id u)
  | .variant 6 (.tup (.cons (.uuid id) (.cons (.str u) .nil))) => Option.some (.imageUpdated id u)
  | .variant 7 (.tup (.cons (.uuid id) (.cons (.str u) .nil))) => Option.some (.audioUpdated id u)
  | .variant 8 (.tup .nil) => Option.some .promoteToHost
  | .variant 9 (.tup (.cons p .nil)) => (valConnParams p).map Msg.newHost
  | .variant 10 (.tup .nil) => Option.some .requestInitialSync
  | .variant 11 (.tup .nil) => Option.some .finishedInitialSync
  | _ => Option.none

def encodeMsg (m : Msg) : List UInt8 := enc (msgToVal m)

/-- `bincode::deserialize::<Message>(..)`; `none` = the `unwrap()` panic in `poll_for_messages` -/
def decodeMsg (bs : List UInt8) : Option Msg :=
  match decode messageTy bs with
  | Option.some v => valToMsg v
  | Option.none => Option.none

/-- ids are 16 bytes, strings valid UTF-8, integers fit their fields -/
def Msg.wf (m : Msg) : Bool := wt messageTy (msgToVal m)

end Codec
end BevySync
