import BevySyncModel.Lz4
import BevySyncModel.Wire
/-! Model of `src/networking/assets/image_serde.rs`: `image_to_bin` / `bin_to_image`.
The texture-format name table is a parameter; the instance used by the property theorem is
regenerated from the pinned `wgpu-types` source on every run (`Generated/TextureFormats.lean`). -/
namespace BevySync
namespace Codec
open Wire

structure Image where
  width : Nat
  height : Nat
  depth : Nat            -- depth_or_array_layers
  dim : Nat              -- 1 = D1, 2 = D2, 3 = D3
  fmt : Nat              -- index into the format-name table
  data : List UInt8
deriving Repr, DecidableEq

def imageDataFields : List (String × Ty) :=
  [("width", .uint 4), ("height", .uint 4), ("depth_or_array_layers", .uint 4),
   ("dimensions", .uint 1), ("format", .str), ("data", .bytes)]

def imageDataTy : Ty := .tup (TyList.ofList (imageDataFields.map (·.2)))

def findIdx (names : List (List UInt8)) (n : List UInt8) : Option Nat :=
  match names with
  | [] => Option.none
  | x :: rest => if x == n then Option.some 0 else (findIdx rest n).map (· + 1)

def imageToData (names : List (List UInt8)) (i : Image) : Val :=
  .tup (ValList.ofList
    [.int 4 i.width, .int 4 i.height, .int 4 i.depth, .int 1 i.dim,
     .str (names.getD i.fmt []), .bytes i.data])

/-- `match img.dimensions { 1 => D1, 2 => D2, 3 => D3, _ => D2 }` -/
def dimOfCode (c : Nat) : Nat := if c == 1 then 1 else if c == 3 then 3 else 2

def dataToImage (names : List (List UInt8)) : Val → Option Image
  | .tup (.cons (.int _ w) (.cons (.int _ h) (.cons (.int _ d) (.cons (.int _ c)
      (.cons (.str n) (.cons (.bytes bs) .nil)))))) =>
    match findIdx names n with
    | Option.some f =>
      Option.some { width := w, height := h, depth := d, dim := dimOfCode c, fmt := f, data := bs }
    | Option.none => Option.none          -- wgpu's visitor rejects an unknown name → bincode error → `None`
  | _ => Option.none

def imageToBin (names : List (List UInt8)) (i : Image) : List UInt8 :=
  Lz4.compress (enc (imageToData names i)).toArray

/-- `.error` = the `decompress(..).unwrap()` panic; `.ok none` = `None` (bincode / format error) -/
def binToImage (names : List (List UInt8)) (bin : List UInt8) : Except Lz4.Err (Option Image) :=
  match Lz4.decompress bin with
  | .error e => .error e
  | .ok raw =>
    match decode imageDataTy raw.toList with
    | Option.none => .ok Option.none
    | Option.some v => .ok (dataToImage names v)

/-- every table entry is found at its own index (decidable; discharged on the regenerated table) -/
def tableOk (names : List (List UInt8)) : Bool :=
  (List.range names.length).all (fun i => findIdx names (names.getD i []) == Option.some i)

def Image.wf (names : List (List UInt8)) (i : Image) : Bool :=
  (i.dim == 1 || i.dim == 2 || i.dim == 3) && decide (i.fmt < names.length) &&
    wt imageDataTy (imageToData names i)

end Codec
end BevySync
