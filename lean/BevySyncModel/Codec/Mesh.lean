import BevySyncModel.Lz4
import BevySyncModel.Wire
/-! Model of `src/networking/assets/mesh_serde.rs`: `mesh_to_bin` / `bin_to_mesh`.

A `Mesh` here is what the codec can see of a bevy `Mesh`: the primitive topology, the eight
attributes it knows (as rows of lanes; an f32 lane is its bit pattern), the indices with their
width, the morph-target handle kind, and the morph-target names.  `meshToData` / `dataToMesh`
are the glue between a mesh and the `MeshData` struct, written branch by branch after the Rust. -/
namespace BevySync
namespace Codec
open Wire

abbrev Rows := List (List Nat)

inductive Indices where
  | none
  | u16 (ix : List Nat)
  | u32 (ix : List Nat)
deriving Repr, DecidableEq

inductive Morph where
  | none
  | weakUuid (bs : List UInt8)            -- Handle::Weak(AssetId::Uuid)
  | weakIndex (generation index : Nat)    -- Handle::Weak(AssetId::Index)
  | strong                                -- Handle::Strong(_): not transferable, sent as `None`
deriving Repr, DecidableEq

structure Mesh where
  topology : Nat            -- 0 PointList, 1 LineList, 2 LineStrip, 3 TriangleList, 4 TriangleStrip
  positions : Option Rows   -- ×3 f32
  normals : Option Rows     -- ×3 f32
  uv0 : Option Rows         -- ×2 f32
  uv1 : Option Rows         -- ×2 f32
  tangents : Option Rows    -- ×4 f32
  colors : Option Rows      -- ×4 f32
  jointWeights : Option Rows -- ×4 f32
  jointIndices : Option Rows -- ×4 u16
  indices : Indices
  morph : Morph
  morphNames : Option (List (List UInt8))
deriving Repr, DecidableEq

/-! ### `MeshData` as a wire type (this is what `Generated/MeshData.lean` must equal) -/
def arr (n : Nat) (t : Ty) : Ty := .tup (TyList.ofList (List.replicate n t))
def f32 : Ty := .uint 4
def attrTy (k w : Nat) : Ty := .opt (.seq (arr k (.uint w)))
def assetIndexTy : Ty := .tup (TyList.ofList [.uint 4, .uint 4])
/-- `bevy_asset::AssetId<A>`: `Index { index: AssetIndex, marker: PhantomData }` | `Uuid { uuid }` -/
def assetIdTy : Ty := .enm (TyList.ofList [.tup (TyList.ofList [assetIndexTy, Ty.unit]), .tup (TyList.ofList [.uuid])])

def meshDataFields : List (String × Ty) :=
  [("mesh_type", .uint 1),
   ("positions", attrTy 3 4), ("normals", attrTy 3 4),
   ("uvs0", attrTy 2 4), ("uvs1", attrTy 2 4),
   ("tangents", attrTy 4 4), ("colors", attrTy 4 4), ("joint_weights", attrTy 4 4),
   ("joint_indices", attrTy 4 2),
   ("indices32", .opt (.seq (.uint 4))), ("indices16", .opt (.seq (.uint 2))),
   ("morph_targets", .opt assetIdTy),
   ("morph_target_names", .opt (.seq .str))]

def meshDataTy : Ty := .tup (TyList.ofList (meshDataFields.map (·.2)))

/-! ### mesh → MeshData value (`mesh_to_bin`, before serialisation) -/
def rowVal (w : Nat) (r : List Nat) : Val := .tup (ValList.ofList (r.map (Val.int w)))
def rowsVal (w : Nat) (rows : Rows) : Val := .seq (ValList.ofList (rows.map (rowVal w)))
def attrVal (w : Nat) : Option Rows → Val
  | Option.none => .none
  | Option.some rows => .some (rowsVal w rows)
def intsVal (w : Nat) (l : List Nat) : Val := .seq (ValList.ofList (l.map (Val.int w)))

def morphVal : Morph → Val
  | .none => .none
  | .strong => .none
  | .weakUuid bs => .some (.variant 1 (.tup (ValList.ofList [.uuid bs])))
  | .weakIndex g i => .some (.variant 0 (.tup (ValList.ofList [.tup (ValList.ofList [.int 4 g, .int 4 i]), Val.unit])))

def namesVal : Option (List (List UInt8)) → Val
  | Option.none => .none
  | Option.some ns => .some (.seq (ValList.ofList (ns.map Val.str)))

def meshToData (m : Mesh) : Val :=
  .tup (ValList.ofList
    [.int 1 m.topology,
     attrVal 4 m.positions, attrVal 4 m.normals, attrVal 4 m.uv0, attrVal 4 m.uv1,
     attrVal 4 m.tangents, attrVal 4 m.colors, attrVal 4 m.jointWeights, attrVal 2 m.jointIndices,
     (match m.indices with | .u32 ix => .some (intsVal 4 ix) | _ => .none),
     (match m.indices with | .u16 ix => .some (intsVal 2 ix) | _ => .none),
     morphVal m.morph,
     namesVal m.morphNames])

/-! ### MeshData value → mesh (`bin_to_mesh`, after deserialisation) -/
def optMap {α β : Type} (f : α → Option β) : List α → Option (List β)
  | [] => Option.some []
  | a :: l =>
    match f a with
    | Option.none => Option.none
    | Option.some b =>
      match optMap f l with
      | Option.none => Option.none
      | Option.some bs => Option.some (b :: bs)

def valInt : Val → Option Nat
  | .int _ n => Option.some n
  | _ => Option.none
def valRow : Val → Option (List Nat)
  | .tup vs => optMap valInt vs.toList
  | _ => Option.none
def valRows : Val → Option Rows
  | .seq vs => optMap valRow vs.toList
  | _ => Option.none
def valAttr : Val → Option (Option Rows)
  | .none => Option.some Option.none
  | .some v => (valRows v).map Option.some
  | _ => Option.none
def valInts : Val → Option (List Nat)
  | .seq vs => optMap valInt vs.toList
  | _ => Option.none
def valOptInts : Val → Option (Option (List Nat))
  | .none => Option.some Option.none
  | .some v => (valInts v).map Option.some
  | _ => Option.none
def valStr : Val → Option (List UInt8)
  | .str bs => Option.some bs
  | _ => Option.none
def valNames : Val → Option (Option (List (List UInt8)))
  | .none => Option.some Option.none
  | .some (.seq vs) => (optMap valStr vs.toList).map Option.some
  | _ => Option.none
def valMorph : Val → Option Morph
  | .none => Option.some Morph.none
  | .some (.variant 1 (.tup (.cons (.uuid bs) .nil))) => Option.some (Morph.weakUuid bs)
  | .some (.variant 0 (.tup (.cons (.tup (.cons (.int _ g) (.cons (.int _ i) .nil))) (.cons _ .nil)))) =>
      Option.some (Morph.weakIndex g i)
  | _ => Option.none

/-- `match data.mesh_type { 0..=4 => …, _ => TriangleList }` -/
def topologyOfCode (c : Nat) : Nat := if c ≤ 4 then c else 3

/-- indices32 is inserted first, indices16 second: when both are present the 16-bit ones win -/
def indicesOf (i32 i16 : Option (List Nat)) : Indices :=
  match i16 with
  | Option.some ix => .u16 ix
  | Option.none =>
    match i32 with
    | Option.some ix => .u32 ix
    | Option.none => .none

def dataToMesh : Val → Option Mesh
  | .tup (.cons (.int _ c) (.cons p (.cons n (.cons a0 (.cons a1 (.cons tg (.cons cl (.cons jw (.cons ji
      (.cons i32 (.cons i16 (.cons mt (.cons mn .nil))))))))))))) =>
    match valAttr p, valAttr n, valAttr a0, valAttr a1, valAttr tg, valAttr cl, valAttr jw, valAttr ji,
          valOptInts i32, valOptInts i16, valMorph mt, valNames mn with
    | Option.some p, Option.some n, Option.some a0, Option.some a1, Option.some tg, Option.some cl,
      Option.some jw, Option.some ji, Option.some i32, Option.some i16, Option.some mt, Option.some mn =>
      Option.some
        { topology := topologyOfCode c, positions := p, normals := n, uv0 := a0, uv1 := a1,
          tangents := tg, colors := cl, jointWeights := jw, jointIndices := ji,
          indices := indicesOf i32 i16, morph := mt, morphNames := mn }
    | _, _, _, _, _, _, _, _, _, _, _, _ => Option.none
  | _ => Option.none

/-- `Mesh::new(TriangleList, …)`: what `bin_to_mesh` returns when bincode fails -/
def defaultMesh : Mesh :=
  { topology := 3, positions := Option.none, normals := Option.none, uv0 := Option.none, uv1 := Option.none,
    tangents := Option.none, colors := Option.none, jointWeights := Option.none, jointIndices := Option.none,
    indices := .none, morph := .none, morphNames := Option.none }

def meshToBin (m : Mesh) : List UInt8 := Lz4.compress (enc (meshToData m)).toArray

inductive BinErr where
  | panicDecompress (e : Lz4.Err)   -- `decompress(..).unwrap()`
  | glue                            -- a well-typed MeshData the glue cannot read: impossible, see `dataToMesh_total`
deriving Repr, DecidableEq

def binToMesh (bin : List UInt8) : Except BinErr Mesh :=
  match Lz4.decompress bin with
  | .error e => .error (.panicDecompress e)
  | .ok raw =>
    match decode meshDataTy raw.toList with
    | Option.none => .ok defaultMesh
    | Option.some v =>
      match dataToMesh v with
      | Option.some m => .ok m
      | Option.none => .error .glue

/-- what survives the trip: a strong morph-target handle is sent as "no morph targets" -/
def Morph.normalize : Morph → Morph
  | .strong => .none
  | x => x
def Mesh.normalize (m : Mesh) : Mesh := { m with morph := m.morph.normalize }

/-- the codec's domain: topology is one of the five, every lane fits its width, lengths fit u64 -/
def Mesh.wf (m : Mesh) : Bool := decide (m.topology ≤ 4) && wt meshDataTy (meshToData m)

end Codec
end BevySync
