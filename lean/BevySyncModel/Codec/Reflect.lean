import BevySyncModel.Wire
/-! Model of `src/binreflect.rs`: `reflect_to_bin` / `bin_to_reflect`.
`ReflectSerializer` writes a one-entry map `{ type_path : value }`; under bincode that is
u64 1, the path string, then the value in the typed serde shape of the registered type.
`ReflectDeserializer` demands exactly one entry and a registered path.  The registry is the
list of (type path, wire shape) the harness derives from bevy's `TypeInfo` at run time. -/
namespace BevySync
namespace Codec
open Wire

abbrev Registry := List (List UInt8 × Ty)

def Registry.find (reg : Registry) (path : List UInt8) : Option Ty :=
  match reg with
  | [] => Option.none
  | (p, t) :: rest => if p == path then Option.some t else Registry.find rest path

def reflectToBin (path : List UInt8) (v : Val) : List UInt8 :=
  leBytes 8 1 ++ (enc (.str path) ++ enc v)

/-- `none` is the `deserialize(..).unwrap()` panic of `bin_to_reflect` (unknown path, bad bytes) -/
def binToReflect (reg : Registry) (bs : List UInt8) : Option (List UInt8 × Val) :=
  match readUInt 8 bs with
  | Option.some (n, r) =>
    if n == 1 then
      match dec .str r with
      | Option.some (.str path, r') =>
        match reg.find path with
        | Option.some t =>
          match dec t r' with
          | Option.some (v, _) => Option.some (path, v)
          | Option.none => Option.none
        | Option.none => Option.none
      | _ => Option.none
    else Option.none
  | Option.none => Option.none

end Codec
end BevySync
