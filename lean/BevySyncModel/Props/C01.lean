import BevySyncModel.Proofs.Ent
import BevySyncModel.Generated.Filter
import BevySyncModel.Generated.Ent
/-! # C01 — every peer converges to the same set of synchronized entities

One uuid per slice (`Slice/Ent.lean`): the uuid is drawn once by `created` on the origin and no action
rewrites it, so it is identical on all peers and never changes by construction.  Sets of entities are
families of independent slices: messages of different uuids never interact (every handler is keyed by
the uuid), which the trace correspondence checks per uuid on every run. -/
namespace BevySync
namespace Props
open Ent

/-- (tie) creation reacts to `Added<SyncMark>` only (regenerated from both `track.rs`) -/
theorem C01_created_tie : Generated.createdOnlyOnSyncMark = true := by decide

/-- (tie) regenerated from both `receiver.rs` / `track.rs`: an `EntityDelete` despawns the named entity only (no
recursion into its children) and forgets both of its map entries; the client's `EntitySpawn` handler has the duplicate
guard and both handlers fill both maps at once; the host relays both messages at once to everybody but the sender;
`entity_removed_*` announces exactly the tracked uuids whose entity no longer answers the query -/
theorem C01_handlers_tie :
    Generated.entDeleteHandlersNamedEntityOnly = true ∧ Generated.entSpawnHandlers = true ∧
    Generated.entRemovedDetectors = true := by decide

/-- **C01, entity marked on the host** — before or after any client connected (a client that is not yet
in `clients` simply is not there; joining later is C03): for every number of clients, every interleaving
of the peers' frames, clients leaving anywhere, no peer ever holds two live replicas, and once traffic has
drained the host and every connected client hold exactly one. -/
theorem C01_host_origin (s : State) (as : List Act) (h0 : HostMarked s) (ha : ∀ a ∈ as, SpawnOnly a) :
    (run s as).host.count ≤ 1 ∧ (∀ c ∈ (run s as).clients, c.connected = true → c.p.count ≤ 1) ∧
    (Quiescent (run s as) → (run s as).host.count = 1 ∧ ∀ c ∈ (run s as).clients, c.connected = true → c.p.count = 1) :=
  host_origin_converges s as h0 ha

/-- **C01, entity marked on client `w`** (relayed client → host → every other client) -/
theorem C01_client_origin (w : Nat) (s : State) (as : List Act) (h0 : ClientMarked w s)
    (ha : ∀ a ∈ as, SpawnOnlyW w a) :
    (run s as).host.count ≤ 1 ∧ (∀ c ∈ (run s as).clients, c.connected = true → c.p.count ≤ 1) ∧
    ((∃ c ∈ s.clients, c.id = w) → Quiescent (run s as) →
      (run s as).host.count = 1 ∧ ∀ c ∈ (run s as).clients, c.connected = true → c.p.count = 1) :=
  client_origin_converges w s as h0 ha

/-- the pipeline invariants themselves hold in every reachable state of a spawn epoch -/
theorem C01_host_origin_invariant (s : State) (as : List Act) (hi : HSp s) (ha : ∀ a ∈ as, SpawnOnly a) :
    HSp (run s as) := hsp_run s as hi ha
theorem C01_client_origin_invariant (w : Nat) (s : State) (as : List Act) (hi : CSp w s)
    (ha : ∀ a ∈ as, SpawnOnlyW w a) : CSp w (run s as) := csp_run w s as hi ha

/-- **despawns — partial.**  Proved: the handlers' step laws that make concurrent and repeated deletes
harmless — a delete for a uuid the peer does not hold (never known, already despawned, despawned by the
peer itself) changes nothing; deletes are idempotent on host and client; a spawn for a uuid the client
already holds live is ignored (no duplicate).  Missing: the unbounded convergence theorem for histories
with despawns from arbitrary peers (`Quiescent → every connected peer holds none`); the per-uuid trace
correspondence (model predicts count and tracker entry after every frame) and the oracle decide those
histories on every run. -/
theorem C01_delete_laws_partial (p : Peer) :
    (p.tracked = false ∨ p.count = 0 → clientRecv p .delete = p) ∧
    clientRecv (clientRecv p .delete) .delete = clientRecv p .delete ∧
    (hostRecv (hostRecv p .delete).1 .delete).1 = (hostRecv p .delete).1 ∧
    (p.tracked = true → p.count > 0 → clientRecv p .spawn = p) :=
  ⟨clientRecv_delete_unknown p, clientRecv_delete_idem p, hostRecv_delete_idem p, clientRecv_spawn_dup p⟩

/-- non-vacuity: a client-origin entity relayed to a second client; and a full life with crossing deletes -/
def twoC : State := { clients := [{ id := 1 }, { id := 2 }] }

example :
    let s := run twoC [.markC 1, .createdC 1, .pollH 1 1, .pollC 2 1]
    s.host.count = 1 ∧ s.clients.map (·.p.count) = [1, 1] := by decide

example :
    let s := run twoC [.markH, .createdH, .pollC 1 1, .pollC 2 1, .despawnC 1, .despawnH, .removedH, .removedC 1,
                       .pollH 1 1, .pollC 1 1, .pollC 2 2, .pollC 2 1]
    s.host.count = 0 ∧ s.clients.map (·.p.count) = [0, 0] ∧ s.clients.all (fun c => c.up.isEmpty && c.down.isEmpty) = true := by
  decide

end Props
end BevySync
