import BevySyncModel.Proofs.EntDel
import BevySyncModel.Proofs.EntLive
import BevySyncModel.Generated.Filter
import BevySyncModel.Generated.Ent
import BevySyncModel.Generated.Snap
import BevySyncModel.Proofs.World
/-! # C01 — every peer converges to the same set of synchronized entities

One uuid per slice (`Slice/Ent.lean`): the uuid is drawn once by `created` on the origin and no action
rewrites it, so it is identical on all peers and never changes by construction.  Sets of entities are
families of independent slices: messages of different uuids never interact (every handler is keyed by
the uuid), which the trace correspondence checks per uuid on every run. -/
namespace BevySync
namespace Props
open Ent

/-- (for the examples) a run from `s` is admissible, ends drained and everybody has lost the replica -/
def s_ok (s : State) (as : List Act) : Prop :=
  as.all (fun a => match a with | .markH | .markC _ => false | _ => true) = true ∧
  (run s as).host.count = 0 ∧ (run s as).clients.map (·.p.count) = [0, 0] ∧
  (run s as).clients.all (fun c => c.up.isEmpty && c.down.isEmpty) = true

instance (s : State) (as : List Act) : Decidable (s_ok s as) := by unfold s_ok; infer_instance

/-- (tie) creation reacts to `Added<SyncMark>` only (regenerated from both `track.rs`) -/
theorem C01_created_tie : Generated.createdOnlyOnSyncMark = true := by decide

/-- (tie) regenerated from both `receiver.rs` / `track.rs`: an `EntityDelete` despawns the named entity only (no
recursion into its children) and forgets both of its map entries; the client's `EntitySpawn` handler has the duplicate
guard and both handlers fill both maps at once; the host relays both messages at once to everybody but the sender;
`entity_removed_*` announces exactly the tracked uuids whose entity no longer answers the query -/
theorem C01_handlers_tie :
    Generated.entDeleteHandlersNamedEntityOnly = true ∧ Generated.entSpawnHandlers = true ∧
    Generated.entRemovedDetectors = true := by decide

/-- (tie) a joining client's snapshot lists an entity only through the host's tracker maps (`entity_to_uuid`), spawn first —
an entity whose `EntityDelete` the host has already handled (maps cleaned at once, despawn deferred) is not resurrected
on the joiner; and the client ignores messages about uuids it does not know (regenerated from `full_sync` and the
client receiver) -/
theorem C01_snapshot_tie :
    Generated.snapSpawnBeforeComponents = true ∧ Generated.snapClientIgnoresUnknownEntity = true := by decide

/-- **"once traffic has drained" is reached, not assumed**: from any state of the slice, two fair rounds without application
operations end in a quiescent state — the premise of the agreement theorems below -/
theorem C01_drain_reached (s : State) : Quiescent (round (round s)) :=
  two_rounds_quiescent s

/-- **C01, entity marked on the host** — before or after any client connected (a client that is not yet
in `clients` simply is not there; joining later is C03): for every number of clients, every interleaving
of the peers' frames, clients leaving anywhere, no peer ever holds two live replicas, and once traffic has
drained the host and every connected client hold exactly one. -/
theorem C01_host_origin (s : State) (as : List Act) (h0 : HostMarked s) (ha : ∀ a ∈ as, SpawnOnly a) :
    (run s as).host.count ≤ 1 ∧ (∀ c ∈ (run s as).clients, c.connected = true → c.p.count ≤ 1) ∧
    (Quiescent (run s as) → (run s as).host.count = 1 ∧ ∀ c ∈ (run s as).clients, c.connected = true → c.p.count = 1) :=
  host_origin_converges s as h0 ha

/-- **C01, entity marked on client `w`** (relayed client → host → every other client) -/
theorem C01_client_origin (w : Nat) (s : State) (as : List Act) (h0 : ClientMarked w s)
    (ha : ∀ a ∈ as, SpawnOnlyW w a) :
    (run s as).host.count ≤ 1 ∧ (∀ c ∈ (run s as).clients, c.connected = true → c.p.count ≤ 1) ∧
    ((∃ c ∈ s.clients, c.id = w) → Quiescent (run s as) →
      (run s as).host.count = 1 ∧ ∀ c ∈ (run s as).clients, c.connected = true → c.p.count = 1) :=
  client_origin_converges w s as h0 ha

/-- **C01 without the hypothesis "once traffic has drained"**: after any interleaving of a spawn epoch (host origin / client
origin) or of a despawn history there is a continuation of the replication machinery alone — two fair rounds of
`entity_removed`, `entity_created`, poll on every peer — after which the conclusion of the theorems above holds -/
theorem C01_host_origin_total (s : State) (as : List Act) (h0 : HostMarked s) (ha : ∀ a ∈ as, SpawnOnly a) :
    ∃ more : List Act, (∀ a ∈ more, machinery a = true) ∧
      (run (run s as) more).host.count = 1 ∧ ∀ c ∈ (run (run s as) more).clients, c.connected = true → c.p.count = 1 :=
  host_origin_total s as h0 ha

theorem C01_client_origin_total (w : Nat) (s : State) (as : List Act) (h0 : ClientMarked w s)
    (ha : ∀ a ∈ as, SpawnOnlyW w a) (hw : ∃ c ∈ s.clients, c.id = w) :
    ∃ more : List Act, (∀ a ∈ more, machinery a = true) ∧
      (run (run s as) more).host.count = 1 ∧ ∀ c ∈ (run (run s as) more).clients, c.connected = true → c.p.count = 1 :=
  client_origin_total w s as h0 ha hw

theorem C01_despawns_total (s : State) (as : List Act) (h0 : Live s) (ha : ∀ a ∈ as, NoMark a) :
    ∃ more : List Act, (∀ a ∈ more, machinery a = true) ∧
      (((run (run s as) more).host.count = 0 → ∀ c ∈ (run (run s as) more).clients, c.connected = true → c.p.count = 0) ∧
       (∀ c ∈ (run (run s as) more).clients, c.connected = true → c.p.count = 0 →
          (run (run s as) more).host.count = 0 ∧ ∀ c' ∈ (run (run s as) more).clients, c'.connected = true → c'.p.count = 0)) :=
  despawns_total s as h0 ha

/-- the pipeline invariants themselves hold in every reachable state of a spawn epoch -/
theorem C01_host_origin_invariant (s : State) (as : List Act) (hi : HSp s) (ha : ∀ a ∈ as, SpawnOnly a) :
    HSp (run s as) := hsp_run s as hi ha
theorem C01_client_origin_invariant (w : Nat) (s : State) (as : List Act) (hi : CSp w s)
    (ha : ∀ a ∈ as, SpawnOnlyW w a) : CSp w (run s as) := csp_run w s as hi ha

/-- **C01, despawns.** From a state in which the host and every connected client hold the replica and nothing is in
flight (where a spawn epoch ends), any peers — the host, any clients, several of them, crossing each other — may despawn it
at any moment and clients may leave: for every schedule, once drained, all connected peers agree. As soon as the host or
one connected client has lost the entity everybody has; nobody ever holds two; a peer that lost it no longer tracks it. -/
theorem C01_despawns_converge (s : State) (as : List Act) (h0 : Live s) (ha : ∀ a ∈ as, NoMark a)
    (hq : Quiescent (run s as)) :
    ((run s as).host.count = 0 → ∀ c ∈ (run s as).clients, c.connected = true → c.p.count = 0) ∧
    (∀ c ∈ (run s as).clients, c.connected = true → c.p.count = 0 →
        (run s as).host.count = 0 ∧ ∀ c' ∈ (run s as).clients, c'.connected = true → c'.p.count = 0) ∧
    (run s as).host.count ≤ 1 ∧ (∀ c ∈ (run s as).clients, c.connected = true → c.p.count ≤ 1) :=
  del_agreement _ (delinv_run s as (live_delinv s h0) ha) hq

/-- the invariant behind it, for every reachable state: every message in flight is a delete; a peer that no longer
tracks the uuid holds nothing; when the host is gone every connected client is dead or has a delete on its way; a client
that is gone has told the host (or the host is dead already) -/
theorem C01_despawn_invariant (s : State) (as : List Act) (hi : DelInv s) (ha : ∀ a ∈ as, NoMark a) :
    DelInv (run s as) := delinv_run s as hi ha

/-- the step laws the handlers obey: a delete for a uuid the peer does not hold changes nothing; deletes are idempotent
on host and client; a spawn for a uuid the client already holds live is ignored (no duplicate) -/
theorem C01_delete_laws (p : Peer) :
    (p.tracked = false ∨ p.count = 0 → clientRecv p .delete = p) ∧
    clientRecv (clientRecv p .delete) .delete = clientRecv p .delete ∧
    (hostRecv (hostRecv p .delete).1 .delete).1 = (hostRecv p .delete).1 ∧
    (p.tracked = true → p.count > 0 → clientRecv p .spawn = p) :=
  ⟨clientRecv_delete_unknown p, clientRecv_delete_idem p, hostRecv_delete_idem p, clientRecv_spawn_dup p⟩

/-- the hypotheses are met where the spawn theorems end: host + two clients holding the replica, client 1 and the host
despawn in the same breath, client 2 learns it twice -/
example :
    let live : State := State.mk (Peer.mk false 1 true true)
      [Client.mk 1 (Peer.mk false 1 true true) [] [] true, Client.mk 2 (Peer.mk false 1 true true) [] [] true] 0 0
    let as : List Act := [.despawnC 1, .despawnH, .removedH, .removedC 1, .pollH 1 1, .pollC 1 1, .pollC 2 2]
    s_ok live as := by
  decide

/-- non-vacuity: a client-origin entity relayed to a second client; and a full life with crossing deletes -/
def twoC : State := { clients := [{ id := 1 }, { id := 2 }] }

example :
    let s := run twoC [.markC 1, .createdC 1, .pollH 1 1, .pollC 2 1]
    s.host.count = 1 ∧ s.clients.map (·.p.count) = [1, 1] := by decide

example :
    let s := run twoC [.markH, .createdH, .pollC 1 1, .pollC 2 1, .despawnC 1, .despawnH, .removedH, .removedC 1,
                       .pollH 1 1, .pollC 1 1, .pollC 2 2, .pollC 2 1]
    s.host.count = 0 ∧ s.clients.map (·.p.count) = [0, 0] ∧ s.clients.all (fun c => c.up.isEmpty && c.down.isEmpty) = true := by
  decide

/-- (tie) the uuid maps only ever lose the entry of an entity that is gone — the two delete handlers and the two removal
detectors are the only places that shrink them, nothing clears or replaces them: a peer that joins again still knows what it
holds, which is what the duplicate-spawn guard (`C01_rejoin_entity_set`) relies on -/
theorem C01_maps_kept_tie : Generated.entMapsShrinkOnlyOnRemoval = true := by decide

/-- **joins (whole world, `Slice/World.lean`).** A client that joins afresh ends with exactly one replica of every entity the
host tracks and of nothing else, however many entities and archetypes the snapshot spans; a client that returns holding
replicas gets no second replica of a uuid it knows (the duplicate guard) and every uuid of the host (what it keeps beyond
that is C03's finding D16) -/
theorem C01_join_entity_set (w : WorldSnap.World) (hw : WorldSnap.WF w) :
    (WorldSnap.applyAll {} (WorldSnap.snapshot w)).ents = WorldSnap.uuids w ∧
    (WorldSnap.applyAll {} (WorldSnap.snapshot w)).ents.Nodup :=
  ⟨(WorldSnap.snapshot_rebuilds w hw).1, by rw [(WorldSnap.snapshot_rebuilds w hw).1]; exact hw.nodup⟩

theorem C01_rejoin_entity_set (w : WorldSnap.World) (hw : WorldSnap.WF w) (c0 : WorldSnap.Client) (u : Nat) :
    u ∈ (WorldSnap.applyAll c0 (WorldSnap.snapshot w)).ents ↔ u ∈ c0.ents ∨ u ∈ WorldSnap.uuids w :=
  (WorldSnap.snapshot_on_returning w hw c0).1 u

end Props
end BevySync
