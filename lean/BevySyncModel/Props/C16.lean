import BevySyncModel.Slice.Skin
import BevySyncModel.Generated.Sync
import BevySyncModel.Generated.SkinMapper
import BevySyncModel.Generated.Snap
import BevySyncModel.Proofs.World
/-! # C16 — skinned-mesh joints and bind poses are translated between peers -/
namespace BevySync
namespace Props
open Skin

/-- (tie) the mapper that travels is `{ inverse_bindposes: Vec<Mat4>, joints: Vec<Uuid> }` (regenerated from
`lib_priv.rs`), both translation loops skip unknown ids and keep the order, and a SkinnedMesh change is
debounced under the name its token is stored with (D5 repaired) -/
theorem C16_code_tie :
    Generated.skinMapperFields.map (·.1) = ["inverse_bindposes", "joints"] ∧
    Generated.skinLoopsSkipUnknown = true ∧ Generated.skinTokenNameConsistent = true := by decide

/-- (tie) the joining snapshot: `build_full_sync` moves every `EntitySpawn` in front of every component before anything else is
appended (repair of D21), spawns precede components inside `check_entity_components`, the client ignores components of
unknown entities only -/
theorem C16_snapshot_order_tie :
    Generated.snapEntitiesFirst = true ∧ Generated.snapSpawnBeforeComponents = true ∧
    Generated.snapBuildOrder = true ∧ Generated.snapClientIgnoresUnknownEntity = true := by decide

/-- **through the joining snapshot** (`Slice/World.lean`): when the joiner handles any component of the snapshot — the
`SkinnedMesh` in particular — it already knows **every** entity the host tracks, whatever the archetypes and their order and
however the ordered channel cuts the snapshot into frames; the translation loop of `C16_translate`, which runs when the
component is applied at the end of that frame, therefore finds every joint (`e2u` / `u2e` total on the joints), and the
joints arrive in number, order and identity. -/
theorem C16_snapshot_joints_known (w : WorldSnap.World) (hw : WorldSnap.WF w) (pre post : List WorldSnap.Msg) (m : WorldSnap.Msg)
    (h : WorldSnap.snapshot w = pre ++ m :: post) (hm : WorldSnap.isSpawn m = false) :
    (WorldSnap.applyAll {} pre).ents = WorldSnap.uuids w :=
  WorldSnap.all_known_when_handled w hw pre post m h hm

/-- **D21 (repaired), kernel-checked on the order before the repair**: the skinned entity 1 sits in an older archetype than its
joint 2; in the list as `check_entity_components` pushes it the component of 1 precedes the spawn of 2, so a joiner that
receives the first two messages in one frame and the rest in the next applies the component knowing entity 1 only -/
example :
    let w : WorldSnap.World :=
      [{ types := [9], ents := [{ uuid := 1, vals := [(9, 90)], parent := none }] },
       { types := [7], ents := [{ uuid := 2, vals := [(7, 70)], parent := none }] }]
    WorldSnap.snapshotG false w = [.spawn 1, .comp 1 9 90, .spawn 2, .comp 2 7 70] ∧
    (WorldSnap.applyAll {} [.spawn 1, .comp 1 9 90]).ents = [1] ∧
    WorldSnap.snapshot w = [.spawn 1, .spawn 2, .comp 1 9 90, .comp 2 7 70] := by decide

theorem filterMap_known {α β : Type} (f : α → Option β) (g : α → β) (l : List α) (h : ∀ a ∈ l, f a = some (g a)) :
    l.filterMap f = l.map g := by
  induction l with
  | nil => rfl
  | cons a l ih =>
    simp only [List.filterMap_cons, h a (by simp), List.map_cons]
    rw [ih (fun b hb => h b (by simp [hb]))]

/-- **C16.** If the sender knows the uuid `uu j` of every joint `j` and the receiver has a replica
`rep u` of every one of those uuids, the SkinnedMesh arrives with the same number of joints in the
same order (repetitions included), each joint being the receiver's replica of the same uuid, and with
the same bind poses — for every joint list and whatever the two peers' local entity ids are. -/
theorem C16_translate {P : Type} (e2u u2e : Nat → Option Nat) (uu rep : Nat → Nat) (joints : List Nat) (poses : List P)
    (hs : ∀ j ∈ joints, e2u j = some (uu j)) (hr : ∀ j ∈ joints, u2e (uu j) = some (rep (uu j))) :
    toSkinned u2e (toMapper e2u joints poses) = (joints.map (fun j => rep (uu j)), poses) := by
  unfold toSkinned toMapper
  simp only
  rw [filterMap_known e2u uu joints hs, filterMap_known u2e rep (joints.map uu) (by
    intro a ha
    obtain ⟨j, hj, rfl⟩ := List.mem_map.mp ha
    exact hr j hj), List.map_map]
  rfl

/-- the same through a relay (client → host → other client): two translations compose -/
theorem C16_translate_relay {P : Type} (e2uA u2eH e2uH u2eB : Nat → Option Nat) (uu repH repB : Nat → Nat)
    (joints : List Nat) (poses : List P)
    (h1 : ∀ j ∈ joints, e2uA j = some (uu j)) (h2 : ∀ j ∈ joints, u2eH (uu j) = some (repH (uu j)))
    (h3 : ∀ j ∈ joints, e2uH (repH (uu j)) = some (uu j)) (h4 : ∀ j ∈ joints, u2eB (uu j) = some (repB (uu j))) :
    toSkinned u2eB (toMapper e2uH (toSkinned u2eH (toMapper e2uA joints poses)).1 poses)
      = (joints.map (fun j => repB (uu j)), poses) := by
  rw [C16_translate e2uA u2eH uu repH joints poses h1 h2]
  simp only
  have := C16_translate e2uH u2eB (fun e => uu (joints.find? (fun j => repH (uu j) == e) |>.getD 0)) repB
    (joints.map (fun j => repH (uu j))) poses
  -- a direct computation is shorter than instantiating the general theorem through `find?`
  clear this
  unfold toSkinned toMapper
  simp only [List.filterMap_map]
  have e1 : List.filterMap (e2uH ∘ fun j => repH (uu j)) joints = joints.map uu :=
    filterMap_known _ uu joints (fun j hj => h3 j hj)
  rw [e1, filterMap_known u2eB repB (joints.map uu) (by
    intro a ha
    obtain ⟨j, hj, rfl⟩ := List.mem_map.mp ha
    exact h4 j hj), List.map_map]
  rfl

/-- length, order and repetitions are preserved: the k-th joint on the receiver is the replica of the k-th joint's uuid -/
theorem C16_same_length {P : Type} (e2u u2e : Nat → Option Nat) (uu rep : Nat → Nat) (joints : List Nat) (poses : List P)
    (hs : ∀ j ∈ joints, e2u j = some (uu j)) (hr : ∀ j ∈ joints, u2e (uu j) = some (rep (uu j))) :
    (toSkinned u2e (toMapper e2u joints poses)).1.length = joints.length ∧
    (toSkinned u2e (toMapper e2u joints poses)).2 = poses := by
  rw [C16_translate e2u u2e uu rep joints poses hs hr]; simp

/-- what the code does when the receiver does **not** know a joint yet (a snapshot split between the
spawn of a joint and the mapper that names it): the joint is silently dropped — the precondition of
`C16_translate` is necessary -/
theorem C16_unknown_joint_is_dropped :
    toSkinned (fun u => if u = 10 then some 5 else none) (toMapper (fun e => some (e + 9)) [1, 2, 1] ["p"])
      = ([5, 5], ["p"]) := by decide

/-- non-vacuity: repeated joints, shifted id spaces -/
example : toSkinned (fun u => some (u + 100)) (toMapper (fun e => some (e * 2)) [3, 1, 3] [7, 8])
    = ([106, 102, 106], [7, 8]) := by decide

end Props
end BevySync
