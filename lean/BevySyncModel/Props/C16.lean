import BevySyncModel.Slice.Skin
import BevySyncModel.Generated.Sync
import BevySyncModel.Generated.SkinMapper
/-! # C16 — skinned-mesh joints and bind poses are translated between peers -/
namespace BevySync
namespace Props
open Skin

/-- (tie) the mapper that travels is `{ inverse_bindposes: Vec<Mat4>, joints: Vec<Uuid> }` (regenerated from
`lib_priv.rs`), both translation loops skip unknown ids and keep the order, and a SkinnedMesh change is
debounced under the name its token is stored with (D5 repaired) -/
theorem C16_code_tie :
    Generated.skinMapperFields.map (·.1) = ["inverse_bindposes", "joints"] ∧
    Generated.skinLoopsSkipUnknown = true ∧ Generated.skinTokenNameConsistent = true := by decide

theorem filterMap_known {α β : Type} (f : α → Option β) (g : α → β) (l : List α) (h : ∀ a ∈ l, f a = some (g a)) :
    l.filterMap f = l.map g := by
  induction l with
  | nil => rfl
  | cons a l ih =>
    simp only [List.filterMap_cons, h a (by simp), List.map_cons]
    rw [ih (fun b hb => h b (by simp [hb]))]

/-- **C16.** If the sender knows the uuid `uu j` of every joint `j` and the receiver has a replica
`rep u` of every one of those uuids, the SkinnedMesh arrives with the same number of joints in the
same order (repetitions included), each joint being the receiver's replica of the same uuid, and with
the same bind poses — for every joint list and whatever the two peers' local entity ids are. -/
theorem C16_translate {P : Type} (e2u u2e : Nat → Option Nat) (uu rep : Nat → Nat) (joints : List Nat) (poses : List P)
    (hs : ∀ j ∈ joints, e2u j = some (uu j)) (hr : ∀ j ∈ joints, u2e (uu j) = some (rep (uu j))) :
    toSkinned u2e (toMapper e2u joints poses) = (joints.map (fun j => rep (uu j)), poses) := by
  unfold toSkinned toMapper
  simp only
  rw [filterMap_known e2u uu joints hs, filterMap_known u2e rep (joints.map uu) (by
    intro a ha
    obtain ⟨j, hj, rfl⟩ := List.mem_map.mp ha
    exact hr j hj), List.map_map]
  rfl

/-- the same through a relay (client → host → other client): two translations compose -/
theorem C16_translate_relay {P : Type} (e2uA u2eH e2uH u2eB : Nat → Option Nat) (uu repH repB : Nat → Nat)
    (joints : List Nat) (poses : List P)
    (h1 : ∀ j ∈ joints, e2uA j = some (uu j)) (h2 : ∀ j ∈ joints, u2eH (uu j) = some (repH (uu j)))
    (h3 : ∀ j ∈ joints, e2uH (repH (uu j)) = some (uu j)) (h4 : ∀ j ∈ joints, u2eB (uu j) = some (repB (uu j))) :
    toSkinned u2eB (toMapper e2uH (toSkinned u2eH (toMapper e2uA joints poses)).1 poses)
      = (joints.map (fun j => repB (uu j)), poses) := by
  rw [C16_translate e2uA u2eH uu repH joints poses h1 h2]
  simp only
  have := C16_translate e2uH u2eB (fun e => uu (joints.find? (fun j => repH (uu j) == e) |>.getD 0)) repB
    (joints.map (fun j => repH (uu j))) poses
  -- a direct computation is shorter than instantiating the general theorem through `find?`
  clear this
  unfold toSkinned toMapper
  simp only [List.filterMap_map]
  have e1 : List.filterMap (e2uH ∘ fun j => repH (uu j)) joints = joints.map uu :=
    filterMap_known _ uu joints (fun j hj => h3 j hj)
  rw [e1, filterMap_known u2eB repB (joints.map uu) (by
    intro a ha
    obtain ⟨j, hj, rfl⟩ := List.mem_map.mp ha
    exact h4 j hj), List.map_map]
  rfl

/-- length, order and repetitions are preserved: the k-th joint on the receiver is the replica of the k-th joint's uuid -/
theorem C16_same_length {P : Type} (e2u u2e : Nat → Option Nat) (uu rep : Nat → Nat) (joints : List Nat) (poses : List P)
    (hs : ∀ j ∈ joints, e2u j = some (uu j)) (hr : ∀ j ∈ joints, u2e (uu j) = some (rep (uu j))) :
    (toSkinned u2e (toMapper e2u joints poses)).1.length = joints.length ∧
    (toSkinned u2e (toMapper e2u joints poses)).2 = poses := by
  rw [C16_translate e2u u2e uu rep joints poses hs hr]; simp

/-- what the code does when the receiver does **not** know a joint yet (a snapshot split between the
spawn of a joint and the mapper that names it): the joint is silently dropped — the precondition of
`C16_translate` is necessary -/
theorem C16_unknown_joint_is_dropped :
    toSkinned (fun u => if u = 10 then some 5 else none) (toMapper (fun e => some (e + 9)) [1, 2, 1] ["p"])
      = ([5, 5], ["p"]) := by decide

/-- non-vacuity: repeated joints, shifted id spaces -/
example : toSkinned (fun u => some (u + 100)) (toMapper (fun e => some (e * 2)) [3, 1, 3] [7, 8])
    = ([106, 102, 106], [7, 8]) := by decide

end Props
end BevySync
