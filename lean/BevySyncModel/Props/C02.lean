import BevySyncModel.Proofs.Comp
import BevySyncModel.Proofs.Mark
import BevySyncModel.Generated.Sync
import BevySyncModel.Proofs.CompLive
/-! # C02 — component values converge to the most recent write on every peer

The slice model (`Slice/Comp.lean`) has one key (entity uuid, component type), a host and a **list**
of clients of any length.  Its actions are the individual system runs and deferred closures, so a
theorem about every action sequence covers every interleaving of the peers' frames, every order of
the unordered systems inside a frame and every split of the deliveries. -/
namespace BevySync
namespace Props
open Comp

/-- (tie) the code paths the model is parameterised by, regenerated from `lib_priv.rs`/`bundle_fix.rs`:
an apply is never skipped because of a pending debounce token (D1 repaired), the received value
replaces the component instead of patching it (D13 repaired), the companion fixes do not re-insert
the replicated value (D8 repaired).  The theorems below are about exactly that configuration. -/
theorem C02_code_paths_tie :
    Generated.applySkipsOnToken = false ∧ Generated.applyIsPatch = false ∧ Generated.fixReinsertsValue = false := by
  decide

/-- (tie) the model's `react` sends the whole queue and its `poll` hands every message to a closure: both
`react_on_changed_components` send every change they pop, both `poll_for_messages` handle every message they take -/
theorem C02_queues_tie : Generated.reactDrainsWholeQueue = true ∧ Generated.recvHandlesEveryMessage = true := by decide

/-- (tie) `sync_detect<T>` and `sync_skinned_mesh` also fire for an entity that has just become a
`SyncEntity` (`Or<(Changed<T>, Added<SyncEntity>)>`, D2 repaired) -/
theorem C02_detect_filter_tie : Generated.detectSeesNewSyncEntity = true := by decide

/-- (tie) keys are independent: the slice follows one (entity, component) key, which is sound only if what happens to one entity
in a frame cannot keep another entity's change from being queued — both detection systems are a plain loop that queues every
entity the query yields (no state carried from one iteration to the next) -/
theorem C02_keys_independent_tie : Generated.detectQueuesEveryMatch = true := by decide

/-- **values the entity already carried when it was marked.** On the marking peer the value is handed to the
replication queue exactly once — whichever side of the frame's sync point `sync_detect<T>` happens to be
ordered on in this run of the application — and never again while nobody writes; from there on it is an
ordinary write of the component slice (`writeH` / `writeC` followed by `detect`). -/
theorem C02_initial_value_announced_once (before : Bool) (n : Nat) (hn : 2 ≤ n) :
    (Mark.run false before {} n).announced = 1 :=
  Mark.announced_once before n hn

/-- … also when the entity was marked any number of frames before the peer connected -/
theorem C02_initial_value_announced_once_after_idle (before : Bool) (k n : Nat) (hn : 2 ≤ n) :
    (Mark.run false before (Mark.idle false {} k) n).announced = 1 :=
  Mark.announced_once_after_idle before k n hn

theorem C02_write_after_mark_announced (before : Bool) (a : Nat) :
    (Mark.frame false before (Mark.write { created := true, synced := true, changedT := false, addedS := false, announced := a })).announced = a + 1 :=
  Mark.write_announced before a

/-- D2 stays machine-checked: with the pre-repair filter (`Changed<T>` only) and `sync_detect<T>` ordered ahead
of the sync point, the value carried at mark time is never announced, however long the session runs -/
theorem C02_legacy_filter_misses_initial_value (n : Nat) : (Mark.run true true {} n).announced = 0 :=
  Mark.legacy_never n

variable {V : Type} [DecidableEq V] {ra : Bool}

/-- **safety for every schedule, host writes.** The pipeline invariant — for every client, what it
holds once everything already emitted towards it is applied is the host's value — survives every
action of every peer (any number of clients). -/
theorem C02_host_writer_invariant (s : State V) (as : List (Act V)) (hi : HInv s)
    (ha : ∀ a ∈ as, HostWrites a) : HInv (run ra false replace s as) :=
  (hinv_run s as hi ha).1

/-- **safety for every schedule, a client writes** (two-stage pipeline: writer → host → other clients,
relay only if changed, never back to the sender). -/
theorem C02_client_writer_invariant (w : Nat) (s : State V) (as : List (Act V)) (y : Option V)
    (hi : CInvL w y s) (ha : ∀ a ∈ as, ClientWrites w a) :
    CInvL w (lastWritten y as) (run ra false replace s as) :=
  cinvl_run w s as y hi ha

/-- **C02, one epoch, host writes**: from a drained state in which everybody holds `x`, after any
interleaving in which only the host writes (consecutive frames, bursts, readers processing several
updates in one frame …), once traffic has drained every peer holds the most recent write, and the
state is drained again. -/
theorem C02_host_epoch (x : Option V) (s : State V) (as : List (Act V)) (hc : Clean x s)
    (ha : ∀ a ∈ as, HostWrites a) (hq : Quiescent (run ra false replace s as)) :
    Clean (lastWritten x as) (run ra false replace s as) :=
  host_epoch_converges x s as hc ha hq

/-- **C02, one epoch, client `w` writes** (client → host → every other client) -/
theorem C02_client_epoch (w : Nat) (x : Option V) (s : State V) (as : List (Act V))
    (hn : (s.clients.map (·.id)).Nodup) (hw : ∃ c ∈ s.clients, c.id = w) (hc : Clean x s)
    (ha : ∀ a ∈ as, ClientWrites w a) (hq : Quiescent (run ra false replace s as)) :
    Clean (lastWritten x as) (run ra false replace s as) :=
  client_epoch_converges w x s as hn hw hc ha hq

/-- **C02, one epoch, host writes — the drain is reached, not assumed**: after any interleaving in which only the host
writes, three fair rounds without further writes (a schedule of the model's own actions) leave every peer holding the most
recent write, with nothing pending. -/
theorem C02_host_epoch_total (x : Option V) (s : State V) (as : List (Act V)) (hc : Clean x s)
    (ha : ∀ a ∈ as, HostWrites a) :
    ∃ more : List (Act V), (∀ a ∈ more, isWrite a = false) ∧
      Clean (lastWritten x as) (run ra false replace (run ra false replace s as) more) :=
  host_epoch_total x s as hc ha

/-- **C02, one epoch, client `w` writes — the drain is reached, not assumed** -/
theorem C02_client_epoch_total (w : Nat) (x : Option V) (s : State V) (as : List (Act V))
    (hn : (s.clients.map (·.id)).Nodup) (hw : ∃ c ∈ s.clients, c.id = w) (hc : Clean x s)
    (ha : ∀ a ∈ as, ClientWrites w a) :
    ∃ more : List (Act V), (∀ a ∈ more, isWrite a = false) ∧
      Clean (lastWritten x as) (run ra false replace (run ra false replace s as) more) :=
  client_epoch_total w x s as hn hw hc ha

/-- **C02.** Different peers write the same component at different times, any two writers separated
by a drain: after the last epoch every peer (host and every client) holds the most recent write. -/
theorem C02_epochs (x : Option V) (s : State V) (es : List (Epoch V))
    (hn : (s.clients.map (·.id)).Nodup) (hc : Clean x s) (hok : EpochsOk ra s es) :
    Clean (lastWrittenEpochs x es) (runEpochs ra s es) :=
  epochs_converge x s es hn hc hok

/-- reading `Clean` off: the host and every client hold the value -/
theorem C02_clean_means_equal (x : Option V) (s : State V) (h : Clean x s) :
    s.host.val = x ∧ ∀ c ∈ s.clients, c.p.val = x :=
  ⟨h.1, fun c hc => (h.2.2.2.2.2 c hc).1⟩

/-! ### the repaired defects stay machine-checked: on the pre-repair semantics the statement is false -/

def C02.two : State Nat := { clients := [{ id := 1 }, { id := 2 }] }

/-- D1 (`legacy = true`): the host writes 5 then 7; client 1 receives both before its `sync_detect`
runs; the second apply is skipped because of the token.  Everything drains, yet client 1 holds 5. -/
def C02.d1Witness : List (Act Nat) :=
  [.writeH 5, .detectH, .reactH, .pollC 1 1, .flushC 1, .writeH 7, .detectH, .reactH, .pollC 1 1, .flushC 1,
   .detectC 1, .pollC 2 1, .flushC 2, .detectC 2, .pollC 2 1, .flushC 2, .detectC 2]

theorem C02_false_with_token_skip :
    (run false true replace C02.two C02.d1Witness).host.val = some 7 ∧
    ((run false true replace C02.two C02.d1Witness).clients.map (·.p.val)) = [some 5, some 7] ∧
    ((run false true replace C02.two C02.d1Witness).clients.all (fun c => c.defer.isEmpty && c.down.isEmpty && !c.p.dirty)) = true := by
  decide

/-- the same history on the repaired semantics converges -/
theorem C02_same_history_repaired :
    ((run false false replace C02.two C02.d1Witness).clients.map (·.p.val)) = [some 7, some 7] := by decide

/-- D13 (patching apply on a list-valued component): a write that shortens the list is not adopted -/
theorem C02_false_with_list_patch :
    let s0 : State (List Nat) := { clients := [{ id := 1 }] }
    let as : List (Act (List Nat)) :=
      [.writeH [9, 2, 3], .detectH, .reactH, .pollC 1 1, .flushC 1, .detectC 1,
       .writeH [9], .detectH, .reactH, .pollC 1 1, .flushC 1, .detectC 1]
    (run false false listPatch s0 as).host.val = some [9] ∧
      ((run false false listPatch s0 as).clients.map (·.p.val)) = [some [9, 2, 3]] := by
  decide

/-- non-vacuity: a concrete two-epoch history (host writes, then client 2 writes, relayed to client 1)
meets every hypothesis of `C02_epochs` and ends with everybody at the last write -/
def demoEpochs : List (Epoch Nat) :=
  [{ writer := none, acts := [.writeH 5, .detectH, .reactH, .pollC 1 1, .pollC 2 1, .flushC 1, .flushC 2, .detectC 1, .detectC 2] },
   { writer := some 2, acts := [.writeC 2 8, .writeC 2 9, .detectC 2, .reactC 2, .pollH 2 1, .flushH, .detectH,
                                .pollC 1 1, .flushC 1, .detectC 1] }]

example : (runEpochs false C02.two demoEpochs).host.val = some 9 ∧
    ((runEpochs false C02.two demoEpochs).clients.map (·.p.val)) = [some 9, some 9] := by decide

end Props
end BevySync
