import BevySyncModel.Proofs.Image
import BevySyncModel.Generated.ImageData
import BevySyncModel.Generated.TextureFormats
/-! # C13 — image wire encoding is lossless -/
namespace BevySync
namespace Props
open Wire Codec

/-- (tie) descriptor regenerated from `image_serde.rs` -/
theorem C13_descriptor_tie : Ty.beq Generated.imageDataTy Codec.imageDataTy = true := by decide

theorem C13_field_names_tie :
    Generated.imageDataFields.map (·.1) = Codec.imageDataFields.map (·.1) := by decide

/-- (tie) in the table regenerated from the pinned wgpu-types source every format name is found at its
own index: name ↦ format is injective, so parsing the printed name gives the format back -/
theorem C13_format_table_ok : tableOk Generated.textureFormatNames = true := by decide +kernel

theorem C13_format_table_size :
    Generated.textureFormatNames.length = Generated.textureFormatCount := by decide

/-- **C13.** For every image in the domain (dimension D1/D2/D3, any width/height/depth below 2³²,
any format of the table, any pixel bytes — no relation between size and byte length is needed by the
codec) decoding the encoding returns the same image. -/
theorem C13_image_roundtrip (i : Image) (h : i.wf Generated.textureFormatNames = true) :
    binToImage Generated.textureFormatNames (imageToBin Generated.textureFormatNames i)
      = .ok (Option.some i) :=
  binToImage_imageToBin _ C13_format_table_ok i h

/-- non-vacuity: an empty image, a single pixel, and a 3-D image are in the domain -/
example : ({ width := 0, height := 0, depth := 1, dim := 2, fmt := 21, data := [] } : Image).wf
    Generated.textureFormatNames = true := by decide +kernel
example : ({ width := 1, height := 1, depth := 1, dim := 1, fmt := 0, data := [255] } : Image).wf
    Generated.textureFormatNames = true := by decide +kernel
example : ({ width := 2, height := 1, depth := 3, dim := 3, fmt := 115, data := [1, 2, 3, 4, 5, 6] } : Image).wf
    Generated.textureFormatNames = true := by decide +kernel

end Props
end BevySync
