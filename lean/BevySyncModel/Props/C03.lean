import BevySyncModel.Proofs.Snap
import BevySyncModel.Proofs.SnapLive
import BevySyncModel.Proofs.Asset
import BevySyncModel.Proofs.World
import BevySyncModel.Generated.Snap
import BevySyncModel.Generated.Sync
import BevySyncModel.Generated.Ent
import BevySyncModel.Generated.Conn
/-! # C03 — a joining client obtains the complete current session state

`Slice/Snap.lean`: one key (entity uuid, component) on the host and on the client that joins — the first time, or
again while still holding replicas — while the session goes on: the host keeps writing (or keeps applying and
relaying another client's writes), live broadcasts reach the joiner from the moment the transport accepted it,
i.e. also **before** its snapshot, the snapshot is read off the world at one flush and queued behind whatever was
sent before, and the joiner handles everything in order with its ordinary handlers.  A parent link is the same
slice with the parent's uuid as value.  Downloadable assets: `Slice/Asset.lean` with the snapshot action.
Once the joiner has its entity and value it is an ordinary client of C01 / C02 / C05 / C06. -/
namespace BevySync
namespace Props
open Snap

/-- (tie) regenerated from `server/{receiver,initial_sync}.rs`, `full_sync/mod.rs`, `client/receiver.rs`: the request
queues a closure that builds the snapshot from the world as it is at that flush; its messages go out in order on
the reliable ordered channel of that client, `FinishedInitialSync` last; entities, then parents, then the asset
classes; `EntitySpawn` precedes the components of an entity, only tracked entities / registered, non-excluded
components; parent links only between known pairs; the client ignores a component for an unknown uuid and has the
duplicate-spawn guard; the asset classes are gated by their switches -/
theorem C03_code_tie :
    Generated.snapRequestQueuesClosure = true ∧ Generated.snapSentInOrderThenFinished = true ∧
    Generated.snapBuildOrder = true ∧ Generated.snapSpawnBeforeComponents = true ∧ Generated.snapEntitiesFirst = true ∧
    Generated.snapParentsOfKnownPairs = true ∧ Generated.snapClientIgnoresUnknownEntity = true ∧
    Generated.snapAssetClassesGated = true ∧ Generated.entSpawnHandlers = true ∧
    Generated.connVerifyChecksTransport = true ∧ Generated.recvHandlesEveryMessage = true := by
  decide

variable {V : Type} [DecidableEq V]

/-- **C03, entities and values.** From any state of the host's side of the key (`mode = true`: the host is the
writer of the current epoch, `false`: it applies and relays another client's writes), for a newcomer and for a
returning client, for **every** interleaving of the host's writes / applies / detection / reactions, the moment the
transport accepts the joiner, the moment its snapshot is built, and the joiner's own frames: once the joiner is
through it holds the entity iff the host does, exactly one replica of it, the host's value — and it has never
announced anything itself. -/
theorem C03_joiner_converges (mode : Bool) (s : State V) (as : List (Act V)) (hi : Inv mode s)
    (ha : ∀ a ∈ as, Allowed mode a) (hq : Quiescent (run s as)) :
    ((run s as).host.present = true → (run s as).j.present = true ∧ (run s as).j.count = 1) ∧
    ((run s as).host.present = false → (run s as).j.present = false ∧ (run s as).j.count = 0) ∧
    (∀ v, (run s as).host.p.val = some v → (run s as).j.p.val = some v) ∧ (run s as).j.up = [] :=
  inv_quiescent mode _ (inv_run mode s as hi ha) hq

/-- **C03 without the hypothesis that the joiner gets through**: from any state of the slice one fair round of the
machinery (transport accepts, snapshot built, host detects / reacts, joiner polls everything, runs every closure, detects,
reacts) ends with the joiner through; so after any interleaving of an epoch there is such a continuation — allowed in
both kinds of epoch — after which the joiner holds what the host holds -/
theorem C03_join_completes (s : State V) : Quiescent (roundS s) :=
  one_round_quiescent s

theorem C03_joiner_converges_total (mode : Bool) (s : State V) (as : List (Act V)) (hi : Inv mode s)
    (ha : ∀ a ∈ as, Allowed mode a) :
    ∃ more : List (Act V), (∀ a ∈ more, Allowed mode a) ∧
      let t := run (run s as) more
      (t.host.present = true → t.j.present = true ∧ t.j.count = 1) ∧
      (t.host.present = false → t.j.present = false ∧ t.j.count = 0) ∧
      (∀ v, t.host.p.val = some v → t.j.p.val = some v) ∧ t.j.up = [] :=
  joiner_converges_total mode s as hi ha

/-- the hypotheses are met by a newcomer … -/
theorem C03_newcomer_start (mode : Bool) (h : Host V) (hh : HostSide mode h) (hp : h.present = false → h.p = {}) :
    Inv mode ({ host := h, j := {} } : State V) :=
  init_fresh mode h hh hp

/-- … and by a client that comes back still holding its replica with whatever (old) value, as long as the host
still has the entity.  An entity despawned on the host while the client was away is the recorded finding D16:
nothing in the snapshot tells the client to drop it (see the `example` below). -/
theorem C03_returning_start (mode : Bool) (h : Host V) (hh : HostSide mode h) (hp : h.present = true)
    (p : Comp.Peer V) (ht : p.token = false) (hd : p.dirty = false) (hq : p.queue = []) :
    Inv mode ({ host := h, j := { present := true, count := 1, p := p } } : State V) :=
  init_returning mode h hh hp p ht hd hq

/-- **C03, downloadable assets, host-writer epochs.** A snapshot taken for any client at any moment of an epoch in
which the host publishes / overwrites the uuid is one of the actions the epoch invariant survives, so the epoch
still ends with everybody — the joiner included — holding the last publication. -/
theorem C03_asset_join_host_epoch (x : Option Nat) (s : Asset.State) (e : Asset.Epoch)
    (hn : (s.clients.map (·.id)).Nodup) (hs : Asset.Settled x s) (hw : e.writer = 0)
    (hd : ∀ a ∈ e.acts, Asset.HostWrites a) (hq : Asset.Quiescent (e.run s)) : Asset.Settled e.last (e.run s) := by
  have hd' : e.disciplined := by simp only [Asset.Epoch.disciplined, hw, if_true]; exact hd
  exact Asset.epoch_converges x s e hn hs hd' (Or.inl hw) hq

/-- snapshots are among the actions of a host-writer epoch -/
theorem C03_snapshot_admitted (i : Nat) : Asset.HostWrites (.snapshotH i) := trivial

/-! ## non-vacuity and the two recorded findings -/

/-- a newcomer is accepted while the host has a detected but unsent value 1 and a newer, undetected value 2; it
receives the live 1, then its snapshot (2), then the late 1 again and finally 2 -/
example :
    let h : Host Nat := { present := true, p := { val := some 2, dirty := true, queue := [1] } }
    let s0 : State Nat := { host := h, j := {} }
    let as : List (Act Nat) := [.connect, .snapshot, .reactH, .pollJ 5, .flushJ, .flushJ, .flushJ, .detectJ,
      .detectH, .reactH, .pollJ 5, .flushJ, .detectJ]
    Quiescent (run s0 as) ∧ (run s0 as).j.present = true ∧ (run s0 as).j.count = 1 ∧
    (run s0 as).j.p.val = some 2 ∧ (run s0 as).j.up = [] := by
  decide

/-- a returning client holding the old value 7 while the host relays another client's 8 before and 9 after the snapshot -/
example :
    let h : Host Nat := { present := true, p := { val := some 7 } }
    let s0 : State Nat := { host := h, j := { present := true, count := 1, p := { val := some 7 } } }
    let as : List (Act Nat) := [.connect, .applyH 8, .snapshot, .applyH 9, .detectH, .pollJ 9, .flushJ, .flushJ, .flushJ,
      .flushJ, .detectJ, .reactJ]
    Quiescent (run s0 as) ∧ (run s0 as).j.count = 1 ∧ (run s0 as).j.p.val = some 9 ∧ (run s0 as).j.up = [] := by
  decide

/-- **D16 (recorded finding).** A returning client still holds an entity the host despawned while it was away: the
snapshot contains nothing about it, the client keeps it.  (This start state is outside `C03_returning_start`.) -/
example :
    let s0 : State Nat := { host := {}, j := { present := true, count := 1 } }
    Quiescent (run s0 [.connect, .snapshot]) ∧ (run s0 [.connect, .snapshot]).host.present = false ∧
    (run s0 [.connect, .snapshot]).j.present = true := by
  decide

/-- **C03, the whole world at once** (`Slice/World.lean`: all entities, in the order `build_full_sync` lists them — per
archetype the spawns, then component by component; all parent pairs last — applied by a fresh joiner's handlers in that
order).  Whatever the archetypes, their order and the order of entities and components inside them: the joiner knows
exactly the host's tracked uuids, each once; holds, for every entity and component type, exactly the value the host listed
(nothing where the host listed nothing); has every child under the host's parent.  No message of the snapshot is dropped as
"unknown entity" (the snapshot is *scoped*: every message follows the spawns of the uuids it names). -/
theorem C03_snapshot_rebuilds_world (w : WorldSnap.World) (hw : WorldSnap.WF w) :
    let c := WorldSnap.applyAll {} (WorldSnap.snapshot w)
    c.ents = WorldSnap.uuids w ∧
    (∀ e ∈ WorldSnap.allEnts w, ∀ t, WorldSnap.getComp c e.uuid t = e.vals.lookup t) ∧
    (∀ e ∈ WorldSnap.allEnts w, WorldSnap.getParent c e.uuid = e.parent) :=
  WorldSnap.snapshot_rebuilds w hw

theorem C03_snapshot_is_scoped (w : WorldSnap.World) (hw : WorldSnap.WF w) :
    WorldSnap.Scoped [] (WorldSnap.snapshot w) :=
  WorldSnap.snapshot_scoped w hw

/-- every `EntitySpawn` of the snapshot precedes every other message (repair of D21): when the joiner handles any component
or parent pair it knows every entity of the host, however the channel cuts the snapshot into frames -/
theorem C03_all_known_when_handled (w : WorldSnap.World) (hw : WorldSnap.WF w) (pre post : List WorldSnap.Msg) (m : WorldSnap.Msg)
    (h : WorldSnap.snapshot w = pre ++ m :: post) (hm : WorldSnap.isSpawn m = false) :
    (WorldSnap.applyAll {} pre).ents = WorldSnap.uuids w :=
  WorldSnap.all_known_when_handled w hw pre post m h hm

/-- the same for a **returning client** that still holds a world: it ends knowing every uuid of the host and holding every
value and link the host listed; spawns of uuids it knows are ignored (no second replica). What it held and the host does
not list any more is kept — the snapshot cannot say "drop it" (finding D16, whole-world form below) -/
theorem C03_snapshot_on_returning_client (w : WorldSnap.World) (hw : WorldSnap.WF w) (c0 : WorldSnap.Client) :
    let c := WorldSnap.applyAll c0 (WorldSnap.snapshot w)
    (∀ u, u ∈ c.ents ↔ u ∈ c0.ents ∨ u ∈ WorldSnap.uuids w) ∧
    (∀ e ∈ WorldSnap.allEnts w, ∀ t v, e.vals.lookup t = some v → WorldSnap.getComp c e.uuid t = some v) ∧
    (∀ e ∈ WorldSnap.allEnts w, ∀ p, e.parent = some p → WorldSnap.getParent c e.uuid = some p) :=
  WorldSnap.snapshot_on_returning w hw c0

/-- **live traffic ahead of the snapshot, whole world.** Whatever the joiner has handled before its snapshot arrives — any list
of spawns, components and parent pairs, relayed or broadcast, known uuids or not — it ends knowing every uuid of the host and
holding every value and link the host lists (the snapshot comes last on the ordered channel and overrides); what that traffic
created beyond the host's world stays, which is the returning client's D16 again -/
theorem C03_live_traffic_before_snapshot (w : WorldSnap.World) (hw : WorldSnap.WF w) (live : List WorldSnap.Msg) :
    let c := WorldSnap.applyAll (WorldSnap.applyAll {} live) (WorldSnap.snapshot w)
    (∀ u ∈ WorldSnap.uuids w, u ∈ c.ents) ∧
    (∀ e ∈ WorldSnap.allEnts w, ∀ t v, e.vals.lookup t = some v → WorldSnap.getComp c e.uuid t = some v) ∧
    (∀ e ∈ WorldSnap.allEnts w, ∀ p, e.parent = some p → WorldSnap.getParent c e.uuid = some p) :=
  let h := WorldSnap.snapshot_on_returning w hw (WorldSnap.applyAll {} live)
  ⟨fun u hu => (h.1 u).mpr (Or.inr hu), h.2.1, h.2.2⟩

/-- **D16 on the whole-world model**: entity 99 was despawned on the host while the client was away; after the snapshot the
returning client still knows it (and entity 11 keeps the link the host dropped) -/
example :
    let w : WorldSnap.World := [{ types := [7], ents := [{ uuid := 11, vals := [(7, 70)], parent := none }] }]
    let c0 : WorldSnap.Client := { ents := [11, 99], comps := [(11, 7, 60)], parents := [(11, 99)] }
    let c := WorldSnap.applyAll c0 (WorldSnap.snapshot w)
    c.ents = [11, 99] ∧ WorldSnap.getComp c 11 7 = some 70 ∧ WorldSnap.getParent c 11 = some 99 := by decide

/-- the order matters, which is why it is tied (`snapBuildOrder`, `snapSpawnBeforeComponents`, `snapParentsOfKnownPairs`): a
list that names an entity before its spawn loses that message on the joiner -/
example :
    WorldSnap.getComp (WorldSnap.applyAll {} [.comp 1 2 3, .spawn 1]) 1 2 = none ∧
    WorldSnap.getParent (WorldSnap.applyAll {} [.spawn 1, .parent 1 2, .spawn 2]) 1 = none := by decide

/-- non-vacuity: two archetypes, a child listed before its parent's archetype, a value that could not be encoded -/
example :
    let w : WorldSnap.World :=
      [{ types := [7, 9], ents := [{ uuid := 11, vals := [(7, 70), (9, 90)], parent := some 13 }, { uuid := 12, vals := [(9, 91)], parent := none }] },
       { types := [7], ents := [{ uuid := 13, vals := [(7, 71)], parent := none }] }]
    let c := WorldSnap.applyAll {} (WorldSnap.snapshot w)
    c.ents = [11, 12, 13] ∧ WorldSnap.getComp c 11 9 = some 90 ∧ WorldSnap.getComp c 12 7 = none ∧
    WorldSnap.getParent c 11 = some 13 := by decide

/-- **D22, kernel-checked on the slice** (repaired for components — the queue now leaves ahead of the request, second example;
still a recorded finding for parent links, which are this slice with the parent's uuid as value and are announced only once
the state says Connected). A returning client that changed the value while its link was down (3 in its queue: detection
runs whatever the connection state) asks for the snapshot first and sends its queue a frame later: the snapshot is built from the host's old value 0 and sets the client back to it, while the client's 3 is on its
way to the host (`up`), which will adopt and relay it — everything drained, the client holds 0 and has announced 3. The
theorems above start from a returning client with nothing queued (`init_returning`), which is exactly what this history is
not. -/
example :
    let s0 : Snap.State Nat := { host := { present := true, p := { val := some 0 } },
                                 j := { present := true, count := 1, p := { val := some 3, queue := [3] } } }
    let s := Snap.run s0 [.connect, .snapshot, .reactJ, .pollJ 2, .flushJ, .flushJ, .detectJ, .reactJ]
    Snap.Quiescent s ∧ s.j.up = [3] ∧ s.j.p.val = some 0 ∧ s.host.p.val = some 0 := by decide

/-- the repaired order: the queue leaves first, the host applies it (`applyH 3`), the snapshot is built on top of it and brings
the client its own value back -/
example :
    let s0 : Snap.State Nat := { host := { present := true, p := { val := some 0 } },
                                 j := { present := true, count := 1, p := { val := some 3, queue := [3] } } }
    let s := Snap.run s0 [.connect, .reactJ, .applyH 3, .snapshot, .pollJ 3, .flushJ, .flushJ, .flushJ, .detectJ, .reactJ, .detectH, .reactH,
                          .pollJ 1, .flushJ]
    s.j.p.val = some 3 ∧ s.host.p.val = some 3 ∧ s.j.count = 1 := by decide

/-- **D22 for every pair of values** (`v` written by the client while away and sitting in its queue, `w ≠ v` the host's): in the
order the code had — request first, queue a frame later — the snapshot sets the client back to `w` while `v` is on its way to
the host; everything is drained and the client holds what nobody else will -/
theorem C03_D22_values_cross {V : Type} [DecidableEq V] (v w : V) (hvw : w ≠ v) :
    let s0 : Snap.State V := { host := { present := true, p := { val := some w } },
                               j := { present := true, count := 1, p := { val := some v, queue := [v] } } }
    let s := Snap.run s0 [.connect, .snapshot, .reactJ, .pollJ 2, .flushJ, .flushJ, .detectJ, .reactJ]
    s.j.p.val = some w ∧ s.host.p.val = some w ∧ s.j.up = [v] ∧ Snap.Quiescent s := by
  intro s0 s
  simp [s, s0, Snap.run, Snap.step, Snap.send, Snap.snapshotOf, Snap.recv, Comp.apply, Comp.detect, Comp.replace, Snap.Quiescent,
    Ne.symm hvw, List.take, List.drop]

/-- **the repaired order, for every pair of values**: the queue leaves ahead of the request, the host applies it and builds the
snapshot on top of it; client and host end on the client's value, one replica, the client announced it once and nothing
after the snapshot -/
theorem C03_returning_writer_repaired_order {V : Type} [DecidableEq V] (v w : V) (hvw : w ≠ v) :
    let s0 : Snap.State V := { host := { present := true, p := { val := some w } },
                               j := { present := true, count := 1, p := { val := some v, queue := [v] } } }
    let s := Snap.run s0 [.connect, .reactJ, .applyH v, .snapshot, .pollJ 3, .flushJ, .flushJ, .flushJ, .detectH, .reactH, .pollJ 1, .flushJ,
                          .detectJ, .reactJ]
    s.j.p.val = some v ∧ s.host.p.val = some v ∧ s.j.count = 1 ∧ s.j.up = [v] ∧ Snap.Quiescent s := by
  intro s0 s
  simp [s, s0, Snap.run, Snap.step, Snap.send, Snap.snapshotOf, Snap.recv, Comp.apply, Comp.detect, Comp.replace, Snap.Quiescent,
    hvw, List.take, List.drop]

/-- **D17 (recorded finding).** The snapshot for client 2 is built while the host is still downloading client 1's
newer publication (7) that it has already relayed: client 2 queues the owner's announcement first and the host's
own, outdated copy (5) second, and ends with 5 while the host and client 1 hold 7 — with everything drained. -/
example :
    let s0 : Asset.State := { clients := [{ id := 1 }, { id := 2 }] }
    let settle5 : List Asset.Act := [.publishC 1 5, .reactC 1, .pollH 1, .fetchH, .processH, .reactH,
      .pollC 2, .fetchC 2, .processC 2, .reactC 2]
    let join : List Asset.Act := [.publishC 1 7, .reactC 1, .pollH 1, .snapshotH 2, .pollC 2, .pollC 2,
      .fetchC 2, .fetchC 2, .processC 2, .reactC 2, .fetchH, .processH, .reactH]
    Asset.Quiescent (Asset.run true false s0 (settle5 ++ join)) ∧
    (Asset.run true false s0 (settle5 ++ join)).host.content = some 7 ∧
    (Asset.run true false s0 (settle5 ++ join)).clients.map (·.p.content) = [some 7, some 5] := by
  decide

/-- the same join while the **host** is the writer is harmless -/
example :
    let s0 : Asset.State := { clients := [{ id := 1 }, { id := 2 }] }
    let as : List Asset.Act := [.publishH 5, .reactH, .publishH 7, .snapshotH 2, .pollC 2, .pollC 2, .fetchC 2, .fetchC 2,
      .processC 2, .reactC 2, .reactH, .pollC 2, .fetchC 2, .processC 2, .reactC 2, .pollC 1, .pollC 1, .fetchC 1, .fetchC 1,
      .processC 1, .reactC 1]
    Asset.Quiescent (Asset.run true false s0 as) ∧
    (Asset.run true false s0 as).clients.map (·.p.content) = [some 7, some 7] := by
  decide

end Props
end BevySync
