import BevySyncModel.Proofs.Promo
import BevySyncModel.Proofs.Chain
import BevySyncModel.Proofs.World
import BevySyncModel.Proofs.Snap
import BevySyncModel.Generated.Promo
/-! # C07 — host promotion hands the session over intact

`Slice/Promo.lean` models who holds which transport, the `host_promotion_in_progress` flag of both peers and
the snapshot request of the former host, frame by frame, with the network's part (delivery of `PromoteToHost` /
`NewHost`, acceptance and report of the new connection) as inputs.  What the session *contains* after the
hand-over follows from C03: the former host reconnects as a returning client and requests the snapshot
(`Done.snapReq = 1`), which is exactly the situation of `C03_returning_start` / `C03_joiner_converges`;
clients joining later are ordinary newcomers of C03; changes made afterwards are C01 / C02 / C05 with the new
host in the host's role. -/
namespace BevySync
namespace Props
open Promo

/-- (tie) regenerated from `server/{mod,receiver}.rs`, `client/{mod,receiver}.rs`: the request is sent to the chosen
client; its handler starts a server and sets the flag; entering `ServerState::Connected` with a client transport
announces `NewHost`; the host's handler drops the promoted client, relays, sets the flag and connects with a
fresh `RenetClient` (D7a repaired), so does a client's; `client_connected` — first in the server chain — closes
the server once empty and flagged, and clears the flag; the promoted client drops its client transport on its
first connection; `verify_client_connected` skips the snapshot request exactly when the flag is set -/
theorem C07_code_tie :
    Generated.promoRequestSent = true ∧ Generated.promoPromotedStartsServer = true ∧
    Generated.promoPromotedAnnounces = true ∧ Generated.promoHostHandler = true ∧
    Generated.promoClientHandler = true ∧ Generated.promoHostClosesWhenEmpty = true ∧
    Generated.promoPromotedDropsClient = true ∧ Generated.promoEventsBeforeMessages = true ∧
    Generated.promoVerifySkipsSnapshotOnFlag = true := by
  decide

/-- **C07, one client, roles.** Whatever the order of the two peers' frames and whatever the network does when
(delivery of the two messages, acceptance and report of the new connection delayed arbitrarily), once nothing moves
any more the hand-over is complete: the promoted client hosts alone and has dropped its client transport, the
former host has closed its server and is connected to it, both flags are clear, and the former host has asked for
the snapshot exactly once — which makes it a returning client of C03. -/
theorem C07_one_client_handover (as : List Act) (h : Settled (run (init 0) as)) : Done (run (init 0) as) :=
  one_client_handover as h

/-- **C07, one client, along the way.** Some peer is hosting at every moment and the snapshot is requested at most
once. -/
theorem C07_one_client_safe (as : List Act) :
    ((run (init 0) as).hSrv = true ∨ (run (init 0) as).pSrv = true) ∧ (run (init 0) as).snapReq ≤ 1 :=
  one_client_safe as

/-- the completed hand-over is reachable (the two statements above are not vacuous) -/
theorem C07_one_client_completes :
    ∃ as : List Act, Settled (run (init 0) as) ∧ Done (run (init 0) as) :=
  ⟨_, one_client_completes⟩

/-- after `Done` the roles are those of `init 0` with the peers exchanged (the repaired `RenetClient` reuse, D7a, is
what made a second hand-over start from a connectable client); chains are proved on their own model below -/
theorem C07_done_is_fresh_session (s : State) (h : Done s) :
    s.pSrv = true ∧ s.pClients = 1 ∧ s.hSrv = false ∧ s.pPromo = false ∧ s.hPromo = false :=
  ⟨h.2.1, h.2.2.2.2.1, h.1, h.2.2.2.2.2.2.2, h.2.2.2.2.2.2.1⟩

/-- **C07, repeated promotions.** Two peers, each with both roles (`Slice/Chain.lean`); the application of whichever
peer hosts requests a promotion whenever the session is at rest, any number of times, with the peers' frames and the
network's part scheduled arbitrarily in between.  Whenever no frame moves anything any more the session is at rest
again: exactly the peer chosen by the last request hosts, with one client; the other peer has closed its server, is
connected and verified, both flags are clear, no message is pending, and that former host has asked for the snapshot
exactly once in this hand-over (a returning client of C03, every time). -/
theorem C07_chain_handover (as : List Chain.Act) (h : Chain.Settled (Chain.run Chain.rest0 as)) :
    Chain.Handed (Chain.run Chain.rest0 as) :=
  Chain.chain_handover as h

/-- every request carried out is a completed hand-over: after `k` of them peer `b` hosts exactly when `k` is odd — a peer
that has promoted before, was demoted and hosts again promotes as it did the first time -/
theorem C07_chain_alternates (as : List Chain.Act) (h : Chain.Settled (Chain.run Chain.rest0 as)) :
    Chain.RestAt (decide (Chain.requests Chain.rest0 as % 2 = 1)) (Chain.run Chain.rest0 as) :=
  Chain.chain_alternates as h

/-- along a chain somebody hosts at every moment and nobody asks for the snapshot twice in one hand-over -/
theorem C07_chain_safe (as : List Chain.Act) :
    ((Chain.run Chain.rest0 as).a.srv = true ∨ (Chain.run Chain.rest0 as).b.srv = true) ∧
    (Chain.run Chain.rest0 as).a.snapReq ≤ 1 ∧ (Chain.run Chain.rest0 as).b.snapReq ≤ 1 :=
  Chain.chain_safe as

/-- the chain model restricted to its first hand-over is the single hand-over above, schedule by schedule -/
theorem C07_chain_first_is_handover (as : List Promo.Act) :
    Chain.view (Chain.run Chain.first0 (as.flatMap Chain.lift)) = run (init 0) as :=
  Chain.first_handover_is_promo as

/-- three hand-overs in a row complete (a → b → a → b): the chain statements are not vacuous -/
example :
    Chain.Settled (Chain.run Chain.rest0 (Chain.handoverActs false ++ Chain.handoverActs true ++ Chain.handoverActs false)) ∧
    Chain.RestAt true (Chain.run Chain.rest0 (Chain.handoverActs false ++ Chain.handoverActs true ++ Chain.handoverActs false)) ∧
    Chain.requests Chain.rest0 (Chain.handoverActs false ++ Chain.handoverActs true ++ Chain.handoverActs false) = 3 :=
  Chain.three_handovers

/-- **C07, the session's content across a hand-over.** When the hand-over is complete the former host has asked for the
snapshot exactly once (`C07_one_client_handover`, `C07_chain_handover`): it is a returning client that holds the very entities
the new host holds (the session was settled when the promotion was requested — what an application does *during* the
hand-over is finding D18).  The whole-world model then gives: after the new host's snapshot the former host still holds every
synchronized entity exactly once, under its uuid — none lost, none duplicated — with every value and parent link the new host
lists; this holds after every hand-over of a chain. -/
theorem C07_former_host_keeps_world (w : WorldSnap.World) (hw : WorldSnap.WF w) (c0 : WorldSnap.Client)
    (hn : c0.ents.Nodup) (hsame : ∀ u, u ∈ c0.ents ↔ u ∈ WorldSnap.uuids w) :
    let c := WorldSnap.applyAll c0 (WorldSnap.snapshot w)
    c.ents = c0.ents ∧ c.ents.Nodup ∧ (∀ u, u ∈ c.ents ↔ u ∈ WorldSnap.uuids w) ∧
    (∀ e ∈ WorldSnap.allEnts w, ∀ t v, e.vals.lookup t = some v → WorldSnap.getComp c e.uuid t = some v) ∧
    (∀ e ∈ WorldSnap.allEnts w, ∀ p, e.parent = some p → WorldSnap.getParent c e.uuid = some p) :=
  WorldSnap.snapshot_on_agreeing w hw c0 hn hsame

/-- non-vacuity: the former host holds entities 11 and 12 (12 under 11) with an old value of 11; after the new host's snapshot it
holds the same two, once each, the new value and the link -/
example :
    let w : WorldSnap.World := [{ types := [7], ents := [{ uuid := 11, vals := [(7, 71)], parent := none }, { uuid := 12, vals := [], parent := some 11 }] }]
    let c0 : WorldSnap.Client := { ents := [12, 11], comps := [(11, 7, 70)], parents := [(12, 11)] }
    let c := WorldSnap.applyAll c0 (WorldSnap.snapshot w)
    c.ents = [12, 11] ∧ WorldSnap.getComp c 11 7 = some 71 ∧ WorldSnap.getParent c 12 = some 11 := by decide

/-- **D7 (recorded finding), kernel-checked.** With a second client that leaves the former host only after the former
host's own connection to the new host is verified, the single flag has already been spent: the former host never
closes its server and never asks for the snapshot; everything has settled with two peers hosting. -/
theorem C07_two_clients_stuck :
    Settled (run (init 1) stuckSchedule) ∧ (run (init 1) stuckSchedule).hSrv = true ∧
    (run (init 1) stuckSchedule).pSrv = true ∧ (run (init 1) stuckSchedule).snapReq = 0 :=
  two_clients_stuck

end Props
end BevySync
