import BevySyncModel.Proofs.Promo
import BevySyncModel.Proofs.Snap
import BevySyncModel.Generated.Promo
/-! # C07 — host promotion hands the session over intact

`Slice/Promo.lean` models who holds which transport, the `host_promotion_in_progress` flag of both peers and
the snapshot request of the former host, frame by frame, with the network's part (delivery of `PromoteToHost` /
`NewHost`, acceptance and report of the new connection) as inputs.  What the session *contains* after the
hand-over follows from C03: the former host reconnects as a returning client and requests the snapshot
(`Done.snapReq = 1`), which is exactly the situation of `C03_returning_start` / `C03_joiner_converges`;
clients joining later are ordinary newcomers of C03; changes made afterwards are C01 / C02 / C05 with the new
host in the host's role. -/
namespace BevySync
namespace Props
open Promo

/-- (tie) regenerated from `server/{mod,receiver}.rs`, `client/{mod,receiver}.rs`: the request is sent to the chosen
client; its handler starts a server and sets the flag; entering `ServerState::Connected` with a client transport
announces `NewHost`; the host's handler drops the promoted client, relays, sets the flag and connects with a
fresh `RenetClient` (D7a repaired), so does a client's; `client_connected` — first in the server chain — closes
the server once empty and flagged, and clears the flag; the promoted client drops its client transport on its
first connection; `verify_client_connected` skips the snapshot request exactly when the flag is set -/
theorem C07_code_tie :
    Generated.promoRequestSent = true ∧ Generated.promoPromotedStartsServer = true ∧
    Generated.promoPromotedAnnounces = true ∧ Generated.promoHostHandler = true ∧
    Generated.promoClientHandler = true ∧ Generated.promoHostClosesWhenEmpty = true ∧
    Generated.promoPromotedDropsClient = true ∧ Generated.promoEventsBeforeMessages = true ∧
    Generated.promoVerifySkipsSnapshotOnFlag = true := by
  decide

/-- **C07, one client, roles.** Whatever the order of the two peers' frames and whatever the network does when
(delivery of the two messages, acceptance and report of the new connection delayed arbitrarily), once nothing moves
any more the hand-over is complete: the promoted client hosts alone and has dropped its client transport, the
former host has closed its server and is connected to it, both flags are clear, and the former host has asked for
the snapshot exactly once — which makes it a returning client of C03. -/
theorem C07_one_client_handover (as : List Act) (h : Settled (run (init 0) as)) : Done (run (init 0) as) :=
  one_client_handover as h

/-- **C07, one client, along the way.** Some peer is hosting at every moment and the snapshot is requested at most
once. -/
theorem C07_one_client_safe (as : List Act) :
    ((run (init 0) as).hSrv = true ∨ (run (init 0) as).pSrv = true) ∧ (run (init 0) as).snapReq ≤ 1 :=
  one_client_safe as

/-- the completed hand-over is reachable (the two statements above are not vacuous) -/
theorem C07_one_client_completes :
    ∃ as : List Act, Settled (run (init 0) as) ∧ Done (run (init 0) as) :=
  ⟨_, one_client_completes⟩

/-- the same machine hands over again: after `Done` the roles are those of `init 0` with the peers exchanged, so a
chain of promotions in a one-client session is a chain of runs of this slice (the repaired `RenetClient` reuse, D7a,
is what made the second run start from a connectable client) -/
theorem C07_done_is_fresh_session (s : State) (h : Done s) :
    s.pSrv = true ∧ s.pClients = 1 ∧ s.hSrv = false ∧ s.pPromo = false ∧ s.hPromo = false :=
  ⟨h.2.1, h.2.2.2.2.1, h.1, h.2.2.2.2.2.2.2, h.2.2.2.2.2.2.1⟩

/-- **D7 (recorded finding), kernel-checked.** With a second client that leaves the former host only after the former
host's own connection to the new host is verified, the single flag has already been spent: the former host never
closes its server and never asks for the snapshot; everything has settled with two peers hosting. -/
theorem C07_two_clients_stuck :
    Settled (run (init 1) stuckSchedule) ∧ (run (init 1) stuckSchedule).hSrv = true ∧
    (run (init 1) stuckSchedule).pSrv = true ∧ (run (init 1) stuckSchedule).snapReq = 0 :=
  two_clients_stuck

end Props
end BevySync
