import BevySyncModel.Proofs.Http
import BevySyncModel.Generated.Http
/-! # C14 — the HTTP asset endpoint serves exactly what was published and stays up -/
namespace BevySync
namespace Props
open Http

/-- (tie) the order of the `contains` tests, the prefixes stripped and the class each arm selects in
`respond`, and the cache each class reads, as regenerated from `networking/assets/mod.rs` -/
theorem C14_routes_tie :
    Generated.httpRoutes = [("/image/", "/image/", "Image"), ("/mesh/", "/mesh/", "Mesh"), ("/audio/", "/audio/", "Audio")]
    ∧ Generated.httpLookups = [("Mesh", "meshes"), ("Image", "images"), ("Audio", "audios")] := by decide

/-- (tie) the paths `serve_*` advertise and the two base-url formats -/
theorem C14_urls_tie :
    Generated.httpServeUrlPaths = ["/mesh/", "/image/", "/audio/"]
    ∧ Generated.httpBaseUrlFormats = ["http://[{}]:{}", "http://{}:{}"] := by decide

/-- (tie) the responder loop has no `break`, no `return`, no `expect`, and no `unwrap` beyond the six
on constants (`"Content-Length".parse()`, `AsciiString::from_ascii(len.to_string())` × 3 classes): the only
way out of an iteration is `continue` (request dropped ⇒ 500) or a response -/
theorem C14_responder_exits_tie :
    Generated.httpRespondExits.2.1 = 0 ∧ Generated.httpRespondExits.2.2.1 = 0 ∧
    Generated.httpRespondExits.2.2.2.1 ≤ 6 ∧ Generated.httpRespondExits.2.2.2.2 = 0 := by decide

/-- (tie) every accepted request is handed to the responder (unbounded channel, blocking send): the model answers every
request; publications replace what was served (`serve_*` insert) -/
theorem C14_handover_tie :
    Generated.httpEveryRequestReachesResponder = true ∧ Generated.httpServeOverwrites = true := by decide

/-- **published ⇒ 200, identical body, Content-Length iff below the transfer limit** — for every cache
state, class, 16-byte id and body, on the path `serve_*` advertised -/
theorem C14_route_published (mt : Nat) (c : Caches) (cl : Class) (id bin : List UInt8)
    (hid : id.length = 16) (h : lookup id (c.get cl) = some bin) :
    route mt c (servedPath cl id) =
      { status := 200, body := bin, contentLength := if bin.length < mt then some bin.length else none } := by
  unfold route servedPath
  rw [classify_served cl _ (hyphenated_noSlash id hid)]
  simp only [parseUuid_hyphenated id hid, h]

/-- **unknown uuid ⇒ 404**, and so is a known uuid under the wrong class -/
theorem C14_route_unknown (mt : Nat) (c : Caches) (cl : Class) (id : List UInt8)
    (hid : id.length = 16) (h : lookup id (c.get cl) = none) :
    route mt c (servedPath cl id) = notFound := by
  unfold route servedPath
  rw [classify_served cl _ (hyphenated_noSlash id hid)]
  simp only [parseUuid_hyphenated id hid, h]

theorem C14_route_wrong_class (mt : Nat) (c : Caches) (cl cl' : Class) (id bin : List UInt8)
    (hid : id.length = 16) (_hk : lookup id (c.get cl') = some bin) (_hne : cl ≠ cl')
    (h : lookup id (c.get cl) = none) :
    (route mt c (servedPath cl id)).status = 404 := by
  rw [C14_route_unknown mt c cl id hid h]; rfl

/-- **malformed paths ⇒ error status**: no class segment, class segment not at the start, or no uuid -/
theorem C14_route_malformed_path (mt : Nat) (c : Caches) (url : Str) (h : classify url = none) :
    route mt c url = dropped := by
  unfold route; rw [h]

theorem C14_route_malformed_uuid (mt : Nat) (c : Caches) (url : Str) (cl : Class) (t : Str)
    (h : classify url = some (cl, t)) (hu : parseUuid t = none) :
    route mt c url = dropped := by
  unfold route; rw [h]; simp only [hu]

/-- every request gets exactly one of three statuses, whatever the url and the cache -/
theorem C14_route_status (mt : Nat) (c : Caches) (url : Str) :
    (route mt c url).status = 200 ∨ (route mt c url).status = 404 ∨ (route mt c url).status = 500 := by
  unfold route
  cases hc : classify url with
  | none => right; right; rfl
  | some p =>
    obtain ⟨cl, t⟩ := p
    cases hp : parseUuid t with
    | none => right; right; simp only [hp]; rfl
    | some id =>
      cases hl : lookup id (c.get cl) with
      | none => right; left; simp only [hp, hl]; rfl
      | some bin => left; simp only [hp, hl]

/-- a 200 is only ever given with the bytes cached for the class and id the path names -/
theorem C14_route_200_sound (mt : Nat) (c : Caches) (url : Str) (h : (route mt c url).status = 200) :
    ∃ cl t id, classify url = some (cl, t) ∧ parseUuid t = some id ∧
      lookup id (c.get cl) = some (route mt c url).body := by
  unfold route at h ⊢
  cases hc : classify url with
  | none => simp [hc, dropped] at h
  | some p =>
    obtain ⟨cl, t⟩ := p
    cases hp : parseUuid t with
    | none => simp [hc, hp, dropped] at h
    | some id =>
      cases hl : lookup id (c.get cl) with
      | none => simp [hc, hp, hl, notFound] at h
      | some bin => exact ⟨cl, t, id, rfl, by simp [hp], by simp [hp, hl]⟩

/-- **no request prevents later answers**: one response per request, in order, and the answer to a
request does not depend on the requests before it (the responder only reads the caches) -/
theorem C14_respondAll_length (mt : Nat) (c : Caches) (urls : List Str) :
    (respondAll mt c urls).length = urls.length := by simp [respondAll]

theorem C14_respondAll_independent (mt : Nat) (c : Caches) (before after : List Str) (url : Str) :
    respondAll mt c (before ++ url :: after) =
      respondAll mt c before ++ route mt c url :: respondAll mt c after := by
  simp [respondAll]

/-- **publish then GET**, over any publication history from the empty cache.  With the crate's
`entry().or_insert_with` (`overwrite = false`) the body is the **first** publication of that class
and id; with `insert` (`overwrite = true`) it is the last. -/
theorem C14_history_first_wins (mt : Nat) (ops : List PubOp) (cl : Class) (id bin : List UInt8)
    (hid : id.length = 16) (h : firstPub cl id ops = some bin) :
    route mt (publishAll false Caches.empty ops) (servedPath cl id) =
      { status := 200, body := bin, contentLength := if bin.length < mt then some bin.length else none } := by
  apply C14_route_published mt _ cl id bin hid
  rw [lookup_publishAll_keep]
  cases cl <;> simpa [Caches.empty, Caches.get, lookup] using h

theorem C14_history_last_wins (mt : Nat) (ops : List PubOp) (cl : Class) (id bin : List UInt8)
    (hid : id.length = 16) (h : lastPub cl id ops = some bin) :
    route mt (publishAll true Caches.empty ops) (servedPath cl id) =
      { status := 200, body := bin, contentLength := if bin.length < mt then some bin.length else none } := by
  apply C14_route_published mt _ cl id bin hid
  rw [lookup_publishAll_overwrite, h]

theorem C14_history_never_published (mt : Nat) (ow : Bool) (ops : List PubOp) (cl : Class) (id : List UInt8)
    (hid : id.length = 16) (h : ∀ o ∈ ops, ¬ (o.1 = cl ∧ o.2.1 = id)) :
    route mt (publishAll ow Caches.empty ops) (servedPath cl id) = notFound := by
  apply C14_route_unknown mt _ cl id hid
  have hf : firstPub cl id ops = none := firstPub_none cl id ops h
  have hl : lastPub cl id ops = none := lastPub_none cl id ops h
  cases ow
  · rw [lookup_publishAll_keep, hf]; cases cl <;> rfl
  · rw [lookup_publishAll_overwrite, hl]; cases cl <;> rfl

/-- **IPv4 and IPv6**: the advertised url splits back into the host text and `port ++ path` -/
theorem C14_baseUrl_v4 (t port path : Str) (ht : ∀ c ∈ t, c ≠ 58) (h0 : t.head? ≠ some 91) :
    splitAuthority (baseUrl (.v4 t) port ++ path) = some (t, port ++ path) := by
  unfold splitAuthority baseUrl
  simp only [List.append_assoc, stripPrefix_append]
  obtain ⟨h1, h2⟩ := takeWhile_ne_append t (port ++ path) 58 ht
  cases t with
  | nil => simp
  | cons a t =>
    have ha : a ≠ 91 := by simpa using h0
    simp only [List.cons_append, List.nil_append] at h1 h2 ⊢
    split
    · rename_i heq; simp at heq; exact absurd heq.1 ha
    · simp only [h1, h2]

theorem C14_baseUrl_v6 (t port path : Str) (ht : ∀ c ∈ t, c ≠ 93) :
    splitAuthority (baseUrl (.v6 t) port ++ path) = some (t, port ++ path) := by
  unfold splitAuthority baseUrl
  simp only [List.append_assoc, stripPrefix_append, List.cons_append, List.nil_append]
  obtain ⟨h1, h2⟩ := takeWhile_ne_append t (58 :: (port ++ path)) 93 ht
  simp only [h1, h2]

/-- non-vacuity: a concrete publication history and request -/
example : route 8 (publishAll false Caches.empty [(.audio, List.replicate 16 0xAB, [1, 2, 3])])
    (servedPath .audio (List.replicate 16 0xAB)) = { status := 200, body := [1, 2, 3], contentLength := some 3 } := by
  decide
example : (route 2 (publishAll false Caches.empty [(.audio, List.replicate 16 0xAB, [1, 2, 3])])
    (servedPath .audio (List.replicate 16 0xAB))).contentLength = none := by decide
example : (route 8 (publishAll false Caches.empty [(.audio, List.replicate 16 0xAB, [1, 2, 3])])
    (servedPath .mesh (List.replicate 16 0xAB))).status = 404 := by decide
example : (route 8 Caches.empty [47, 120]).status = 500 := by decide

end Props
end BevySync
