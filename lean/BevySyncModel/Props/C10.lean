import BevySyncModel.Proofs.CompOrder
import BevySyncModel.Props.C02
import BevySyncModel.Proofs.CompLive
/-! # C10 — a single writer's updates are observed in order, never invented

`shown` is a ghost log: every value a peer displays after a network apply is appended to it;
`written` logs every application write.  No transition reads either. -/
namespace BevySync
namespace Props
open Comp

theorem C10_code_paths_tie :
    Generated.applySkipsOnToken = false ∧ Generated.applyIsPatch = false ∧ Generated.fixReinsertsValue = false := by
  decide

variable {V : Type} [DecidableEq V] {ra : Bool}

/-- **C10, the host writes.**  For any number of clients and every interleaving of the writer's and
the readers' frames (bursts in consecutive frames, pauses, readers that poll several updates in one
frame), the sequence of values each client displays is a subsequence of the values written, in the
order written: no value that was never written appears, no older value reappears after a newer one. -/
theorem C10_host_writer_ordered (x : Option V) (s : State V) (as : List (Act V)) (hc : Clean x s)
    (hlog : s.written = [] ∧ ∀ c ∈ s.clients, c.p.shown = []) (ha : ∀ a ∈ as, HostWrites a) :
    ∀ c ∈ (run ra false replace s as).clients, List.Sublist c.p.shown (run ra false replace s as).written :=
  host_epoch_ordered x s as hc hlog ha

/-- … ending with the last one: once drained every client displays the most recent write -/
theorem C10_host_writer_ends_with_last (x : Option V) (s : State V) (as : List (Act V)) (hc : Clean x s)
    (ha : ∀ a ∈ as, HostWrites a) (hq : Quiescent (run ra false replace s as)) :
    ∀ c ∈ (run ra false replace s as).clients, c.p.val = lastWritten x as :=
  fun c hcm => ((host_epoch_converges x s as hc ha hq).2.2.2.2.2 c hcm).1

/-- the full chain invariant, for every reachable state of a host-writer epoch: what a client has
shown followed by everything still travelling towards it is, in this order, a subsequence of the writes -/
theorem C10_host_writer_chain (s : State V) (as : List (Act V)) (hi : HOrd s) (ha : ∀ a ∈ as, HostWrites a) :
    HOrd (run ra false replace s as) :=
  hord_run s as hi ha

/-- **C10, a client writes.**  The host, and every other client behind the host's relay (`repeat_except_for_client`,
relay only if the host's value changed — or always, for parent links), display a subsequence of the values the
writing client wrote, in the order written, for any number of clients and every interleaving. -/
theorem C10_client_writer_ordered (w : Nat) (x : Option V) (s : State V) (as : List (Act V))
    (hn : (s.clients.map (·.id)).Nodup) (hw : ∃ c ∈ s.clients, c.id = w) (hc : Clean x s)
    (hlog : s.written = [] ∧ s.host.shown = [] ∧ ∀ c ∈ s.clients, c.p.shown = []) (ha : ∀ a ∈ as, ClientWrites w a) :
    List.Sublist (run ra false replace s as).host.shown (run ra false replace s as).written ∧
    ∀ c ∈ (run ra false replace s as).clients, c.id ≠ w →
      List.Sublist c.p.shown (run ra false replace s as).written :=
  client_epoch_ordered w x s as hn hw hc hlog ha

/-- the chain invariant behind it, for every reachable state of a client-writer epoch -/
theorem C10_client_writer_chain (w : Nat) (s : State V) (as : List (Act V)) (hi : COrd w s)
    (ha : ∀ a ∈ as, ClientWrites w a) : COrd w (run ra false replace s as) :=
  cord_run w s as hi ha

/-- … ending with the last one -/
theorem C10_client_writer_ends_with_last (w : Nat) (x : Option V) (s : State V) (as : List (Act V))
    (hn : (s.clients.map (·.id)).Nodup) (hw : ∃ c ∈ s.clients, c.id = w) (hc : Clean x s)
    (ha : ∀ a ∈ as, ClientWrites w a) (hq : Quiescent (run ra false replace s as)) :
    (run ra false replace s as).host.val = lastWritten x as ∧
      ∀ c ∈ (run ra false replace s as).clients, c.p.val = lastWritten x as := by
  have h := client_epoch_converges w x s as hn hw hc ha hq
  exact ⟨h.1, fun c hcm => (h.2.2.2.2.2 c hcm).1⟩

/-- **"ending with the last one" without assuming the drain**: after any interleaving of a writer's epoch there is a
continuation without writes — three fair rounds — after which the host and every client display the most recent write -/
theorem C10_host_writer_ends_with_last_total (x : Option V) (s : State V) (as : List (Act V)) (hc : Clean x s)
    (ha : ∀ a ∈ as, HostWrites a) :
    ∃ more : List (Act V), (∀ a ∈ more, isWrite a = false) ∧
      ∀ c ∈ (run ra false replace (run ra false replace s as) more).clients, c.p.val = lastWritten x as := by
  obtain ⟨more, hw, hcl⟩ := host_epoch_total (ra := ra) x s as hc ha
  exact ⟨more, hw, fun c hcm => (hcl.2.2.2.2.2 c hcm).1⟩

theorem C10_client_writer_ends_with_last_total (w : Nat) (x : Option V) (s : State V) (as : List (Act V))
    (hn : (s.clients.map (·.id)).Nodup) (hw : ∃ c ∈ s.clients, c.id = w) (hc : Clean x s)
    (ha : ∀ a ∈ as, ClientWrites w a) :
    ∃ more : List (Act V), (∀ a ∈ more, isWrite a = false) ∧
      (run ra false replace (run ra false replace s as) more).host.val = lastWritten x as ∧
      ∀ c ∈ (run ra false replace (run ra false replace s as) more).clients, c.p.val = lastWritten x as := by
  obtain ⟨more, hq, hcl⟩ := client_epoch_total (ra := ra) w x s as hn hw hc ha
  exact ⟨more, hq, hcl.1, fun c hcm => (hcl.2.2.2.2.2 c hcm).1⟩

/-- non-vacuity, client writer: client 1 writes 1, 2, 3; the host polls two of them in one frame; client 2 sees what
the host relays -/
example :
    let s0 : State Nat := { clients := [{ id := 1 }, { id := 2 }] }
    let as : List (Act Nat) := [.writeC 1 1, .detectC 1, .reactC 1, .writeC 1 2, .detectC 1, .writeC 1 3, .reactC 1,
      .pollH 1 2, .flushH, .flushH, .detectH, .pollC 2 5, .flushC 2, .flushC 2, .detectC 2, .detectC 1, .reactC 1,
      .pollH 1 1, .flushH, .detectH, .pollC 2 1, .flushC 2, .detectC 2]
    (run false false replace s0 as).host.shown = [1, 2, 3] ∧
    ((run false false replace s0 as).clients.map (·.p.shown)) = [[], [1, 2, 3]] ∧
    (run false false replace s0 as).written = [1, 2, 3] := by
  decide

/-- with the pre-repair token skip the order still holds but the end does not (witness of `Props.C02`) -/
theorem C10_false_ending_with_token_skip :
    let s := run false true replace Props.C02.two Props.C02.d1Witness
    (s.clients.map (·.p.shown)) = [[5], [5, 7]] ∧ s.written = [5, 7] := by decide

/-- non-vacuity: a burst of three writes, the client polls two of them in one frame -/
example :
    let s0 : State Nat := { clients := [{ id := 1 }] }
    let as : List (Act Nat) := [.writeH 1, .detectH, .reactH, .writeH 2, .writeH 3, .detectH, .reactH, .pollC 1 2,
                                .flushC 1, .flushC 1, .detectC 1]
    ((run false false replace s0 as).clients.map (·.p.shown)) = [[1, 3]] ∧ (run false false replace s0 as).written = [1, 2, 3] := by
  decide

end Props
end BevySync
