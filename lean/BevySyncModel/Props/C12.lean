import BevySyncModel.Proofs.Message
import BevySyncModel.Proofs.Reflect
import BevySyncModel.Generated.Proto
/-! # C12 — component, material and message wire encoding is lossless -/
namespace BevySync
namespace Props
open Wire Codec

/-- (tie) `Message` / `SyncConnectionParameters` as regenerated from `proto.rs` / `lib.rs`:
same variants in the same order with the same field types as the model's `Msg` -/
theorem C12_message_descriptor_tie : Ty.beq Generated.messageTy Codec.messageTy = true := by decide

theorem C12_message_variant_names_tie :
    Generated.messageVariants.map (·.1) = Codec.messageVariants.map (·.1) := by decide

/-- the typed serde/bincode universe round-trips: for every wire type, every well-typed value,
every continuation of the buffer -/
theorem C12_wire_roundtrip (t : Ty) (v : Val) (r : List UInt8) (h : wt t v = true) :
    dec t (enc v ++ r) = Option.some (v, r) :=
  dec_enc t v r h

/-- **C12 (components, materials).** For every registry, every registered type path and every value
of that type's wire shape: `bin_to_reflect (reflect_to_bin v)` yields the same path and the same
value tree (bit-identical, hence reflect-equal wherever reflect equality is reflexive). -/
theorem C12_reflect_roundtrip (reg : Registry) (path : List UInt8) (t : Ty) (v : Val)
    (hp : wt .str (.str path) = true) (hr : reg.find path = Option.some t) (hv : wt t v = true) :
    binToReflect reg (reflectToBin path v) = Option.some (path, v) :=
  binToReflect_reflectToBin reg path t v hp hr hv

/-- … and what was decoded re-encodes to the same bytes -/
theorem C12_reflect_reencode (reg : Registry) (path : List UInt8) (t : Ty) (v : Val)
    (hp : wt .str (.str path) = true) (hr : reg.find path = Option.some t) (hv : wt t v = true) :
    ∃ p' v', binToReflect reg (reflectToBin path v) = Option.some (p', v') ∧
      reflectToBin p' v' = reflectToBin path v :=
  reflect_reencode reg path t v hp hr hv

/-- **C12 (messages).** Every protocol message survives its own encoding and decoding unchanged,
for all field values (ids of 16 bytes, valid UTF-8 names/urls, integers within their fields), also
when bytes follow it in the buffer. -/
theorem C12_message_roundtrip (m : Msg) (h : m.wf = true) : decodeMsg (encodeMsg m) = Option.some m :=
  decodeMsg_encodeMsg m h

theorem C12_message_roundtrip_trailing (m : Msg) (r : List UInt8) (h : m.wf = true) :
    decodeMsg (encodeMsg m ++ r) = Option.some m :=
  decodeMsg_encodeMsg_trailing m r h

/-- non-vacuity -/
example : (Msg.componentUpdated (List.replicate 16 0xAB) [0x61, 0xC3, 0xA9] [0, 255, 1]).wf = true := by decide
example : (Msg.newHost { ip := .v6 (List.replicate 16 255), port := 65535, webPort := 0,
                         maxTransfer := 2 ^ 64 - 1 }).wf = true := by decide
example : wt (.tup (TyList.ofList [.uint 4, .opt (.seq .str), .enm (TyList.ofList [Ty.unit, .tup (TyList.ofList [.bool])])]))
    (.tup (ValList.ofList [.int 4 0xFFFFFFFF, .some (.seq (ValList.ofList [.str [0x68, 0x69]])),
      .variant 1 (.tup (ValList.ofList [.bool true]))])) = true := by decide

end Props
end BevySync
