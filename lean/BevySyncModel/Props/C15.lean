import BevySyncModel.Proofs.Conn
import BevySyncModel.Proofs.Budget
import BevySyncModel.Proofs.World
import BevySyncModel.Generated.Conn
import BevySyncModel.Generated.Sync
import BevySyncModel.Generated.Snap
/-! # C15 — published connection states and InitialSyncFinished are truthful -/
namespace BevySync
namespace Props
open Conn

/-- (tie) the run conditions of the five state systems, the gates of the three replication chains, the
transport check in `verify_client_connected` and the three sites that raise / send the sync-finished
signal, as regenerated from the source; `set_client_to_disconnected` runs in every state but Disconnected (D10 repaired), `set_client_to_connecting` for every
newly inserted transport whatever the state (D19 repaired) -/
theorem C15_code_tie :
    Generated.connServerConditions = true ∧ Generated.connClientConditions = true ∧
    Generated.connClientDisconnectLegacy = false ∧ Generated.connConnectingOnlyFromDisconnected = false ∧
    Generated.connReplicationGated = true ∧
    Generated.connVerifyChecksTransport = true ∧ Generated.connSyncFinishedSites = true := by decide

/-- (tie) "by the end of that frame its entities, components and links equal the host's snapshot": the snapshot is sent in
order and followed by `FinishedInitialSync`, the client's receive loop handles every message it takes from the ordered
channel, and the spawn precedes the components of an entity -/
theorem C15_snapshot_delivery_tie :
    Generated.snapSentInOrderThenFinished = true ∧ Generated.recvHandlesEveryMessage = true ∧
    Generated.snapSpawnBeforeComponents = true := by decide

/-- **"by the end of that frame its synchronized entities, components and parent links equal the host's snapshot".** The
snapshot and `FinishedInitialSync` travel in order on one reliable channel and the receive loop handles every message it
takes (tie above), so when the marker is handled every message of the snapshot has been; applied in order by a fresh
joiner they rebuild the host's world exactly (`Slice/World.lean`, any number of archetypes, entities, components, links) -/
theorem C15_content_at_finished (w : WorldSnap.World) (hw : WorldSnap.WF w) :
    let c := WorldSnap.applyAll {} (WorldSnap.snapshot w)
    c.ents = WorldSnap.uuids w ∧
    (∀ e ∈ WorldSnap.allEnts w, ∀ t, WorldSnap.getComp c e.uuid t = e.vals.lookup t) ∧
    (∀ e ∈ WorldSnap.allEnts w, WorldSnap.getParent c e.uuid = e.parent) :=
  WorldSnap.snapshot_rebuilds w hw

/-- the invariants hold in every state reachable by any sequence of start-hosting / stop / connect /
disconnect / reconnect operations, handshake events and frames -/
theorem C15_server_reachable (ops : List Op) : (ops.foldl Server.step {}).Inv :=
  Server.inv_run {} ops Server.inv_init
theorem C15_client_reachable (ops : List Op) : (ops.foldl (Client.step false false) {}).Inv :=
  Client.inv_run {} ops Client.inv_init

/-- **ServerState follows hosting within two frames**, from every reachable state -/
theorem C15_server_tracks_within_two (ops : List Op) :
    let s := ops.foldl Server.step {}
    s.frame.frame.state = s.transport :=
  Server.tracks_within_two _ (C15_server_reachable ops)

/-- **a host observes InitialSyncFinished once when it starts hosting** -/
theorem C15_host_event_once (s : Server) :
    (s.frame.events = s.events + 1 ↔ s.frame.next = some true) ∧
    (s.frame.next = some true → s.frame.frame.events = s.frame.events) :=
  ⟨Server.event_iff_connecting s, Server.event_not_twice s⟩

/-- **ClientState is never Connected before the transport is connected** -/
theorem C15_client_never_early (lg : Bool) (c : Client) :
    ((c.frame lg).next = some .connected → c.renetConnected = true ∧ c.transport = true) ∧
    ((c.frame lg).state = .connected → c.state = .connected ∨ c.next = some .connected) :=
  ⟨fun h => ⟨(Client.never_early lg c h).1, (Client.never_early lg c h).2.1⟩, Client.connected_only_by_request lg c⟩

/-- **Disconnected → Connecting → Connected as the connection is established** -/
theorem C15_client_progress (c : Client) :
    (c.next.getD c.state = .disconnected → c.transport = true → c.added = true → (c.frame false).next = some .connecting) ∧
    (c.next.getD c.state = .connecting → c.transport = true → c.added = false → c.renetConnected = true →
      (c.frame false).next = some .connected) :=
  ⟨Client.progress c, Client.progress_verify c⟩

/-- **a reconnect inside one frame is a new join.** The application removes its transport and inserts a new one between
two frames of a connected client (the state never passes through Disconnected): the next frame requests Connecting, and
once the new connection is up exactly one further RequestInitialSync goes out -/
theorem C15_reconnect_within_one_frame :
    let c0 := [Op.insert, .frame, .frame, .setConnected true, .frame, .frame].foldl (Client.step false false) {}
    let c1 := [Op.remove, .insert, .frame].foldl (Client.step false false) c0
    let c2 := [Op.frame, .setConnected true, .frame, .frame, .frame].foldl (Client.step false false) c1
    c0.state = .connected ∧ c0.requests = 1 ∧ c1.next = some .connecting ∧
    c2.state = .connected ∧ c2.requests = 2 := by decide

/-- the repaired defect stays machine-checked: while `set_client_to_connecting` also required `in_state(Disconnected)`
the same history left the client at Connected without ever asking for the new connection's snapshot -/
theorem C15_false_with_strict_connecting :
    let c0 := [Op.insert, .frame, .frame, .setConnected true, .frame, .frame].foldl (Client.step false true) {}
    let c2 := [Op.remove, .insert, .frame, .frame, .setConnected true, .frame, .frame, .frame].foldl (Client.step false true) c0
    c2.state = .connected ∧ c2.requests = 1 ∧ c2.renetConnected = true := by decide

/-- **back to Disconnected within two frames of the application removing its transport**, from every reachable state -/
theorem C15_client_disconnects_within_two (ops : List Op) :
    let c := ops.foldl (Client.step false false) {}
    c.transport = false → ((c.frame false).frame false).state = .disconnected :=
  fun ht => Client.disconnects_within_two _ (C15_client_reachable ops) ht

/-- **exactly one RequestInitialSync per join** (the host answers each with one snapshot terminated by one
FinishedInitialSync, which raises the event on the client: see the tie and the trace oracle) -/
theorem C15_request_once (ops : List Op) :
    let c := ops.foldl (Client.step false false) {}
    ((c.frame false).requests = c.requests + 1 → (c.frame false).next = some .connected) ∧
    ((c.frame false).next = some .connected → ((c.frame false).frame false).requests = (c.frame false).requests) :=
  Client.request_once _ (C15_client_reachable ops)

/-- the repaired defect stays machine-checked: with the pre-repair condition a transport removed while
Connecting leaves the client at Connecting for ever -/
theorem C15_false_with_legacy_condition :
    let c := [Op.insert, .frame, .frame, .remove, .frame, .frame, .frame, .frame].foldl (Client.step true false) {}
    c.state = .connecting ∧ c.next = none ∧ c.transport = false := by decide

/-- **the snapshot and the channel's memory budget (the premise of "exactly once per join", made explicit).**
`send_initial_sync` queues every message of the snapshot and `FinishedInitialSync` last in one call (tie above); renet's
reliable channel accepts a message only while the unacknowledged bytes of that client stay within its budget and
disconnects the client otherwise (`Slice/Budget.lean`).  The joiner is sent the whole snapshot, in order, marker last,
exactly when snapshot + marker fit into what the channel has left; otherwise it is sent **nothing** and is disconnected. -/
theorem C15_join_served_iff_snapshot_fits (budget : Nat) (snapshot : List Nat) (marker : Nat) (c : Budget.Chan)
    (hc : c.closed = false) (hu : c.used ≤ budget) :
    (Budget.delivered (Budget.sendAll budget c (snapshot ++ [marker])) = c.queued ++ (snapshot ++ [marker]) ↔
      c.used + Budget.total (snapshot ++ [marker]) ≤ budget) ∧
    (c.used + Budget.total (snapshot ++ [marker]) > budget →
      (Budget.sendAll budget c (snapshot ++ [marker])).closed = true ∧
      Budget.delivered (Budget.sendAll budget c (snapshot ++ [marker])) = []) := by
  refine ⟨?_, Budget.overflows budget _ c hc hu⟩
  have h := Budget.served_iff_fits budget (snapshot ++ [marker]) c hc hu
  constructor
  · intro hd
    rcases h.mp hd with h1 | h1
    · exact h1
    · simp at h1
  · intro hf; exact h.mpr (Or.inl hf)

/-- **D20 (recorded finding), kernel-checked.** Ten values of 512 KiB (each `ComponentUpdated` a few dozen bytes more) and
the marker against the default budget of 5 MiB on a fresh channel: a message is refused, the joiner is disconnected and
receives nothing — no `InitialSyncFinished` for this join.  Nine are served. -/
theorem C15_D20_join_refused :
    (Budget.sendAll (5 * 1024 * 1024) {} (List.replicate 10 (512 * 1024 + 70) ++ [4])).closed = true ∧
    Budget.delivered (Budget.sendAll (5 * 1024 * 1024) {} (List.replicate 10 (512 * 1024 + 70) ++ [4])) = [] ∧
    Budget.delivered (Budget.sendAll (5 * 1024 * 1024) {} (List.replicate 9 (512 * 1024 + 70) ++ [4])) =
      List.replicate 9 (512 * 1024 + 70) ++ [4] := by
  decide

/-- D20, second face: a client that was already connected when the values were first detected has their live broadcast
unacknowledged on its channel when it asks for the snapshot — six such values are refused although six alone fit -/
theorem C15_D20_double_delivery :
    let live := Budget.sendAll (5 * 1024 * 1024) {} (List.replicate 6 (512 * 1024 + 70))
    live.closed = false ∧ (Budget.sendAll (5 * 1024 * 1024) { live with queued := [] } (List.replicate 6 (512 * 1024 + 70) ++ [4])).closed = true := by
  decide

/-- non-vacuity: a full client life cycle and a hosting cycle -/
example :
    let c := [Op.insert, .frame, .frame, .setConnected true, .frame, .frame].foldl (Client.step false false) {}
    c.state = .connected ∧ c.requests = 1 := by decide
example :
    let s := [Op.insert, .frame, .frame, .remove, .frame, .frame].foldl Server.step {}
    s.state = false ∧ s.events = 1 := by decide

end Props
end BevySync
