import BevySyncModel.Slice.Filter
import BevySyncModel.Generated.Filter
import BevySyncModel.Generated.Sync
/-! # C04 — only opted-in data ever leaves a peer -/
namespace BevySync
namespace Props
open Filter

/-- (tie) the filters as regenerated from the source on this run: `sync_detect`'s query has
`With<SyncEntity>`, `Without<SyncExclude<T>>`, `Changed<T>`; it is only added by `sync_component`;
each of the five reaction systems (both peers' `track.rs`) is gated by its class switch and skips
non-uuid ids; the snapshot checks registration, exclusion, the switches and uuid ids. -/
theorem C04_filters_tie :
    Generated.detectFilterComplete = true ∧ Generated.detectOnlyViaSyncComponent = true ∧
    Generated.reactGatedBySwitch = true ∧ Generated.reactSkipsIndexIds = true ∧
    Generated.snapshotChecksRegistration = true ∧ Generated.snapshotChecksExclusion = true ∧
    Generated.snapshotGatedBySwitch = true ∧ Generated.snapshotSkipsIndexIds = true ∧
    Generated.createdOnlyOnSyncMark = true := by decide

/-- (tie) "evaluated when the change is detected" stands for "when it leaves": a detected change is sent in the same frame —
both `react_on_changed_components` drain the whole queue every frame they run, with no way out of the loop or the function
before it is empty (whether or not anybody is connected) -/
theorem C04_detected_is_sent_tie : Generated.reactDrainsWholeQueue = true := by decide

/-- **live updates**: every component message the detection pass originates is for a registered type
on a synchronized entity that does not carry the exclusion, evaluated when the change is detected -/
theorem C04_detect_allowed (p : Peer) : ∀ m ∈ detectMsgs p, Allowed p m := by
  intro m hm
  simp only [detectMsgs, List.mem_flatMap] at hm
  obtain ⟨e, he, hm⟩ := hm
  split at hm
  · rename_i hs
    obtain ⟨t, ht, rfl⟩ := List.mem_map.mp hm
    simp only [List.mem_filter, Bool.and_eq_true, List.contains_iff_mem, Bool.not_eq_true', ← Bool.not_eq_true] at ht
    refine ⟨e, he, rfl, hs, ht.2.1.1, ht.2.1.2, ?_⟩
    intro hx
    have := ht.2.2
    simp [List.contains_iff_mem, hx] at this
  · cases hm

/-- **asset updates**: only uuid assets of an enabled class -/
theorem C04_react_allowed (p : Peer) : ∀ m ∈ reactMsgs p, Allowed p m := by
  intro m hm
  simp only [reactMsgs, List.mem_filterMap] at hm
  obtain ⟨a, ha, hm⟩ := hm
  split at hm
  · rename_i hc
    cases hu : a.uuid with
    | none => simp [hu] at hm
    | some u =>
      simp only [hu, Option.some.injEq] at hm
      subst hm
      simp only [Bool.and_eq_true] at hc
      exact ⟨hc.2, a, ha, rfl, hu⟩
  · cases hm

/-- **snapshot**: the same holds for everything sent to a joining client -/
theorem C04_snapshot_allowed (p : Peer) : ∀ m ∈ snapshotMsgs p, Allowed p m := by
  intro m hm
  simp only [snapshotMsgs, List.mem_append] at hm
  rcases hm with (hm | hm) | hm
  · obtain ⟨e, he, rfl⟩ := List.mem_map.mp hm
    simp only [List.mem_filter] at he
    exact ⟨e, he.1, rfl, he.2⟩
  · simp only [List.mem_flatMap] at hm
    obtain ⟨e, he, hm⟩ := hm
    split at hm
    · rename_i hs
      obtain ⟨t, ht, rfl⟩ := List.mem_map.mp hm
      simp only [List.mem_filter, Bool.and_eq_true, List.contains_iff_mem] at ht
      refine ⟨e, he, rfl, hs, ht.2.1, ht.1, ?_⟩
      intro hx
      have := ht.2.2
      simp [List.contains_iff_mem, hx] at this
    · cases hm
  · simp only [List.mem_filterMap] at hm
    obtain ⟨a, ha, hm⟩ := hm
    split at hm
    · rename_i hc
      cases hu : a.uuid with
      | none => simp [hu] at hm
      | some u =>
        simp only [hu, Option.some.injEq] at hm
        subst hm
        exact ⟨hc, a, ha, rfl, hu⟩
    · cases hm

/-- **never marked, never named**: an entity that is not synchronized appears in no message at all -/
theorem C04_unsynced_never_named (p : Peer) (u : Nat) (h : ∀ e ∈ p.ents, e.id = u → e.synced = false) :
    ∀ m ∈ detectMsgs p ++ snapshotMsgs p, m ≠ .spawn u ∧ ∀ t, m ≠ .comp u t := by
  intro m hm
  have ha : Allowed p m := by
    rcases List.mem_append.mp hm with hm | hm
    · exact C04_detect_allowed p m hm
    · exact C04_snapshot_allowed p m hm
  constructor
  · intro heq; subst heq
    obtain ⟨e, he, hid, hs⟩ := ha
    rw [h e he hid] at hs; cases hs
  · intro t heq; subst heq
    obtain ⟨e, he, hid, hs, _⟩ := ha
    rw [h e he hid] at hs; cases hs

/-- the decidable form the driver evaluates on observed originations agrees with `Allowed` -/
theorem C04_allowedB_sound (p : Peer) (m : Msg) (h : allowedB p m = true) : Allowed p m := by
  cases m with
  | spawn u =>
    simp only [allowedB, List.any_eq_true, Bool.and_eq_true, beq_iff_eq] at h
    obtain ⟨e, he, h1, h2⟩ := h
    exact ⟨e, he, h1, h2⟩
  | comp u t =>
    simp only [allowedB, List.any_eq_true, Bool.and_eq_true, beq_iff_eq, List.contains_iff_mem, Bool.not_eq_true'] at h
    obtain ⟨e, he, ⟨⟨⟨h1, h2⟩, h3⟩, h4⟩, h5⟩ := h
    refine ⟨e, he, h1, h2, h3, h4, ?_⟩
    intro hx
    simp [List.contains_iff_mem, hx] at h5
  | asset c u =>
    simp only [allowedB, Bool.and_eq_true, List.any_eq_true, beq_iff_eq] at h
    obtain ⟨h1, a, ha, h2, h3⟩ := h
    exact ⟨h1, a, ha, h2, h3⟩

/-- non-vacuity: registered/unregistered, excluded, unsynced, index-id and disabled-class items together -/
def demoPeer : Peer :=
  { registered := [1, 2]
    sw := { materials := true, meshes := false, audios := true }
    ents := [{ id := 7, marked := false, synced := true, comps := [1, 2, 3], changed := [1, 2, 3], excluded := [2] },
             { id := 0, marked := true, synced := false, comps := [1], changed := [1], excluded := [] }]
    assets := [{ cls := .mesh, uuid := some 5, pendingEvent := true }, { cls := .audio, uuid := some 6, pendingEvent := true },
               { cls := .audio, uuid := none, pendingEvent := true }, { cls := .image, uuid := some 9, pendingEvent := true }] }

example : detectMsgs demoPeer = [.comp 7 1] ∧ reactMsgs demoPeer = [.asset .audio 6, .asset .image 9] ∧
    snapshotMsgs demoPeer = [.spawn 7, .comp 7 1, .asset .audio 6, .asset .image 9] := by decide

end Props
end BevySync
