import BevySyncModel.Proofs.CompBound
import BevySyncModel.Proofs.AssetBound
import BevySyncModel.Proofs.CompPot
import BevySyncModel.Proofs.CompLive
import BevySyncModel.Proofs.CompPotG
import BevySyncModel.Proofs.AssetPot
import BevySyncModel.Proofs.AssetLive
import BevySyncModel.Proofs.MatBound
import BevySyncModel.Proofs.MatLive
import BevySyncModel.Proofs.EntBound
import BevySyncModel.Proofs.EntLive
import BevySyncModel.Generated.Sync
import BevySyncModel.Generated.Asset
import BevySyncModel.Generated.Ent
/-! # C09 — replication traffic is finite and self-quenching

`sent` is a ghost counter of every message ever put on a channel.  Two layers:

* the **global bounds** (`C09_*_traffic_bounded`, `C09_*_quiet`): for each of the four kinds of replicated state —
  components and parent links (`Comp`, both relay modes, any patch function), entity life (`Ent`), inline materials
  (`Mat`), download-class assets (`Asset`) — any history of application operations by **any** peers (conflicting or not),
  under any schedule, sends at most `N + 1` messages per application operation (`N` clients), and a history without
  further operations sends at most what the potential of its first state says is still owed — nothing from a calm state;
* the **epoch theorems** (one writer at a time): the exact shape of the traffic — who sends, who stays silent. -/
namespace BevySync
namespace Props
open Comp

theorem C09_code_paths_tie :
    Generated.applySkipsOnToken = false ∧ Generated.applyIsPatch = false ∧ Generated.fixReinsertsValue = false ∧
    Generated.assetTokensCounted = true ∧ Generated.assetProcessFilesToken = true ∧
    Generated.assetReactDebounceServeAnnounce = true ∧ Generated.assetMaterialInlinePath = true ∧
    Generated.entDeleteHandlersNamedEntityOnly = true ∧ Generated.entSpawnHandlers = true ∧
    Generated.entRemovedDetectors = true ∧ Generated.applyComparesByPartialEq = true := by
  decide

/-! ## global bounds: any writers, any schedule -/

section Global
variable {V : Type} [DecidableEq V] {ra : Bool}

/-- **components and parent links.** `N + 1` messages per application write at most, whoever writes whenever. -/
theorem C09_comp_traffic_bounded (pt : V → V → V) (s : State V) (as : List (Act V))
    (hn : (s.clients.map (·.id)).Nodup) (hc : Comp.Calm s) :
    (run ra false pt s as).sent ≤ s.sent + (s.clients.length + 1) * wops as :=
  comp_traffic_bounded pt s as hn hc

/-- … and frames without application writes send at most what is still owed (nothing from a calm state) -/
theorem C09_comp_quiet (pt : V → V → V) (s : State V) (as : List (Act V)) (hn : (s.clients.map (·.id)).Nodup)
    (h0 : wops as = 0) : (run ra false pt s as).sent ≤ gpot s :=
  comp_quiet pt s as hn h0

/-- from a calm state, frames without application writes send nothing at all -/
theorem C09_comp_calm_silent (pt : V → V → V) (s : State V) (as : List (Act V)) (hn : (s.clients.map (·.id)).Nodup)
    (hc : Comp.Calm s) (h0 : wops as = 0) : (run ra false pt s as).sent ≤ s.sent := by
  have h1 := comp_traffic_bounded (ra := ra) pt s as hn hc
  rw [h0] at h1
  simpa using h1

/-- **values that are not equal to themselves.** The bound does not depend on how a received value is compared with the
one already held: with `same` any relation whatsoever — not reflexive (a component containing a NaN float), constantly
false, … — a schedule with writes by any peers still sends at most `N + 1` messages per application write. (`stepA` is
the slice's `step` with the apply function as a parameter: `C09_stepA_is_step`.) -/
theorem C09_comp_traffic_bounded_any_equality (same : V → V → Bool) (pt : V → V → V) (s : State V) (as : List (Act V))
    (hn : (s.clients.map (·.id)).Nodup) (hc : Comp.Calm s) :
    (runA ra (applyS same pt) s as).sent ≤ s.sent + (s.clients.length + 1) * wops as :=
  traffic_bounded_any_equality same pt s as hn hc

theorem C09_stepA_is_step (pt : V → V → V) (s : State V) (a : Act V) :
    step ra false pt s a = stepA ra (apply false pt) s a :=
  step_eq_stepA pt s a

/-- non-vacuity: a value that never compares equal (`same := fun _ _ => false`) written once and then received again and
again by everybody — it is applied every time, and nobody announces it -/
example :
    let s0 : State Nat := { clients := [{ id := 1 }, { id := 2 }] }
    let as : List (Act Nat) := [.writeH 7, .detectH, .reactH, .pollC 1 1, .flushC 1, .detectC 1, .reactC 1, .pollC 2 1, .flushC 2,
      .detectC 2, .reactC 2, .pollH 1 5, .pollH 2 5, .flushH, .detectH, .reactH]
    (runA false (applyS (fun _ _ => false) replace) s0 as).sent = 2 := by decide

/-- **message flow stops within a bounded number of frames.** From *any* state of the component slice — reachable or not,
whatever is queued, in flight or half applied, any number of clients, both relay modes, any patch function — three fair
rounds without application writes (host: detect, react, poll every channel, run every closure; then every client the
same) end in a quiescent state. -/
theorem C09_quiescent_within_three_rounds (pt : V → V → V) (s : State V) :
    Quiescent (round (ra := ra) pt (round (ra := ra) pt (round (ra := ra) pt s))) :=
  three_rounds_quiescent pt s

/-- … and those rounds are a schedule of the model's own actions: from any state a write-free schedule reaches quiescence
(by `C09_comp_quiet` it sends no more than the potential of the state it starts from) -/
theorem C09_quiescence_reached (pt : V → V → V) (s : State V) :
    ∃ as : List (Act V), (∀ a ∈ as, isWrite a = false) ∧ Quiescent (run ra false pt s as) :=
  quiescence_reached pt s

/-- non-vacuity: a state with conflicting values queued, in flight and half applied everywhere is not quiescent, is not
quiescent after one round either, and is after three -/
example :
    let s0 : State Nat :=
      { host := { val := some 1, dirty := true, queue := [4] }, hdefer := [(2, 9)],
        clients := [{ id := 1, p := { val := some 2, dirty := true, token := true, queue := [5, 6] }, defer := [7], up := [8], down := [3] },
                    { id := 2, p := { val := none, dirty := true }, up := [1, 2], down := [2, 1] }] }
    (decide (Quiescent s0) = false) ∧ (decide (Quiescent (round (ra := false) replace s0)) = false) ∧
      Quiescent (round (ra := false) replace (round (ra := false) replace (round (ra := false) replace s0))) := by
  refine ⟨by decide, by decide, by decide⟩

/-- **entity life.** `N + 1` messages per `SyncMark` insertion or application despawn at most, whichever peers act. -/
theorem C09_ent_traffic_bounded (s : Ent.State) (as : List Ent.Act) (hn : (s.clients.map (·.id)).Nodup)
    (hc : Ent.Calm s) : (Ent.run s as).sent ≤ s.sent + (s.clients.length + 1) * Ent.ops as :=
  Ent.ent_traffic_bounded s as hn hc

theorem C09_ent_quiet (s : Ent.State) (as : List Ent.Act) (hn : (s.clients.map (·.id)).Nodup) (h0 : Ent.ops as = 0) :
    (Ent.run s as).sent ≤ Ent.pot s :=
  Ent.ent_quiet s as hn h0

/-- **entity life: message flow stops within two fair rounds**, from any state (host: `entity_removed`, `entity_created`,
poll every channel; then every client the same), when the application neither marks nor despawns and nobody leaves -/
theorem C09_ent_quiescent_within_two_rounds (s : Ent.State) : Ent.Quiescent (Ent.round (Ent.round s)) :=
  Ent.two_rounds_quiescent s

/-- non-vacuity: spawns and deletes crossing on every channel, a peer with an announcement still to make -/
example :
    let s0 : Ent.State :=
      { host := { marked := true, count := 1, tracked := true },
        clients := [Ent.Client.mk 1 { count := 0, tracked := true } [.spawn, .delete] [.delete, .spawn] true,
                    Ent.Client.mk 2 { marked := true } [.delete] [.spawn, .spawn] true,
                    Ent.Client.mk 3 { count := 1, tracked := true } [.spawn] [.delete] false] }
    (decide (Ent.Quiescent s0) = false) ∧ Ent.Quiescent (Ent.round (Ent.round s0)) := by
  refine ⟨by decide, by decide⟩

/-- **inline materials.** `N + 1` messages per publication at most, whichever peers publish. -/
theorem C09_mat_traffic_bounded (s : Mat.State) (as : List Mat.Act) (hn : (s.clients.map (·.id)).Nodup)
    (hc : Mat.Calm s) : (Mat.run true s as).sent ≤ s.sent + (s.clients.length + 1) * Mat.ops as :=
  Mat.mat_traffic_bounded s as hn hc

theorem C09_mat_quiet (s : Mat.State) (as : List Mat.Act) (hn : (s.clients.map (·.id)).Nodup) (h0 : Mat.ops as = 0) :
    (Mat.run true s as).sent ≤ Mat.pot s :=
  Mat.mat_quiet s as hn h0

/-- **inline materials: message flow stops within three fair rounds**, from any state with distinct client ids (a round
handles every pending event, every message and every closure of the host, then of every client) -/
theorem C09_mat_quiescent_within_three_rounds (s : Mat.State) (hn : (s.clients.map (·.id)).Nodup) :
    Mat.Quiescent (Mat.round (Mat.round (Mat.round s))) :=
  Mat.three_rounds_quiescent s hn

/-- non-vacuity: uncovered events, closures and messages everywhere -/
example :
    let s0 : Mat.State :=
      { host := { content := some 1, events := 2, tokens := 1 }, hdefer := [(2, 9)],
        clients := [Mat.Client.mk 1 { content := some 2, events := 3 } [7] [8] [3],
                    Mat.Client.mk 2 { events := 1, tokens := 2 } [] [1, 2] [2, 1]] }
    (decide (Mat.Quiescent s0) = false) ∧ (decide (Mat.Quiescent (Mat.round s0)) = false) ∧
      Mat.Quiescent (Mat.round (Mat.round (Mat.round s0))) := by
  refine ⟨by decide, by decide, by decide⟩

/-- **download-class assets.** `N + 1` announcements per publication at most, whichever peers publish, whatever the
downloads do meanwhile. -/
theorem C09_asset_traffic_bounded (s : Asset.State) (as : List Asset.Act) (hn : (s.clients.map (·.id)).Nodup)
    (hc : Asset.Calm s) : (Asset.run true false s as).sent ≤ s.sent + (s.clients.length + 1) * Asset.pops as :=
  Asset.asset_traffic_bounded s as hn hc

theorem C09_asset_quiet (s : Asset.State) (as : List Asset.Act) (hn : (s.clients.map (·.id)).Nodup)
    (h0 : Asset.pops as = 0) : (Asset.run true false s as).sent ≤ Asset.gpot s :=
  Asset.asset_quiet s as hn h0

/-- **download-class assets: message flow stops within three fair rounds**, from any state with distinct client ids (a
round: every pending event handled, every announcement taken, every queued download run — with whatever its owner serves
at that moment, or a 404 — and what arrived applied; host first, then every client) -/
theorem C09_asset_quiescent_within_three_rounds (s : Asset.State) (hn : (s.clients.map (·.id)).Nodup) :
    Asset.Quiescent (Asset.round (Asset.round (Asset.round s))) :=
  Asset.three_rounds_quiescent s hn

/-- non-vacuity: uncovered events, announcements, queued downloads and unapplied content everywhere -/
example :
    let s0 : Asset.State :=
      { host := { content := some 1, events := 2, tokens := 1, served := some 1, slot := some 4, jobs := [1, 2] },
        clients := [Asset.Client.mk 1 { content := some 2, events := 3, served := some 2, jobs := [0] } [1, 1] [0, 2],
                    Asset.Client.mk 2 { events := 1, tokens := 2, slot := some 9 } [2] [1]] }
    (decide (Asset.Quiescent s0) = false) ∧ (decide (Asset.Quiescent (Asset.round s0)) = false) ∧
      Asset.Quiescent (Asset.round (Asset.round (Asset.round s0))) := by
  refine ⟨by decide, by decide, by decide⟩

/-- non-vacuity: two clients write conflicting values in the same frames; 2 writes, 3 peers, 4 messages ≤ 2 · 3 -/
example :
    let s0 : State Nat := { clients := [{ id := 1 }, { id := 2 }] }
    let as : List (Act Nat) := [.writeC 1 7, .writeC 2 8, .detectC 1, .detectC 2, .reactC 1, .reactC 2, .pollH 1 1, .pollH 2 1,
      .flushH, .flushH, .detectH, .reactH, .pollC 1 3, .pollC 2 3, .flushC 1, .flushC 2, .flushC 1, .flushC 2, .detectC 1,
      .detectC 2, .reactC 1, .reactC 2]
    Comp.Calm s0 ∧ wops as = 2 ∧ (run false false replace s0 as).sent = 4 := by
  refine ⟨by simp [Comp.Calm], by decide, by decide⟩

/-- non-vacuity: an entity marked on client 1, despawned on client 2 and on the host in the same frames -/
example :
    let s0 : Ent.State := { clients := [Ent.Client.mk 1 {} [] [] true, Ent.Client.mk 2 {} [] [] true] }
    let as : List Ent.Act := [.markC 1, .createdC 1, .pollH 1 1, .pollC 2 1, .despawnC 2, .despawnH, .removedC 2, .removedH,
      .pollH 2 1, .pollC 1 5, .pollC 2 5, .removedC 1]
    Ent.ops as = 3 ∧ (Ent.run s0 as).sent ≤ 3 * 3 ∧ (Ent.run s0 as).sent = 6 := by decide

/-- the set semantics of the debounce entries before their repair breaks the material bound: no publication, one message -/
example :
    let s0 : Mat.State := { clients := [Mat.Client.mk 1 {} [5, 6] [] []] }
    (Mat.run false s0 [.flushC 1, .flushC 1, .reactC 1, .reactC 1]).sent = 1 := by decide

end Global

variable {V : Type} [DecidableEq V] {ra : Bool}

/-- **self-quenching.** From a drained state, any number of further frames of any peers in any order
without application writes sends nothing and changes nothing (the state stays drained). -/
theorem C09_drained_stays_silent (x : Option V) (s : State V) (as : List (Act V)) (hc : Clean x s)
    (ha : ∀ a ∈ as, isWrite a = false) :
    Clean x (run ra false replace s as) ∧ (run ra false replace s as).sent = s.sent :=
  clean_run_silent x s as hc ha

/-- **no echo, the host writes.** In every reachable state no client has anything queued or in flight
towards the host: applying a change from the network never makes a client originate a message. -/
theorem C09_no_echo_host_epoch (s : State V) (as : List (Act V)) (hi : HInv s) (ha : ∀ a ∈ as, HostWrites a) :
    ∀ c ∈ (run ra false replace s as).clients, c.up = [] ∧ c.p.queue = [] := by
  intro c hcm
  have := (hinv_run (ra := ra) s as hi ha).1.2.2.2 c hcm
  exact ⟨this.1, this.2.1⟩

/-- **no echo, client `w` writes.** The host never queues a change of its own and no reader client
sends anything; the only traffic is writer → host and the host's relay to the others. -/
theorem C09_no_echo_client_epoch (w : Nat) (s : State V) (as : List (Act V)) (y : Option V) (hi : CInvL w y s)
    (ha : ∀ a ∈ as, ClientWrites w a) :
    (run ra false replace s as).host.queue = [] ∧
      ∀ c ∈ (run ra false replace s as).clients, c.id ≠ w → c.up = [] ∧ c.p.queue = [] := by
  have h := (cinvl_run (ra := ra) w s as y hi ha).1
  refine ⟨h.2.1, fun c hcm hne => ?_⟩
  have := (h.2.2.2.2 c hcm).2 hne
  exact ⟨this.1, this.2.1⟩

/-- **bounded work, the host writes.** However the frames interleave, an epoch sends at most
`N · (number of application writes)` messages (`N` clients): each write costs at most one message per client. -/
theorem C09_host_epoch_bounded (x : Option V) (s : State V) (as : List (Act V)) (hc : Clean x s)
    (ha : ∀ a ∈ as, HostWrites a) :
    (run ra false replace s as).sent ≤ s.sent + s.clients.length * writes as :=
  host_epoch_bounded x s as hc ha

/-- **bounded work, a client writes.** However the frames interleave, an epoch sends at most
`N · (number of application writes)` messages: each write costs at most one message to the host and one relay to each
of the other `N − 1` clients; the host and the readers originate nothing. -/
theorem C09_client_epoch_bounded (w : Nat) (x : Option V) (s : State V) (as : List (Act V))
    (hn : (s.clients.map (·.id)).Nodup) (hw : ∃ c ∈ s.clients, c.id = w) (hc : Clean x s)
    (ha : ∀ a ∈ as, ClientWrites w a) :
    (run ra false replace s as).sent ≤ s.sent + s.clients.length * writes as :=
  client_epoch_bounded w x s as hn hw hc ha

/-- … and once the epoch has drained, further frames send nothing -/
theorem C09_client_epoch_quenches (w : Nat) (x : Option V) (s : State V) (as more : List (Act V))
    (hn : (s.clients.map (·.id)).Nodup) (hw : ∃ c ∈ s.clients, c.id = w) (hc : Clean x s)
    (ha : ∀ a ∈ as, ClientWrites w a) (hq : Quiescent (run ra false replace s as))
    (hm : ∀ a ∈ more, isWrite a = false) :
    (run ra false replace (run ra false replace s as) more).sent = (run ra false replace s as).sent :=
  (clean_run_silent _ _ more (client_epoch_converges w x s as hn hw hc ha hq) hm).2

/-- non-vacuity, client writer: two writes by client 1 with two other clients cost six messages (2 up, 4 relayed) -/
example :
    let s0 : State Nat := { clients := [{ id := 1 }, { id := 2 }, { id := 3 }] }
    let as : List (Act Nat) := [.writeC 1 1, .detectC 1, .reactC 1, .writeC 1 2, .detectC 1, .reactC 1, .pollH 1 2, .flushH,
      .flushH, .detectH, .reactH, .pollC 2 2, .flushC 2, .flushC 2, .detectC 2, .reactC 2, .pollC 3 2, .flushC 3, .flushC 3,
      .detectC 3, .reactC 3]
    (run false false replace s0 as).sent = 6 := by decide

/-- **bounded work, uuid assets of the download classes.** A host-writer epoch sends at most `N` announcements per
publication; a client-writer epoch at most one announcement to the host and one relay to each other client; readers (and
the host of a client-writer epoch) announce nothing — applying a downloaded asset never makes a peer publish it. -/
theorem C09_asset_host_epoch_bounded (x : Option Nat) (s : Asset.State) (v : Nat) (as : List Asset.Act)
    (hs : Asset.Settled x s) (ha : ∀ a ∈ as, Asset.HostWrites a) :
    (Asset.run true false (Asset.step true false s (.publishH v)) as).sent ≤
      s.sent + s.clients.length * (1 + Asset.publishes as) :=
  Asset.host_epoch_bounded x s v as hs ha

theorem C09_asset_client_epoch_bounded (w : Nat) (hw0 : w ≠ 0) (x : Option Nat) (s : Asset.State) (v : Nat)
    (as : List Asset.Act) (hn : (s.clients.map (·.id)).Nodup) (hp : ∃ cw ∈ s.clients, cw.id = w)
    (hs : Asset.Settled x s) (ha : ∀ a ∈ as, Asset.ClientWrites w a) :
    (Asset.run true false (Asset.step true false s (.publishC w v)) as).sent ≤
      s.sent + (Asset.readers w s + 1) * (1 + Asset.publishes as) :=
  Asset.client_epoch_bounded w hw0 x s v as hn hp hs ha

/-- non-vacuity: two writes to two clients cost four messages, and idle frames afterwards none -/
example :
    let s0 : State Nat := { clients := [{ id := 1 }, { id := 2 }] }
    let as : List (Act Nat) := [.writeH 1, .detectH, .reactH, .writeH 2, .detectH, .reactH, .pollC 1 2, .flushC 1,
      .flushC 1, .detectC 1, .reactC 1, .pollC 2 2, .flushC 2, .flushC 2, .detectC 2, .reactC 2, .pollH 1 5, .flushH]
    (run false false replace s0 as).sent = 4 := by decide

end Props
end BevySync
