import BevySyncModel.Proofs.CompBound
import BevySyncModel.Proofs.AssetBound
import BevySyncModel.Generated.Sync
/-! # C09 — replication traffic is finite and self-quenching (component slice)

`sent` is a ghost counter of every message ever put on a channel. -/
namespace BevySync
namespace Props
open Comp

theorem C09_code_paths_tie :
    Generated.applySkipsOnToken = false ∧ Generated.applyIsPatch = false ∧ Generated.fixReinsertsValue = false := by
  decide

variable {V : Type} [DecidableEq V] {ra : Bool}

/-- **self-quenching.** From a drained state, any number of further frames of any peers in any order
without application writes sends nothing and changes nothing (the state stays drained). -/
theorem C09_drained_stays_silent (x : Option V) (s : State V) (as : List (Act V)) (hc : Clean x s)
    (ha : ∀ a ∈ as, isWrite a = false) :
    Clean x (run ra false replace s as) ∧ (run ra false replace s as).sent = s.sent :=
  clean_run_silent x s as hc ha

/-- **no echo, the host writes.** In every reachable state no client has anything queued or in flight
towards the host: applying a change from the network never makes a client originate a message. -/
theorem C09_no_echo_host_epoch (s : State V) (as : List (Act V)) (hi : HInv s) (ha : ∀ a ∈ as, HostWrites a) :
    ∀ c ∈ (run ra false replace s as).clients, c.up = [] ∧ c.p.queue = [] := by
  intro c hcm
  have := (hinv_run (ra := ra) s as hi ha).1.2.2.2 c hcm
  exact ⟨this.1, this.2.1⟩

/-- **no echo, client `w` writes.** The host never queues a change of its own and no reader client
sends anything; the only traffic is writer → host and the host's relay to the others. -/
theorem C09_no_echo_client_epoch (w : Nat) (s : State V) (as : List (Act V)) (y : Option V) (hi : CInvL w y s)
    (ha : ∀ a ∈ as, ClientWrites w a) :
    (run ra false replace s as).host.queue = [] ∧
      ∀ c ∈ (run ra false replace s as).clients, c.id ≠ w → c.up = [] ∧ c.p.queue = [] := by
  have h := (cinvl_run (ra := ra) w s as y hi ha).1
  refine ⟨h.2.1, fun c hcm hne => ?_⟩
  have := (h.2.2.2.2 c hcm).2 hne
  exact ⟨this.1, this.2.1⟩

/-- **bounded work, the host writes.** However the frames interleave, an epoch sends at most
`N · (number of application writes)` messages (`N` clients): each write costs at most one message per client. -/
theorem C09_host_epoch_bounded (x : Option V) (s : State V) (as : List (Act V)) (hc : Clean x s)
    (ha : ∀ a ∈ as, HostWrites a) :
    (run ra false replace s as).sent ≤ s.sent + s.clients.length * writes as :=
  host_epoch_bounded x s as hc ha

/-- **bounded work, a client writes.** However the frames interleave, an epoch sends at most
`N · (number of application writes)` messages: each write costs at most one message to the host and one relay to each
of the other `N − 1` clients; the host and the readers originate nothing. -/
theorem C09_client_epoch_bounded (w : Nat) (x : Option V) (s : State V) (as : List (Act V))
    (hn : (s.clients.map (·.id)).Nodup) (hw : ∃ c ∈ s.clients, c.id = w) (hc : Clean x s)
    (ha : ∀ a ∈ as, ClientWrites w a) :
    (run ra false replace s as).sent ≤ s.sent + s.clients.length * writes as :=
  client_epoch_bounded w x s as hn hw hc ha

/-- … and once the epoch has drained, further frames send nothing -/
theorem C09_client_epoch_quenches (w : Nat) (x : Option V) (s : State V) (as more : List (Act V))
    (hn : (s.clients.map (·.id)).Nodup) (hw : ∃ c ∈ s.clients, c.id = w) (hc : Clean x s)
    (ha : ∀ a ∈ as, ClientWrites w a) (hq : Quiescent (run ra false replace s as))
    (hm : ∀ a ∈ more, isWrite a = false) :
    (run ra false replace (run ra false replace s as) more).sent = (run ra false replace s as).sent :=
  (clean_run_silent _ _ more (client_epoch_converges w x s as hn hw hc ha hq) hm).2

/-- non-vacuity, client writer: two writes by client 1 with two other clients cost six messages (2 up, 4 relayed) -/
example :
    let s0 : State Nat := { clients := [{ id := 1 }, { id := 2 }, { id := 3 }] }
    let as : List (Act Nat) := [.writeC 1 1, .detectC 1, .reactC 1, .writeC 1 2, .detectC 1, .reactC 1, .pollH 1 2, .flushH,
      .flushH, .detectH, .reactH, .pollC 2 2, .flushC 2, .flushC 2, .detectC 2, .reactC 2, .pollC 3 2, .flushC 3, .flushC 3,
      .detectC 3, .reactC 3]
    (run false false replace s0 as).sent = 6 := by decide

/-- **bounded work, uuid assets of the download classes.** A host-writer epoch sends at most `N` announcements per
publication; a client-writer epoch at most one announcement to the host and one relay to each other client; readers (and
the host of a client-writer epoch) announce nothing — applying a downloaded asset never makes a peer publish it. -/
theorem C09_asset_host_epoch_bounded (x : Option Nat) (s : Asset.State) (v : Nat) (as : List Asset.Act)
    (hs : Asset.Settled x s) (ha : ∀ a ∈ as, Asset.HostWrites a) :
    (Asset.run true false (Asset.step true false s (.publishH v)) as).sent ≤
      s.sent + s.clients.length * (1 + Asset.publishes as) :=
  Asset.host_epoch_bounded x s v as hs ha

theorem C09_asset_client_epoch_bounded (w : Nat) (hw0 : w ≠ 0) (x : Option Nat) (s : Asset.State) (v : Nat)
    (as : List Asset.Act) (hn : (s.clients.map (·.id)).Nodup) (hp : ∃ cw ∈ s.clients, cw.id = w)
    (hs : Asset.Settled x s) (ha : ∀ a ∈ as, Asset.ClientWrites w a) :
    (Asset.run true false (Asset.step true false s (.publishC w v)) as).sent ≤
      s.sent + (Asset.readers w s + 1) * (1 + Asset.publishes as) :=
  Asset.client_epoch_bounded w hw0 x s v as hn hp hs ha

/-- non-vacuity: two writes to two clients cost four messages, and idle frames afterwards none -/
example :
    let s0 : State Nat := { clients := [{ id := 1 }, { id := 2 }] }
    let as : List (Act Nat) := [.writeH 1, .detectH, .reactH, .writeH 2, .detectH, .reactH, .pollC 1 2, .flushC 1,
      .flushC 1, .detectC 1, .reactC 1, .pollC 2 2, .flushC 2, .flushC 2, .detectC 2, .reactC 2, .pollH 1 5, .flushH]
    (run false false replace s0 as).sent = 4 := by decide

end Props
end BevySync
