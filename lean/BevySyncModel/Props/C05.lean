import BevySyncModel.Proofs.CompWork
import BevySyncModel.Proofs.Hier
import BevySyncModel.Proofs.CompLive
import BevySyncModel.Generated.Sync
import BevySyncModel.Generated.Snap
import BevySyncModel.Proofs.World
/-! # C05 — parent-child links between synchronized entities converge

The link of one child is replicated by the same mechanism as a component value (debounce token,
change detection, host relay); the slice is `Slice/Comp.lean` with `relayAlways = true` (the host relays a
received `EntityParented` whether or not it changed anything) and `entity_parented_on_*` = `detect`
immediately followed by `react`, which is one of the interleavings the theorems quantify over.
The value is the parent's uuid.  What `set_parent` + `add_child` do to `Parent`/`Children` is `Slice/Hier.lean`. -/
namespace BevySync
namespace Props
open Comp

/-- (tie) regenerated from both `receiver.rs` and both `track.rs`: token filed on apply and consumed on
announce at all four sites (D3 repaired), unconditional relay on the host, `set_parent; add_child` only
when the link differs -/
theorem C05_code_tie :
    Generated.parentDebounced = true ∧ Generated.parentRelayAlways = true ∧ Generated.parentHandlerPair = true := by
  decide

variable {V : Type} [DecidableEq V]

/-- **C05, convergence.** Re-parenting operations on one child by different peers at different times
(any two writers separated by a drain; one writer may re-parent in consecutive frames, bursts included):
after the last one every peer has the child under the replica of the same parent. Any number of clients,
every interleaving. -/
theorem C05_links_converge (x : Option V) (s : State V) (es : List (Epoch V))
    (hn : (s.clients.map (·.id)).Nodup) (hc : Clean x s) (hok : EpochsOk true s es) :
    Clean (lastWrittenEpochs x es) (runEpochs true s es) :=
  epochs_converge x s es hn hc hok

/-- **C05, one epoch, without assuming the drain** (unconditional host relay): after any interleaving in which one peer —
the host, or client `w` — re-parents a child any number of times, three fair rounds without further operations leave every
peer with the last link and nothing pending; and from any state whatsoever three such rounds end quiescent -/
theorem C05_host_epoch_total (x : Option V) (s : State V) (as : List (Act V)) (hc : Clean x s)
    (ha : ∀ a ∈ as, HostWrites a) :
    ∃ more : List (Act V), (∀ a ∈ more, isWrite a = false) ∧
      Clean (lastWritten x as) (run true false replace (run true false replace s as) more) :=
  host_epoch_total x s as hc ha

theorem C05_client_epoch_total (w : Nat) (x : Option V) (s : State V) (as : List (Act V))
    (hn : (s.clients.map (·.id)).Nodup) (hw : ∃ c ∈ s.clients, c.id = w) (hc : Clean x s)
    (ha : ∀ a ∈ as, ClientWrites w a) :
    ∃ more : List (Act V), (∀ a ∈ more, isWrite a = false) ∧
      Clean (lastWritten x as) (run true false replace (run true false replace s as) more) :=
  client_epoch_total w x s as hn hw hc ha

theorem C05_quiescent_within_three_rounds (s : State V) :
    Quiescent (round (ra := true) replace (round (ra := true) replace (round (ra := true) replace s))) :=
  three_rounds_quiescent replace s

/-- **C05, termination.** Once drained, no further frame of any peer sends anything; while the host
re-parents, clients never answer (no echo) and at most N messages leave per operation; while a client
re-parents, neither the host nor the other clients originate anything (the host only relays). -/
theorem C05_exchange_terminates (x : Option V) (s : State V) (as : List (Act V)) (hc : Clean x s)
    (ha : ∀ a ∈ as, isWrite a = false) :
    Clean x (run true false replace s as) ∧ (run true false replace s as).sent = s.sent :=
  clean_run_silent x s as hc ha

theorem C05_host_epoch_bounded (x : Option V) (s : State V) (as : List (Act V)) (hc : Clean x s)
    (ha : ∀ a ∈ as, HostWrites a) :
    (run true false replace s as).sent ≤ s.sent + s.clients.length * writes as :=
  host_epoch_bounded x s as hc ha

theorem C05_no_echo_client_epoch (w : Nat) (s : State V) (as : List (Act V)) (y : Option V) (hi : CInvL w y s)
    (ha : ∀ a ∈ as, ClientWrites w a) :
    (run true false replace s as).host.queue = [] ∧
      ∀ c ∈ (run true false replace s as).clients, c.id ≠ w → c.up = [] ∧ c.p.queue = [] := by
  have h := (cinvl_run (ra := true) w s as y hi ha).1
  exact ⟨h.2.1, fun c hcm hne => ⟨((h.2.2.2.2 c hcm).2 hne).1, ((h.2.2.2.2 c hcm).2 hne).2.1⟩⟩

/-- **listed exactly once, under no other parent.** What both handlers do to the hierarchy keeps it
well formed (`child ∈ children p ↔ parent child = p`, no duplicates), whatever it was before. -/
theorem C05_hierarchy_wf (h : Hier.H) (p c : Nat) (hw : Hier.WF h) : Hier.WF (Hier.applyParented h p c) :=
  Hier.applyParented_wf h p c hw

theorem C05_child_listed_once (h : Hier.H) (p c : Nat) (hw : Hier.WF h) :
    (Hier.applyParented h p c).par c = some p ∧ ((Hier.applyParented h p c).ch p).count c = 1 ∧
    ∀ q, q ≠ p → c ∉ (Hier.applyParented h p c).ch q :=
  Hier.applyParented_spec h p c hw

/-- the repaired defect stays machine-checked: without the token (`legacy`-style echo is modelled by the
absence of any debounce) two consecutive re-parents ping-pong — here the witness is the real trace in
`corpus/witness_unfixed_parents.json`; on the model the debounced run of the same history drains: -/
example :
    let s0 : State Nat := { host := { val := some 1 }, clients := [{ id := 1, p := { val := some 1 } }] }
    let as : List (Act Nat) :=
      [.writeC 1 2, .detectC 1, .reactC 1, .writeC 1 3, .detectC 1, .reactC 1, .pollH 1 2, .flushH, .flushH,
       .detectH, .reactH, .pollC 1 5, .detectC 1, .reactC 1]
    (run true false replace s0 as).host.val = some 3 ∧ (run true false replace s0 as).sent = 2 ∧
      ((run true false replace s0 as).clients.map (fun c => (c.p.val, c.up, c.down))) = [(some 3, [], [])] := by
  decide

/-- non-vacuity for the hierarchy: moving a child between parents -/
example :
    let h1 := Hier.applyParented Hier.empty 10 1
    let h2 := Hier.applyParented h1 20 1
    h2.par 1 = some 20 ∧ h2.ch 20 = [1] ∧ h2.ch 10 = [] := by decide

/-- **chains, fan-out, moves between parents — any sequence.** A peer's hierarchy after a history is the fold of the
link operations it carried out (`set_parent; add_child` each). Whatever the sequence, the hierarchy stays well formed,
and a child named by some operation ends under the parent of the *last* operation naming it, listed there exactly
once and under no other parent. -/
theorem C05_any_sequence_wf (h : Hier.H) (ops : List (Nat × Nat)) (hw : Hier.WF h) :
    Hier.WF (Hier.applyAll h ops) :=
  Hier.applyAll_wf h ops hw

theorem C05_any_sequence_last_wins (h : Hier.H) (ops : List (Nat × Nat)) (hw : Hier.WF h) (c p : Nat)
    (hl : Hier.lastOp c ops none = some p) :
    (Hier.applyAll h ops).par c = some p ∧ ((Hier.applyAll h ops).ch p).count c = 1 ∧
    ∀ q, q ≠ p → c ∉ (Hier.applyAll h ops).ch q :=
  Hier.applyAll_last h ops hw c p hl

/-- **two peers, different orders.** Peers carry out the operations of different children in different orders (only
the per-child order is common to them: `C10`, `Proofs/CompOrder`). If they started with the same links and the last
operation naming each child is the same on both, they end with the same `Parent` for every child and the same
`Children` membership — each child exactly once under its parent, nowhere else — on both. -/
theorem C05_any_order_same_links (h1 h2 : Hier.H) (ops1 ops2 : List (Nat × Nat)) (hw1 : Hier.WF h1)
    (hw2 : Hier.WF h2) (hp : ∀ c, h1.par c = h2.par c)
    (hl : ∀ c, Hier.lastOp c ops1 none = Hier.lastOp c ops2 none) :
    (∀ c, (Hier.applyAll h1 ops1).par c = (Hier.applyAll h2 ops2).par c) ∧
    ∀ c q, ((Hier.applyAll h1 ops1).ch q).count c = ((Hier.applyAll h2 ops2).ch q).count c ∧
      ((Hier.applyAll h1 ops1).ch q).count c = if (Hier.applyAll h1 ops1).par c = some q then 1 else 0 :=
  Hier.applyAll_agree h1 h2 ops1 ops2 hw1 hw2 hp hl

/-- non-vacuity: a chain (3 under 2 under 1), a fan-out (4, 5 under 1) and a move (3 to 1), carried out in two
different orders by two peers — same links, different `Children` order -/
example :
    let a := Hier.applyAll Hier.empty [(1, 2), (2, 3), (1, 4), (1, 5), (1, 3)]
    let b := Hier.applyAll Hier.empty [(1, 5), (2, 3), (1, 3), (1, 4), (1, 2)]
    a.ch 1 = [2, 4, 5, 3] ∧ b.ch 1 = [5, 3, 4, 2] ∧ a.ch 2 = [] ∧ b.ch 2 = [] ∧
    (∀ c ∈ [2, 3, 4, 5], a.par c = some 1 ∧ b.par c = some 1) ∧
    (∀ c ∈ [1, 2, 3, 4, 5], Hier.lastOp c [(1, 2), (2, 3), (1, 4), (1, 5), (1, 3)] none =
      Hier.lastOp c [(1, 5), (2, 3), (1, 3), (1, 4), (1, 2)] none) := by decide

/-- **what a peer really carries out**: local `set_parent`s (one unguarded `add_child`) mixed with handled
`EntityParented` messages (`set_parent; add_child` only when the link differs — the guard is one of `C05_code_tie`'s
facts). Whatever the mix and the order, the hierarchy stays well formed, and two peers whose histories agree on the last
operation per child — what one did locally the other handled as a message — end with the same links, every child
exactly once under its parent and nowhere else. -/
theorem C05_mixed_history_wf (h : Hier.H) (ops : List (Bool × Nat × Nat)) (hw : Hier.WF h) :
    Hier.WF (Hier.runOps h ops) :=
  Hier.runOps_wf h ops hw

theorem C05_mixed_histories_same_links (h1 h2 : Hier.H) (ops1 ops2 : List (Bool × Nat × Nat))
    (hw1 : Hier.WF h1) (hw2 : Hier.WF h2) (hp : ∀ c, h1.par c = h2.par c)
    (hl : ∀ c, Hier.lastOp c (ops1.map (·.2)) none = Hier.lastOp c (ops2.map (·.2)) none) :
    (∀ c, (Hier.runOps h1 ops1).par c = (Hier.runOps h2 ops2).par c) ∧
    ∀ c q, ((Hier.runOps h1 ops1).ch q).count c = ((Hier.runOps h2 ops2).ch q).count c ∧
      ((Hier.runOps h1 ops1).ch q).count c = if (Hier.runOps h1 ops1).par c = some q then 1 else 0 :=
  Hier.runOps_agree h1 h2 ops1 ops2 hw1 hw2 hp hl

/-- a message delivered twice (the relay's echo, a snapshot pair repeating a live message) changes nothing the second
time: the guard leaves `Parent` untouched, so no `Changed<Parent>` and no further announcement -/
theorem C05_repeated_message_is_noop (h : Hier.H) (p c : Nat) :
    Hier.handle (Hier.handle h p c) p c = Hier.handle h p c :=
  Hier.handle_idem h p c

/-- non-vacuity: the writer's local operations against the reader's handled messages, children in another order, one
message repeated -/
example :
    let a := Hier.runOps Hier.empty [(false, 1, 2), (false, 2, 3), (false, 1, 3), (false, 1, 2)]
    let b := Hier.runOps Hier.empty [(true, 2, 3), (true, 1, 2), (true, 1, 3), (true, 1, 3), (true, 1, 2)]
    a.ch 1 = [3, 2] ∧ b.ch 1 = [2, 3] ∧ a.par 2 = some 1 ∧ b.par 2 = some 1 ∧ a.par 3 = some 1 ∧ b.par 3 = some 1 ∧
    a.ch 2 = [] ∧ b.ch 2 = [] := by decide

/-- a move disturbs nothing else: in every `Children` list the other children keep their places and their order (the
lists with the moved child taken out are the same before and after) -/
theorem C05_move_keeps_sibling_order (h : Hier.H) (p c q : Nat) :
    ((Hier.addChild h p c).ch q).filter (· != c) = (h.ch q).filter (· != c) :=
  Hier.addChild_siblings_keep_order h p c q

/-- (tie) hierarchies in the joining snapshot: parent pairs are listed after every entity, for pairs of tracked entities only,
and the joiner drops a pair only when it does not know one of the two -/
theorem C05_snapshot_links_tie :
    Generated.snapBuildOrder = true ∧ Generated.snapParentsOfKnownPairs = true ∧
    Generated.snapClientIgnoresUnknownEntity = true := by decide

/-- **hierarchies delivered through the joining snapshot** (`Slice/World.lean`): whatever the archetypes and their order —
a child may be listed long before its parent — the joiner has every child under the host's parent and no link the host does
not have; a returning client gets every link the host lists -/
theorem C05_snapshot_links (w : WorldSnap.World) (hw : WorldSnap.WF w) :
    ∀ e ∈ WorldSnap.allEnts w, WorldSnap.getParent (WorldSnap.applyAll {} (WorldSnap.snapshot w)) e.uuid = e.parent :=
  (WorldSnap.snapshot_rebuilds w hw).2.2

theorem C05_snapshot_links_returning (w : WorldSnap.World) (hw : WorldSnap.WF w) (c0 : WorldSnap.Client) :
    ∀ e ∈ WorldSnap.allEnts w, ∀ p, e.parent = some p →
      WorldSnap.getParent (WorldSnap.applyAll c0 (WorldSnap.snapshot w)) e.uuid = some p :=
  (WorldSnap.snapshot_on_returning w hw c0).2.2

end Props
end BevySync
