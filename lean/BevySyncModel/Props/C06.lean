import BevySyncModel.Proofs.Asset
import BevySyncModel.Proofs.Mat
import BevySyncModel.Proofs.MatLive
import BevySyncModel.Proofs.AssetLive
import BevySyncModel.Generated.Asset
import BevySyncModel.Generated.Http
/-! # C06 — assets published under a uuid replicate with identical content

Two slices: `Slice/Asset.lean` for the classes that travel by announcement + HTTP download (mesh,
image, audio) and `Slice/Mat.lean` for `StandardMaterial`, which travels inline.  Content is an
abstract value; that the bytes of a mesh / image / material survive encoding, the HTTP hop and decoding
unchanged is C11 / C13 / C12 / C14, proved separately.  A writer epoch = one peer publishes and overwrites
the uuid as often and as fast as it likes while every reaction, delivery, download and application is
scheduled arbitrarily; another peer may take over once the traffic has drained. -/
namespace BevySync
namespace Props

/-- (tie) regenerated from `lib_priv.rs`, `networking/assets/mod.rs`, both `track.rs` and both `receiver.rs`:
debounce entries are counted (D6 repaired), a download is queued whether or not this peer serves the uuid
itself (mesh shortcut repaired), the worker stores what it fetched into the uuid's slot — after the whole body has arrived and only if no newer request for the
uuid was made meanwhile (the model's `fetch` is one action) —, `process_*` files
one entry per applied download, `react_*` = debounce, serve, announce, both receivers request and the host
relays; `serve_*` overwrites (`Generated.httpServeOverwrites`); materials travel inline -/
theorem C06_code_tie :
    Generated.assetTokensCounted = true ∧ Generated.assetRequestSkipsServed = false ∧
    Generated.assetWorkerStoresIntoSlot = true ∧ Generated.assetNewestRequestWins = true ∧
    Generated.assetProcessFilesToken = true ∧
    Generated.assetReactDebounceServeAnnounce = true ∧ Generated.assetReceiversRequestAndRelay = true ∧
    Generated.assetMaterialInlinePath = true ∧ Generated.httpServeOverwrites = true := by
  decide

/-- **C06, downloadable classes.** Any sequence of writer epochs — host→clients, client→host→clients, the
writer changing between epochs, any number of overwrites per epoch, any number of clients, every timing of
the downloads relative to everything else: once the traffic has drained every peer holds the content of the
last publication under the uuid, and no debounce entry, download or slot is left over. -/
theorem C06_assets_converge (x : Option Nat) (s : Asset.State) (es : List Asset.Epoch)
    (hn : (s.clients.map (·.id)).Nodup) (hs : Asset.Settled x s) (hok : Asset.EpochsOk s es) :
    Asset.Settled (Asset.finalContent x es) (Asset.runEpochs s es) :=
  Asset.epochs_converge x s es hn hs hok

/-- one epoch, spelled out: the content everybody ends up with is the writer's last publication -/
theorem C06_epoch_last_publication (x : Option Nat) (s : Asset.State) (e : Asset.Epoch)
    (hn : (s.clients.map (·.id)).Nodup) (hs : Asset.Settled x s) (hd : e.disciplined)
    (hp : e.writer = 0 ∨ ∃ c ∈ s.clients, c.id = e.writer) (hq : Asset.Quiescent (e.run s)) :
    (e.run s).host.content = e.last ∧ ∀ c ∈ (e.run s).clients, c.p.content = e.last := by
  have h := Asset.epoch_converges x s e hn hs hd hp hq
  exact ⟨h.1.1, fun c hc => (h.2 c hc).1.1⟩

/-- **no echo.** While the host is the writer no client ever announces anything, and the host never
downloads; while client `w` is the writer nobody else announces (the host only relays). -/
theorem C06_no_echo_host_epoch (s : Asset.State) (as : List Asset.Act) (hi : Asset.HInv s)
    (ha : ∀ a ∈ as, Asset.HostWrites a) :
    ∀ c ∈ (Asset.run true false s as).clients, c.up = [] ∧ c.p.tokens = c.p.events := by
  intro c hc
  have h := (Asset.hinv_run s as hi ha).2 c hc
  exact ⟨h.1, h.2.1⟩

/-- **download classes: "once traffic has drained" is reached, not assumed** — from any state with distinct client ids, three
fair rounds without publications (every queued download completing, with whatever its owner serves then) end in a
quiescent state: the premise of `C06_assets_converge` -/
theorem C06_assets_drain_reached (s : Asset.State) (hn : (s.clients.map (·.id)).Nodup) :
    Asset.Quiescent (Asset.round (Asset.round (Asset.round s))) :=
  Asset.three_rounds_quiescent s hn

/-- **C06, download classes, one epoch, without assuming the drain**: after the publications of one writer (host or any
client, any number of overwrites), under any schedule of reactions, receptions, downloads and applications, there is a
continuation without publications — three fair rounds — after which every peer holds the last publication and nothing is
pending -/
theorem C06_asset_epoch_total (x : Option Nat) (s : Asset.State) (e : Asset.Epoch) (hn : (s.clients.map (·.id)).Nodup)
    (hs : Asset.Settled x s) (hd : e.disciplined) (hp : e.writer = 0 ∨ ∃ c ∈ s.clients, c.id = e.writer) :
    ∃ more : List Asset.Act, (∀ a ∈ more, Asset.isPublish a = false) ∧
      Asset.Settled e.last (Asset.run true false (e.run s) more) :=
  Asset.epoch_total x s e hn hs hd hp

/-- **C06, inline materials, one epoch, without assuming the drain**: after the publications of one writer (host or any
client, any number of overwrites, any schedule) there is a continuation without publications — three fair rounds — after
which every peer holds the last publication and nothing is pending -/
theorem C06_material_epoch_total (x : Option Nat) (s : Mat.State) (e : Mat.Epoch) (hn : (s.clients.map (·.id)).Nodup)
    (hs : Mat.Settled x s) (hd : e.disciplined) (hp : e.writer = 0 ∨ ∃ c ∈ s.clients, c.id = e.writer) :
    ∃ more : List Mat.Act, (∀ a ∈ more, Mat.isPub a = false) ∧ Mat.Settled e.last (Mat.run true (e.run s) more) :=
  Mat.epoch_total x s e hn hs hd hp

/-- **inline materials: "once traffic has drained" is reached, not assumed** — from any state with distinct client ids,
three fair rounds without publications end in a quiescent state (the premise of the convergence theorem below) -/
theorem C06_materials_drain_reached (s : Mat.State) (hn : (s.clients.map (·.id)).Nodup) :
    Mat.Quiescent (Mat.round (Mat.round (Mat.round s))) :=
  Mat.three_rounds_quiescent s hn

/-- **C06, materials.** The same statement for the inline path. -/
theorem C06_materials_converge (x : Option Nat) (s : Mat.State) (es : List Mat.Epoch)
    (hn : (s.clients.map (·.id)).Nodup) (hs : Mat.Settled x s) (hok : Mat.EpochsOk s es) :
    Mat.Settled (Mat.finalContent x es) (Mat.runEpochs s es) :=
  Mat.epochs_converge x s es hn hs hok

/-! ## non-vacuity and the repaired defects -/

/-- host publishes 5 and overwrites with 6 while the first download is under way; then client 2 takes over:
both epochs are disciplined and end drained, and everybody holds 9 -/
example :
    let s0 : Asset.State := { clients := [{ id := 1 }, { id := 2 }] }
    let e1 : Asset.Epoch := ⟨0, 5, [.reactH, .pollC 1, .publishH 6, .fetchC 1, .processC 1, .reactC 1, .reactH,
      .pollC 1, .pollC 2, .pollC 2, .fetchC 2, .fetchC 2, .processC 2, .reactC 2, .fetchC 1, .processC 1, .reactC 1]⟩
    let e2 : Asset.Epoch := ⟨2, 9, [.reactC 2, .pollH 2, .fetchH, .processH, .reactH, .pollC 1, .fetchC 1, .processC 1, .reactC 1]⟩
    Asset.Quiescent (e1.run s0) ∧ Asset.Quiescent (e2.run (e1.run s0)) ∧
    (Asset.runEpochs s0 [e1, e2]).host.content = some 9 ∧
    (Asset.runEpochs s0 [e1, e2]).clients.map (·.p.content) = [some 9, some 9] ∧
    Asset.finalContent none [e1, e2] = some 9 := by
  decide

/-- D6 (repaired): with set-valued debounce entries (`countTokens = false`) two downloads applied before the
reaction system runs once leave an unmatched event, and the reader announces the asset itself -/
example :
    let s0 : Asset.State := { clients := [{ id := 1 }] }
    let as : List Asset.Act := [.publishH 5, .reactH, .pollC 1, .fetchC 1, .processC 1, .publishH 6, .reactH, .pollC 1,
      .fetchC 1, .processC 1, .reactC 1, .reactC 1]
    (Asset.run false false s0 as).clients.map (·.up) = [[1]] ∧
    (Asset.run true false s0 as).clients.map (·.up) = [[]] := by
  decide

/-- the mesh shortcut (repaired): with `skipServed = true` the first publisher never downloads what another
peer publishes under the same uuid afterwards; the repaired model does -/
example :
    let s0 : Asset.State := { clients := [{ id := 1 }] }
    let as : List Asset.Act := [.publishH 5, .reactH, .pollC 1, .fetchC 1, .processC 1, .reactC 1,
      .publishC 1 7, .reactC 1, .pollH 1, .fetchH, .processH, .reactH]
    (Asset.run true true s0 as).host.content = some 5 ∧ Asset.Quiescent (Asset.run true true s0 as) ∧
    (Asset.run true false s0 as).host.content = some 7 := by
  decide

/-- materials: client 1 publishes twice in a burst, the host relays to client 2 -/
example :
    let s0 : Mat.State := { clients := [{ id := 1 }, { id := 2 }] }
    let e : Mat.Epoch := ⟨1, 3, [.publishC 1 4, .reactC 1, .reactC 1, .pollH 1, .pollH 1, .flushH, .flushH, .reactH, .reactH,
      .pollC 2, .pollC 2, .flushC 2, .flushC 2, .reactC 2, .reactC 2]⟩
    Mat.Quiescent (e.run s0) ∧ (e.run s0).host.content = some 4 ∧
    (e.run s0).clients.map (·.p.content) = [some 4, some 4] ∧ e.last = some 4 := by
  decide

end Props
end BevySync
