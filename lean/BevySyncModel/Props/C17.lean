import BevySyncModel.Proofs.Fix
import BevySyncModel.Props.C02
import BevySyncModel.Generated.Sync
import BevySyncModel.Generated.Fix
/-! # C17 — replicated render components receive their engine companions -/
namespace BevySync
namespace Props
open Fix

/-- (tie) the nine fix systems as regenerated from `bundle_fix.rs` — which kind each watches (`Added<K>`),
which companions it requires absent (`Without<C>`) and which it inserts — are the model's table, and
none of them re-inserts the replicated value (D8 repaired) -/
theorem C17_systems_tie :
    Generated.fixSystems = systems ∧
    Generated.fixReinsertsValue = false := by decide

/-- **within a frame, whatever the order of the nine unordered systems**: once kind `k` has landed on an
entity lacking the companions a system of that kind supplies, one frame later they are present -/
theorem C17_adds_within_a_frame (order : List Nat) (e : Ent) (i : Nat) (s : Sys) (hs : sysAt i = some s)
    (hi : i ∈ order) (hadd : e.added i = true) (hval : (e.val s.kind).isSome = true)
    (habs : ∀ c ∈ s.without, e.has c = false) :
    ∀ c ∈ s.inserts, (run false e (frame order)).has c = true :=
  fix_adds_within_a_frame order e i s hs hi hadd hval habs

/-- **without changing the replicated value**: no sequence of fix-system runs, flushes and companion
additions — in any order, over any number of frames — changes any replicated value or raises a change
for it (so nothing is echoed and the component slice's convergence theorem applies unchanged) -/
theorem C17_value_untouched (e : Ent) (as : List Act) (hq : OnlyCompanions e.queue)
    (hno : ∀ a ∈ as, ∀ k v, a ≠ .arrive k v) :
    (run false e as).val = e.val ∧ (run false e as).changed = e.changed :=
  ⟨(fix_value_untouched e as hq hno).1, (fix_value_untouched e as hq hno).2.1⟩

/-- **already present companions are left alone**: a system whose companions are all there does not fire -/
theorem C17_existing_untouched (e : Ent) (i : Nat) (s : Sys) (hs : sysAt i = some s) (hc : s.without ≠ [])
    (hpres : ∀ c ∈ s.without, e.has c = true) :
    (step false e (.runSys i)).queue = e.queue := by
  simp only [step, hs]
  have hall : s.without.all (fun c => !e.has c) = false := by
    cases hw : s.without with
    | nil => exact absurd hw hc
    | cons c rest => simp [hpres c (by simp [hw])]
  simp [hall]

/-- **idempotent**: a system that has run does not fire again until the kind is added anew -/
theorem C17_idempotent (e : Ent) (i : Nat) :
    (step false (step false e (.runSys i)) (.runSys i)).queue = (step false e (.runSys i)).queue := by
  cases hs : sysAt i with
  | none => simp only [step, hs]
  | some s => simp [step, hs]

/-- **convergence is not disturbed**: the replicated value of a kind with companions obeys the component
slice; its theorem is `C02_epochs` — fix steps are invisible to it by `C17_value_untouched` -/
theorem C17_convergence {V : Type} [DecidableEq V] (x : Option V) (s : Comp.State V) (es : List (Comp.Epoch V))
    (hn : (s.clients.map (·.id)).Nodup) (hc : Comp.Clean x s) (hok : Comp.EpochsOk ra s es) :
    Comp.Clean (Comp.lastWrittenEpochs x es) (Comp.runEpochs ra s es) :=
  C02_epochs x s es hn hc hok

/-- the repaired defect stays machine-checked: with the value re-insert a newer value that lands between
the system run and the flush is overwritten by the stale one -/
theorem C17_false_with_value_reinsert :
    ((run true {} [.arrive .transform 1, .runSys 1, .arrive .transform 2, .flush]).val .transform) = some 1 ∧
    ((run false {} [.arrive .transform 1, .runSys 1, .arrive .transform 2, .flush]).val .transform) = some 2 := by
  decide

/-- non-vacuity: a point light and a visibility land in one frame; after one frame in a scrambled order
all four companions are there and the values are untouched -/
example :
    let e := run false {} ([.arrive .pointLight 5, .arrive .visibility 1] ++ frame [8, 3, 0, 5, 2, 1, 7, 6, 4])
    (companionsOf .pointLight ++ companionsOf .visibility).all e.has = true ∧ e.val .pointLight = some 5 ∧
      e.val .visibility = some 1 ∧ e.overwrites = 0 := by decide

end Props
end BevySync
