import BevySyncModel.Slice.Panic
import BevySyncModel.Generated.Guards
/-! # C08 — no peer crashes on traffic a conforming peer can send -/
namespace BevySync
namespace Props
open Panic

/-- (tie) the guards read off `lib_priv.rs`, `binreflect.rs` and both `receiver.rs` on this run, and
the static scan: no `world.entity(..)` / `entity_mut(..)` in the message handlers that is not
dominated by a `get_entity` of the same entity, no `unwrap`/`expect` on wire data in `bin_to_reflect`, and entity references
inside a payload (the joints of a `SkinnedMesh`) are looked up and skipped when unknown -/
theorem C08_guards_tie :
    (⟨Generated.guardApplyLooksUp, Generated.guardClientParentLooksUp, Generated.guardServerParentLooksUp,
      Generated.guardDecodeTotal⟩ : Guards) = Guards.all ∧
    Generated.unguardedEntityAccesses = 0 ∧ Generated.binToReflectUnwraps = 0 ∧
    Generated.guardSkinnedJointsLookUp = true := by decide

/-- every closure is total on every world -/
theorem C08_step_total (w : World) (s : Step) : ∃ w', step Guards.all w s = .ok w' := by
  cases s <;> simp [step, Guards.all] <;> (repeat' split) <;> simp

/-- **C08.** With the guards in place, for every initial world and every sequence of handler closures
(all twelve message kinds, targets unknown / despawned between frames / despawned in this very frame,
parents missing, types the receiver cannot decode) interleaved in any way with application despawns,
no step panics: the whole end-of-frame flush completes. -/
theorem C08_handlers_total (w : World) (steps : List Step) : ∃ w', runAll Guards.all w steps = .ok w' := by
  induction steps generalizing w with
  | nil => exact ⟨w, rfl⟩
  | cons s rest ih =>
    obtain ⟨w1, h1⟩ := C08_step_total w s
    obtain ⟨w2, h2⟩ := ih w1
    exact ⟨w2, by simp only [runAll, h1, h2]⟩

/-- a message about a vanished entity is ignored: the world is left as it was -/
theorem C08_ignored_when_meaningless (w : World) (e p : Nat) (d ch : Bool) (he : has w e = false) :
    step Guards.all w (.applyComp e d) = .ok w ∧ step Guards.all w (.setParentC e p ch) = .ok w ∧
    step Guards.all w (.setParentH e p ch) = .ok w := by
  refine ⟨?_, rfl, ?_⟩
  · simp only [step, Guards.all, he]; cases d <;> rfl
  · simp only [step, he]; rfl

/-! each guard is necessary: without it a conforming history panics (the defects repaired by the
`fix:` commits for same-frame despawns and undecodable updates) -/
theorem C08_false_without_apply_lookup :
    runAll { Guards.all with applyLooksUp := false } [7] [.appDespawn 7, .applyComp 7 true] = .error (.missingEntity 7) := by
  decide
theorem C08_false_without_client_parent_lookup :
    runAll { Guards.all with clientParentLooksUp := false } [1, 2] [.appDespawn 2, .setParentC 1 2 true]
      = .error (.missingEntity 2) := by decide
theorem C08_false_without_server_parent_lookup :
    runAll { Guards.all with serverParentLooksUp := false } [1, 2] [.appDespawn 2, .setParentH 1 2 true]
      = .error (.missingEntity 2) := by decide
theorem C08_false_without_total_decode :
    runAll { Guards.all with decodeTotal := false } [1] [.applyComp 1 false] = .error .unwrapNone := by decide

/-- non-vacuity: a flush with every kind of step, including the dangerous ones, completes -/
example : runAll Guards.all [1, 2, 3]
    [.spawnCmd 4, .appDespawn 2, .applyComp 2 true, .applyComp 9 false, .setParentC 1 2 true, .setParentH 3 2 true,
     .despawnCmd 2, .despawnCmd 2, .applyMaterial false, .inert] = .ok [4, 1, 3] := by decide

end Props
end BevySync
