import BevySyncModel.Proofs.Mesh
import BevySyncModel.Generated.MeshData
/-! # C11 — mesh wire encoding is lossless for supported mesh data

Property theorems only; helper lemmas live in `Proofs/`. -/
namespace BevySync
namespace Props
open Wire Codec

/-- (tie) the `MeshData` descriptor regenerated from `mesh_serde.rs` is the one the model encodes with -/
theorem C11_descriptor_tie : Ty.beq Generated.meshDataTy Codec.meshDataTy = true := by decide

/-- (tie) the field names, in order, are the ones the glue `meshToData`/`dataToMesh` assumes -/
theorem C11_field_names_tie :
    Generated.meshDataFields.map (·.1) = Codec.meshDataFields.map (·.1) := by decide

/-- LZ4 (lz4-compression 0.7.0): decompress ∘ compress = id, for **every** byte string -/
theorem C11_lz4_roundtrip (b : Bytes) : Lz4.decompress (Lz4.compress b) = .ok b :=
  Lz4.lz4_roundtrip b

/-- bincode: every well-typed value of every wire type decodes back, whatever follows it -/
theorem C11_wire_roundtrip (t : Ty) (v : Val) (r : List UInt8) (h : wt t v = true) :
    dec t (enc v ++ r) = Option.some (v, r) :=
  dec_enc t v r h

/-- **C11.** For every mesh in the codec's domain (any of the five topologies, any subset of the
eight attributes with any number of rows of any lane bit patterns, no / 16-bit / 32-bit indices, any
morph-target names, weak or no morph-target handle), decoding the encoding returns the same mesh:
same topology, same attribute rows bit for bit, absent attributes absent, same indices with the same
width, same names, same weak morph-target id.  A strong morph-target handle is not transferable and
arrives as "none" (`normalize`), which is what the property's "weak morph-target image id" says. -/
theorem C11_mesh_roundtrip (m : Mesh) (h : m.wf = true) :
    binToMesh (meshToBin m) = .ok m.normalize :=
  binToMesh_meshToBin m h

/-- with a weak (or no) morph handle nothing at all is lost -/
theorem C11_mesh_roundtrip_exact (m : Mesh) (h : m.wf = true) (hs : m.morph ≠ .strong) :
    binToMesh (meshToBin m) = .ok m := by
  rw [C11_mesh_roundtrip m h]
  cases m with
  | mk t p n a0 a1 tg cl jw ji ix mo mn =>
    cases mo <;> simp_all [Mesh.normalize, Morph.normalize]

/-- non-vacuity: a concrete non-trivial mesh (NaN payload, −0, one absent attribute, 16-bit indices,
non-ASCII name, weak uuid handle) is in the domain -/
example :
    ({ topology := 4,
       positions := Option.some [[0x7FC00001, 0x80000000, 0x3F800000], [1, 2, 3]],
       normals := Option.none, uv0 := Option.some [[0, 0xFFFFFFFF]], uv1 := Option.some [],
       tangents := Option.none, colors := Option.none, jointWeights := Option.none,
       jointIndices := Option.some [[0, 1, 2, 65535]],
       indices := .u16 [0, 1, 65535], morph := .weakUuid (List.replicate 16 7),
       morphNames := Option.some [[0xC3, 0xA9], []] } : Mesh).wf = true := by decide

end Props
end BevySync
