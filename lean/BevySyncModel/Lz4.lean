/-! Executable model of the crate `lz4-compression` 0.7.0 (`compress::compress`, `decompress::decompress`)
as used by `mesh_serde.rs` / `image_serde.rs`.  Core Lean only (no imports) so that the driver links.
The model follows the Rust source statement by statement: same hash, same dictionary, same trap value,
same LSIC integers, same final literal-only block.  It is tied to the crate by byte-exact differential
runs (harness `codec`), see DESIGN.md §4. -/
namespace BevySync
abbrev Bytes := Array UInt8

namespace Lz4

/-! ## Compressor -/
def DICT : Nat := 4096
def TRAP : Nat := 2^64 - 1

structure Dup where
  offset : Nat
  ext : Nat
deriving Repr, DecidableEq

structure Block where
  lits : List UInt8
  dup : Option Dup
deriving Repr, DecidableEq

def byteAt (inp : Bytes) (i : Nat) : Nat := (inp[i]?.getD 0).toNat

def getBatch (inp : Bytes) (n : Nat) : Nat :=
  byteAt inp n + 256 * byteAt inp (n+1) + 65536 * byteAt inp (n+2) + 16777216 * byteAt inp (n+3)

def hashBatch (b : Nat) : Nat :=
  let x := (b * 0xa4d94a4f) % 2^32
  let a := x >>> 16
  let s := x >>> 30
  let x := x ^^^ (a >>> s)
  let x := (x * 0xa4d94a4f) % 2^32
  x % DICT

def remainingBatch (inp : Bytes) (cur : Nat) : Bool := cur + 4 < inp.size

def insertCursor (inp : Bytes) (dict : Array Nat) (cur : Nat) : Array Nat :=
  if remainingBatch inp cur then dict.setIfInBounds (hashBatch (getBatch inp cur)) cur else dict

def goForward (inp : Bytes) (dict : Array Nat) (cur : Nat) : Nat → Array Nat × Nat
  | 0 => (dict, cur)
  | n+1 => goForward inp (insertCursor inp dict cur) (cur+1) n

/-- common prefix length of inp[a..] and inp[b..] (a > b), bounded by fuel = remaining of a -/
def commonExt (inp : Bytes) (a b : Nat) : Nat → Nat
  | 0 => 0
  | f+1 => if a < inp.size ∧ inp[a]? = inp[b]? then commonExt inp (a+1) (b+1) f + 1 else 0

def lookup (inp : Bytes) (dict : Array Nat) (cur : Nat) : Nat :=
  dict[hashBatch (getBatch inp cur)]?.getD TRAP

def findDupAt (inp : Bytes) (cur cand : Nat) : Option Dup :=
  if cand ≠ TRAP ∧ getBatch inp cand = getBatch inp cur ∧ cand < cur ∧ cur - cand ≤ 0xFFFF then
    some { offset := cur - cand, ext := commonExt inp (cur+4) (cand+4) (inp.size - (cur+4)) }
  else none

def findDuplicate (inp : Bytes) (dict : Array Nat) (cur : Nat) : Option Dup :=
  if remainingBatch inp cur then findDupAt inp cur (lookup inp dict cur) else none

/-- returns (dict, cur, litLen, dup) -/
def popBlock (inp : Bytes) : Nat → Array Nat → Nat → Nat → Array Nat × Nat × Nat × Option Dup
  | 0, dict, cur, lit => (dict, cur, lit, none)
  | f+1, dict, cur, lit =>
    match findDuplicate inp dict cur with
    | some d =>
      let (dict', cur') := goForward inp dict cur (d.ext + 4)
      (dict', cur', lit, some d)
    | none =>
      let (dict', cur') := goForward inp dict cur 1
      if cur' ≤ inp.size then popBlock inp f dict' cur' (lit+1)
      else (dict', cur', lit, none)

def blocksFrom (inp : Bytes) : Nat → Array Nat → Nat → List Block
  | 0, _, _ => []
  | f+1, dict, cur =>
    let start := cur
    let (dict', cur', lit, dup) := popBlock inp (inp.size + 2 - cur) dict cur 0
    let b : Block := { lits := (inp.extract start (start+lit)).toList, dup := dup }
    match dup with
    | some _ => b :: blocksFrom inp f dict' cur'
    | none => [b]

def compressBlocks (inp : Bytes) : List Block :=
  blocksFrom inp (inp.size + 2) (Array.replicate DICT TRAP) 0

/-! ## Serialisation -/
def writeInteger : Nat → Nat → List UInt8
  | 0, _ => []   -- fuel exhausted, unreachable with fuel = n+1
  | f+1, n => if n ≥ 0xFF then 0xFF :: writeInteger f (n - 0xFF) else [UInt8.ofNat n]

def lsic (n : Nat) : List UInt8 := writeInteger (n+1) n

def nib (n : Nat) : Nat := if n < 0xF then n else 0xF
def mkTok (lit ext : Nat) : UInt8 := UInt8.ofNat (nib lit * 16 + nib ext)
def lenHdr (n : Nat) : List UInt8 := if n ≥ 0xF then lsic (n - 0xF) else []

def serBlock (b : Block) : List UInt8 :=
  match b.dup with
  | some d => mkTok b.lits.length d.ext :: (lenHdr b.lits.length ++ (b.lits ++
      (UInt8.ofNat (d.offset % 256) :: UInt8.ofNat (d.offset / 256) :: lenHdr d.ext)))
  | none => mkTok b.lits.length 0 :: (lenHdr b.lits.length ++ b.lits)

def serialize (bs : List Block) : List UInt8 := bs.flatMap serBlock

@[irreducible] def compress (inp : Bytes) : List UInt8 := serialize (compressBlocks inp)

/-! ## Decompressor -/
inductive Err | unexpectedEnd | invalidOffset
deriving Repr, DecidableEq

def readInteger : List UInt8 → Nat → Except Err (Nat × List UInt8)
  | [], _ => .error .unexpectedEnd
  | b :: r, acc => if b = 0xFF then readInteger r (acc + 0xFF) else .ok (acc + b.toNat, r)

def dupLoop (out : Bytes) (start : Nat) : Nat → Bytes
  | 0 => out
  | n+1 => dupLoop (out.push (out[start]?.getD 0)) (start+1) n

/-- `take_imp`: exactly `n` bytes, or `UnexpectedEnd` (linear in `n`, not in the remaining input) -/
def takeN : Nat → List UInt8 → Option (List UInt8 × List UInt8)
  | 0, bs => some ([], bs)
  | _+1, [] => none
  | n+1, b :: bs =>
    match takeN n bs with
    | some (a, r) => some (b :: a, r)
    | none => none

def litLen (tok : UInt8) (r : List UInt8) : Except Err (Nat × List UInt8) :=
  if tok.toNat / 16 = 15 then readInteger r 15 else .ok (tok.toNat / 16, r)

def matchLen (tok : UInt8) (r : List UInt8) : Except Err (Nat × List UInt8) :=
  if 4 + tok.toNat % 16 = 19 then readInteger r 19 else .ok (4 + tok.toNat % 16, r)

def decLoop : Nat → List UInt8 → Bytes → Except Err Bytes
  | 0, _, out => .ok out
  | _, [], out => .ok out
  | f+1, tok :: r, out =>
    match litLen tok r with
    | .error e => .error e
    | .ok (lit, r1) =>
      match takeN lit r1 with
      | none => .error .unexpectedEnd
      | some (lits, r2) =>
        let out1 := out ++ lits.toArray
        match r2 with
        | [] => .ok out1
        | [_] => .error .unexpectedEnd
        | o0 :: o1 :: r3 =>
          match matchLen tok r3 with
          | .error e => .error e
          | .ok (ml, r4) =>
            if o0.toNat + 256 * o1.toNat = 0 ∨ o0.toNat + 256 * o1.toNat > out1.size then .error .invalidOffset
            else decLoop f r4 (dupLoop out1 (out1.size - (o0.toNat + 256 * o1.toNat)) ml)

@[irreducible] def decompress (c : List UInt8) : Except Err Bytes := decLoop (c.length + 1) c #[]



end Lz4
end BevySync
