/-! Skinned-mesh translation (C16): `to_skinned_mapper` on the sender and `to_skinned_mesh` on the
receiver are list functions over the peers' uuid maps; joints whose id is unknown are **skipped**,
exactly as in the code (`if let Some(..) = map.get(..) { push }`). -/
namespace BevySync
namespace Skin

/-- `SyncTrackerRes::to_skinned_mapper`: local joint entities → uuids (unknown entities dropped), bind poses copied -/
def toMapper {P : Type} (e2u : Nat → Option Nat) (joints : List Nat) (poses : List P) : List Nat × List P :=
  (joints.filterMap e2u, poses)

/-- `SyncTrackerRes::to_skinned_mesh`: uuids → the receiver's local entities (unknown uuids dropped), bind poses copied -/
def toSkinned {P : Type} (u2e : Nat → Option Nat) (m : List Nat × List P) : List Nat × List P :=
  (m.1.filterMap u2e, m.2)

end Skin
end BevySync
