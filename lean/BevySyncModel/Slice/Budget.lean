/-! Sending side of renet's reliable channel as `send_initial_sync` meets it (C15 / C03, recorded finding D20).

Code modelled: `SendChannelReliable::send_message` (renet 0.0.16, `channel/reliable.rs`): a message is accepted while
`memory_usage_bytes + message.len() <= max_memory_usage_bytes` (5 MiB per client with the default `ConnectionConfig`),
otherwise `ReliableChannelMaxMemoryReached` is returned, on which `RenetServer` disconnects that client; packets leave at
the end of the frame, so nothing that was queued in the frame of the refusal reaches the client.  `send_initial_sync`
(src/server/initial_sync.rs) queues the whole snapshot — every message of `build_full_sync` and `FinishedInitialSync`
last — in one call, i.e. within one frame; `used` is what earlier frames left unacknowledged on that client's channel
(e.g. the live broadcast of the same values to a client that was already connected when they were first detected). -/
namespace BevySync
namespace Budget

structure Chan where
  used : Nat := 0              -- bytes accepted and not acknowledged yet
  closed : Bool := false       -- the channel refused a message: the client is disconnected
  queued : List Nat := []      -- sizes of the messages accepted in this frame, in order
deriving Repr, DecidableEq

def send (budget : Nat) (c : Chan) (size : Nat) : Chan :=
  if c.closed then c
  else if c.used + size > budget then { c with closed := true, queued := [] }
  else { c with used := c.used + size, queued := c.queued ++ [size] }

/-- one call of `send_initial_sync`: the snapshot's messages, then the marker -/
def sendAll (budget : Nat) (c : Chan) (sizes : List Nat) : Chan := sizes.foldl (send budget) c

/-- what leaves for the client at the end of the frame -/
def delivered (c : Chan) : List Nat := if c.closed then [] else c.queued

def total (sizes : List Nat) : Nat := sizes.foldl (· + ·) 0

end Budget
end BevySync
