/-! Companion-component slice (C17, src/bundle_fix.rs): one entity, the five replicated render
component kinds and the engine companions their bundles would have supplied.  Each of the nine
`fix_*` systems watches `Added<Kind>` together with `Without<Companion>` and inserts the companion
through deferred `Commands`.  `reinserts = true` is the pre-repair behaviour (D8): the visibility and
transform fixes also re-inserted the replicated value they had captured when they ran. -/
namespace BevySync
namespace Fix

inductive Kind where
  | transform | visibility | pointLight | spotLight | dirLight
deriving Repr, DecidableEq

inductive Companion where
  | globalTransform | inheritedVisibility | viewVisibility
  | cubemapFrusta | cubemapVisibleEntities | frustum
  | cascadesFrusta | cascadesVisibleEntities | cascades | cascadeShadowConfig
deriving Repr, DecidableEq

/-- the nine systems: (kind watched, companions inserted, filter companions that must all be absent) -/
structure Sys where
  kind : Kind
  inserts : List Companion
  without : List Companion
deriving Repr, DecidableEq

def systems : List Sys :=
  [⟨.visibility, [.viewVisibility, .inheritedVisibility], [.viewVisibility, .inheritedVisibility]⟩,
   ⟨.transform, [.globalTransform], [.globalTransform]⟩,
   ⟨.pointLight, [.cubemapFrusta], [.cubemapFrusta]⟩,
   ⟨.pointLight, [.cubemapVisibleEntities], [.cubemapVisibleEntities]⟩,
   ⟨.spotLight, [.frustum], [.frustum]⟩,
   ⟨.dirLight, [.cascadesFrusta], [.cascadesFrusta]⟩,
   ⟨.dirLight, [.cascadesVisibleEntities], [.cascadesVisibleEntities]⟩,
   ⟨.dirLight, [.cascades], [.cascades]⟩,
   ⟨.dirLight, [.cascadeShadowConfig], [.cascadeShadowConfig]⟩]

def companionsOf (k : Kind) : List Companion :=
  (systems.filter (fun s => s.kind == k)).flatMap (·.inserts)

inductive Cmd where
  | insertCompanion (c : Companion)
  | reinsertValue (k : Kind) (v : Nat)     -- only with `reinserts`
deriving Repr, DecidableEq

structure Ent where
  val : Kind → Option Nat := fun _ => none           -- the replicated value of each kind (none = absent)
  has : Companion → Bool := fun _ => false
  /-- `Added<Kind>` as seen by system number i: the kind was inserted since that system last ran -/
  added : Nat → Bool := fun _ => false
  changed : Kind → Bool := fun _ => false              -- `Changed<Kind>` pending for sync_detect
  queue : List Cmd := []                               -- deferred commands of the fix systems
  /-- ghost: companions that were present before any fix ran and must be left alone: (companion, original) -/
  overwrites : Nat := 0                                -- ghost: companion inserts that hit an existing companion

inductive Act where
  | arrive (k : Kind) (v : Nat)       -- a value lands on the entity (network apply or local insert)
  | addCompanion (c : Companion)      -- the application (or a bundle) supplies a companion itself
  | runSys (i : Nat)                  -- one fix system runs
  | flush                             -- the deferred commands are applied
deriving Repr, DecidableEq

def sysAt (i : Nat) : Option Sys := systems[i]?

/-- one deferred command of a fix system -/
def applyCmd (e : Ent) : Cmd → Ent
  | .insertCompanion c =>
    { e with has := fun c' => if c' = c then true else e.has c',
             overwrites := e.overwrites + (if e.has c then 1 else 0) }
  | .reinsertValue k v =>
    { e with val := fun k' => if k' = k then some v else e.val k',
             changed := fun k' => if k' = k then true else e.changed k' }

def step (reinserts : Bool) (e : Ent) : Act → Ent
  | .arrive k v =>
    let wasAbsent := (e.val k).isNone
    { e with val := fun k' => if k' = k then some v else e.val k',
             changed := fun k' => if k' = k then true else e.changed k',
             added := fun i => if wasAbsent && (match sysAt i with | some s => s.kind == k | none => false) then true else e.added i }
  | .addCompanion c => { e with has := fun c' => if c' = c then true else e.has c' }
  | .runSys i =>
    match sysAt i with
    | none => e
    | some s =>
      let fires := e.added i && (e.val s.kind).isSome && s.without.all (fun c => !e.has c)
      let cmds : List Cmd :=
        if fires then
          (if reinserts && (s.kind == .visibility || s.kind == .transform) then
             match e.val s.kind with
             | some v => [Cmd.reinsertValue s.kind v]
             | none => []
           else []) ++ s.inserts.map Cmd.insertCompanion
        else []
      { e with added := fun j => if j = i then false else e.added j, queue := e.queue ++ cmds }
  | .flush => e.queue.foldl applyCmd { e with queue := [] }

def run (reinserts : Bool) (e : Ent) (as : List Act) : Ent := as.foldl (step reinserts) e

/-- one frame of the fix machinery: every system once, in the given order, then the flush -/
def frame (order : List Nat) : List Act := order.map Act.runSys ++ [Act.flush]

def allSys : List Nat := List.range 9

end Fix
end BevySync
