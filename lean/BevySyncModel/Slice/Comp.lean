/-! Component slice: one key `(uuid, component type)` replicated between a host and any number of
clients.  Small-step semantics: every system run and every deferred closure is one action, so any
sequence of actions covers every frame interleaving, every order of the unordered systems
(`sync_detect` before or after the sync point, before or after `react_*`) and every delivery split.

Code modelled (src/lib_priv.rs, src/{server,client}/{track,receiver}.rs):
* `write`   — the application inserts / mutates the component (`Changed<T>` is raised);
* `detect`  — `sync_detect<T>` + `signal_component_changed` (debounce token consumed, else enqueue);
* `react`   — `react_on_changed_components` (host: to every client; client: to the host);
* `poll`    — `poll_for_messages`: a prefix of the channel becomes deferred closures;
* `flush`   — one deferred closure: `apply_component_change_from_network` (+ the host's
              relay-if-changed through `repeat_except_for_client`).

`relayAlways = true` is the variant used for parent links (`EntityParented`): the same debounce
token mechanism, but the host relays a received link to the other clients whether or not it changed
anything on the host (src/server/receiver.rs); `entity_parented_on_*` is `detect` immediately followed
by `react`.

`legacy = true` is the behaviour before the `fix:` commit for D1 (an apply is skipped when a
debounce token is present); `patch` is bevy_reflect's `apply` (a patch, D13) — `fun _ v => v` for
types without list/map positions.  Ghost fields (`written`, `shown`, `sent`) are never read by a
transition.  No imports. -/
namespace BevySync
namespace Comp

variable {V : Type} [DecidableEq V]

structure Peer (V : Type) where
  val : Option V := none
  dirty : Bool := false            -- changed since `sync_detect<T>` last ran here
  token : Bool := false            -- key ∈ pushed_component_from_network
  queue : List V := []             -- changed_components_to_send (entries of this key)
  shown : List V := []             -- ghost: every value this peer displayed after a network apply
deriving Repr, DecidableEq

structure Client (V : Type) where
  id : Nat
  p : Peer V := {}
  defer : List V := []             -- closures queued by poll_for_messages, oldest first
  up : List V := []                -- client → host, in flight
  down : List V := []              -- host → client, in flight
deriving Repr, DecidableEq

structure State (V : Type) where
  host : Peer V := {}
  hdefer : List (Nat × V) := []    -- host closures: (sender, value)
  clients : List (Client V) := []
  sent : Nat := 0                  -- ghost: messages ever put on a channel
  written : List V := []           -- ghost: every value the application wrote, in order
deriving Repr

inductive Act (V : Type) where
  | writeH (v : V)
  | detectH
  | reactH
  | pollH (i n : Nat)              -- take n messages of client i's channel
  | flushH                         -- run the oldest host closure
  | writeC (i : Nat) (v : V)
  | detectC (i : Nat)
  | reactC (i : Nat)
  | pollC (i n : Nat)
  | flushC (i : Nat)
deriving Repr

/-- `signal_component_changed` as called by `sync_detect` -/
def detect (p : Peer V) : Peer V :=
  if p.dirty then
    if p.token then { p with dirty := false, token := false }
    else
      match p.val with
      | some v => { p with dirty := false, queue := p.queue ++ [v] }
      | none => { p with dirty := false }
  else p

def write (p : Peer V) (v : V) : Peer V := { p with val := some v, dirty := true }

/-- `apply_component_change_from_network`; returns the new peer and whether the value was applied -/
def apply (legacy : Bool) (patch : V → V → V) (p : Peer V) (v : V) : Peer V × Bool :=
  if legacy && p.token then (p, false)
  else if p.val = some v then (p, false)
  else
    let nv := match p.val with
      | some o => patch o v
      | none => v
    ({ p with val := some nv, dirty := true, token := true, shown := p.shown ++ [nv] }, true)

def onClient (i : Nat) (f : Client V → Client V) (cs : List (Client V)) : List (Client V) :=
  cs.map (fun c => if c.id = i then f c else c)

def findClient (i : Nat) (cs : List (Client V)) : Option (Client V) := cs.find? (fun c => c.id = i)

def step (relayAlways : Bool) (legacy : Bool) (patch : V → V → V) (s : State V) : Act V → State V
  | .writeH v => { s with host := write s.host v, written := s.written ++ [v] }
  | .detectH => { s with host := detect s.host }
  | .reactH =>
    { s with host := { s.host with queue := [] },
             clients := s.clients.map (fun c => { c with down := c.down ++ s.host.queue }),
             sent := s.sent + s.host.queue.length * s.clients.length }
  | .pollH i n =>
    match findClient i s.clients with
    | some c =>
      { s with hdefer := s.hdefer ++ (c.up.take n).map (fun v => (i, v)),
               clients := onClient i (fun c => { c with up := c.up.drop n }) s.clients }
    | none => s
  | .flushH =>
    match s.hdefer with
    | [] => s
    | (i, v) :: rest =>
      let (h', changed) := apply legacy patch s.host v
      if changed || relayAlways then
        { s with host := h', hdefer := rest,
                 clients := s.clients.map (fun c => if c.id = i then c else { c with down := c.down ++ [v] }),
                 sent := s.sent + (s.clients.filter (fun c => c.id ≠ i)).length }
      else { s with host := h', hdefer := rest }
  | .writeC i v =>
    { s with clients := onClient i (fun c => { c with p := write c.p v }) s.clients,
             written := s.written ++ [v] }
  | .detectC i => { s with clients := onClient i (fun c => { c with p := detect c.p }) s.clients }
  | .reactC i =>
    { s with clients := onClient i (fun c => { c with p := { c.p with queue := [] }, up := c.up ++ c.p.queue }) s.clients,
             sent := s.sent + ((findClient i s.clients).map (fun c => c.p.queue.length)).getD 0 }
  | .pollC i n =>
    { s with clients := onClient i (fun c => { c with defer := c.defer ++ c.down.take n, down := c.down.drop n }) s.clients }
  | .flushC i =>
    { s with clients := onClient i (fun c =>
        match c.defer with
        | [] => c
        | v :: rest => { c with p := (apply legacy patch c.p v).1, defer := rest }) s.clients }

def run (relayAlways : Bool) (legacy : Bool) (patch : V → V → V) (s : State V) (as : List (Act V)) : State V :=
  as.foldl (step relayAlways legacy patch) s

/-- nothing in flight, nothing queued, nothing left to detect -/
def Quiescent (s : State V) : Prop :=
  s.host.dirty = false ∧ s.host.queue = [] ∧ s.hdefer = [] ∧
  ∀ c ∈ s.clients, c.p.dirty = false ∧ c.p.queue = [] ∧ c.defer = [] ∧ c.up = [] ∧ c.down = []

/-- the state between two writer epochs: every peer holds `x`, nothing pending anywhere -/
def Clean (x : Option V) (s : State V) : Prop :=
  s.host.val = x ∧ s.host.dirty = false ∧ s.host.token = false ∧ s.host.queue = [] ∧ s.hdefer = [] ∧
  ∀ c ∈ s.clients, c.p.val = x ∧ c.p.dirty = false ∧ c.p.token = false ∧ c.p.queue = [] ∧
    c.defer = [] ∧ c.up = [] ∧ c.down = []

/-- `l`'s last element, or `x` when `l` is empty: what a peer holds once everything in `l` is applied -/
def lastOr (x : Option V) : List V → Option V
  | [] => x
  | v :: l => lastOr (some v) l

/-- the exact (non-patching) apply of types without list / map positions -/
def replace : V → V → V := fun _ v => v

/-- bevy_reflect's list apply: elementwise, never truncating (D13) -/
def listPatch (old new : List Nat) : List Nat := new ++ old.drop new.length

end Comp
end BevySync
