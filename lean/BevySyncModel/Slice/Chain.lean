/-! Promotion chains (C07, "repeated promotions"): the two peers of a one-client session, **each with both roles**.
`Slice/Promo.lean` fixes who is the former host and who the promoted client, which is enough for one hand-over; here
either peer runs the server chain and the client chain of its frame according to the transports it holds, so that
the peer promoted by one hand-over is the one that promotes in the next, any number of times.

Code modelled (src/server/{mod,receiver}.rs, src/client/{mod,receiver}.rs), per frame of a peer `x` with `y` the other:
* server chain, `client_connected`: pending `ClientDisconnected` events (no client left and the flag set: the server
  transport goes, the flag is cleared), then a `ClientConnected` (the first one with the flag set removes `x`'s own old
  client transport and clears the flag);
* server receiver: `NewHost` from the promoted client: `server.disconnect`, flag set, client transport and a fresh
  `RenetClient` inserted;
* client receiver: `PromoteToHost`: server transport inserted, flag set, `NewHost` sent over the old connection;
* `verify_client_connected` for a connection that was ready when the frame began: `Connected`, and the snapshot is
  requested unless the flag is set (then the flag is cleared instead);
* the handshake of a new client connection (`progress`, once the other side's transport `accepted` it).
`request w`: the application of peer `w` raises `PromoteToHostEvent` for its client **while the session is at rest**
(`RestAt w`); what a request does while a hand-over is under way is outside this slice (recorded finding D18).
`target`, `flips` and the reset of `snapReq` by `request` are ghost state: who was chosen last, the parity of the
requests carried out, and snapshot requests sent *in this hand-over*. -/
namespace BevySync
namespace Chain

structure Peer where
  srv : Bool := false        -- holds a server transport
  clients : Nat := 0         -- clients attached to its server
  disc : Nat := 0            -- ClientDisconnected events not processed yet
  promo : Bool := false      -- host_promotion_in_progress
  cli : Nat := 0             -- client side: 0 none, 1 transport inserted / handshaking, 3 renet connected, 4 verified
  accepted : Bool := false   -- the other peer's transport has accepted this peer's current connection
  snapReq : Nat := 0         -- RequestInitialSync sent since the last promotion request
  inPromote : Bool := false  -- PromoteToHost on its way to this peer
  inNewHost : Bool := false  -- NewHost on its way to this peer
deriving Repr, DecidableEq

structure State where
  a : Peer
  b : Peer
  target : Option Bool := none   -- ghost: the peer chosen by the last request (`false` = a, `true` = b)
  flips : Bool := false          -- ghost: parity of the requests carried out
deriving Repr, DecidableEq

inductive Act where
  | frame (who deliver accept progress : Bool)
  | request (who : Bool)
deriving Repr, DecidableEq

/-- `client_connected`, disconnections -/
def evDisc (x : Peer) : Peer :=
  if x.disc > 0 ∧ x.clients = 0 ∧ x.promo then { x with disc := 0, srv := false, promo := false }
  else { x with disc := 0 }

/-- `client_connected`, a connection accepted in this frame -/
def evConn (accept : Bool) (x y : Peer) : Peer × Peer :=
  if accept && x.srv && y.cli == 1 && !y.accepted then
    (if x.promo then { x with clients := x.clients + 1, cli := 0, accepted := false, promo := false }
     else { x with clients := x.clients + 1 },
     { y with accepted := true })
  else (x, y)

/-- the server's `NewHost` handler -/
def pollNewHost (deliver : Bool) (x : Peer) : Peer :=
  if deliver && x.inNewHost && x.srv then
    { x with inNewHost := false, clients := x.clients - 1, disc := x.disc + 1, promo := true, cli := 1, accepted := false }
  else x

/-- the client's `PromoteToHost` handler -/
def pollPromote (deliver : Bool) (x y : Peer) : Peer × Peer :=
  if deliver && x.inPromote then
    ({ x with inPromote := false, srv := true, promo := true }, { y with inNewHost := true })
  else (x, y)

/-- `verify_client_connected` -/
def verify (ready : Bool) (x : Peer) : Peer :=
  if ready then
    if x.promo then { x with cli := 4, promo := false } else { x with cli := 4, snapReq := x.snapReq + 1 }
  else x

def frame (deliver accept progress : Bool) (x y : Peer) : Peer × Peer :=
  let ready := x.cli == 3
  let had := x.cli == 1
  let x1 := evDisc x
  let (x2, y2) := evConn accept x1 y
  let x3 := pollNewHost deliver x2
  let (x4, y4) := pollPromote deliver x3 y2
  let x5 := verify ready x4
  (if had && progress && x5.accepted then { x5 with cli := 3 } else x5, y4)

/-- `x` hosts, `y` is its verified client, nothing pending anywhere -/
def RestPair (x y : Peer) : Prop :=
  x.srv = true ∧ x.clients = 1 ∧ x.disc = 0 ∧ x.promo = false ∧ x.cli = 0 ∧ x.inPromote = false ∧ x.inNewHost = false ∧
  y.srv = false ∧ y.clients = 0 ∧ y.disc = 0 ∧ y.promo = false ∧ y.cli = 4 ∧ y.inPromote = false ∧ y.inNewHost = false

instance (x y : Peer) : Decidable (RestPair x y) := by unfold RestPair; infer_instance

def host (s : State) (w : Bool) : Peer := if w then s.b else s.a
def other (s : State) (w : Bool) : Peer := if w then s.a else s.b

/-- the session is at rest with peer `w` hosting -/
def RestAt (w : Bool) (s : State) : Prop := RestPair (host s w) (other s w)

instance (w : Bool) (s : State) : Decidable (RestAt w s) := by unfold RestAt; infer_instance

def put (s : State) (w : Bool) (xy : Peer × Peer) : State :=
  if w then { s with b := xy.1, a := xy.2 } else { s with a := xy.1, b := xy.2 }

/-- is the request carried out? -/
def taken (s : State) : Act → Bool
  | .request w => decide (RestAt w s)
  | _ => false

def step (s : State) : Act → State
  | .frame w d acc g => put s w (frame d acc g (host s w) (other s w))
  | .request w =>
    if RestAt w s then
      let s1 := put s w ({ host s w with snapReq := 0 }, { other s w with snapReq := 0, inPromote := true })
      { s1 with target := some (!w), flips := !s.flips }
    else s

def run (s : State) (as : List Act) : State := as.foldl step s

/-- number of requests carried out along a schedule -/
def requests : State → List Act → Nat
  | _, [] => 0
  | s, a :: as => (if taken s a then 1 else 0) + requests (step s a) as

/-- the session as it starts: `a` hosts, `b` is its client -/
def rest0 : State := { a := { srv := true, clients := 1 }, b := { cli := 4, accepted := true } }

def bools : List Bool := [false, true]

def frameActs : List Act :=
  bools.flatMap fun w => bools.flatMap fun d => bools.flatMap fun acc => bools.map fun g => Act.frame w d acc g

def allActs : List Act := frameActs ++ [.request false, .request true]

/-- no frame of either peer moves anything, whatever the network does -/
def Settled (s : State) : Prop := ∀ a ∈ frameActs, step s a = s

instance (s : State) : Decidable (Settled s) := by unfold Settled; infer_instance

/-- the peer that hosts after `flips` hand-overs starting with `a` -/
def hostNow (s : State) : Bool := s.flips

end Chain
end BevySync
