/-! Emission filter slice (C04): the decision logic of every site at which a peer **originates** a
message, as read off the code:

* `sync_detect<T>` is only registered for types passed to `sync_component` and its query is
  `With<SyncEntity>, Without<SyncExclude<T>>, Changed<T>`;
* `entity_created_*` reacts to `Added<SyncMark>`;
* every `react_on_changed_<class>` system has `run_if(sync_<class>_enabled)` and skips ids that are
  not `AssetId::Uuid`;
* the snapshot (`build_full_sync`) walks entities that carry `SyncEntity` and are in the tracker,
  components that are registered and whose archetype lacks `SyncExclude<T>`, and per enabled class the
  uuid assets. -/
namespace BevySync
namespace Filter

inductive Class where
  | material | image | mesh | audio
deriving Repr, DecidableEq

/-- which switch governs a class: images travel with the material switch -/
structure Switches where
  materials : Bool
  meshes : Bool
  audios : Bool
deriving Repr, DecidableEq

def Switches.enabled (s : Switches) : Class → Bool
  | .material => s.materials
  | .image => s.materials
  | .mesh => s.meshes
  | .audio => s.audios

structure Ent where
  id : Nat                      -- uuid once synchronized (0 = none yet)
  marked : Bool                 -- carries SyncMark (not yet processed)
  synced : Bool                 -- carries SyncEntity and is in the tracker
  comps : List Nat              -- component types present
  changed : List Nat            -- component types with a pending `Changed<T>` for their detector
  excluded : List Nat           -- types T with SyncExclude<T> on this entity
deriving Repr, DecidableEq

structure Asset where
  cls : Class
  uuid : Option Nat             -- `AssetId::Uuid` or an index id
  pendingEvent : Bool           -- an Added/Modified event not yet read by the react system
deriving Repr, DecidableEq

structure Peer where
  registered : List Nat         -- types given to sync_component on this peer
  sw : Switches
  ents : List Ent
  assets : List Asset
deriving Repr, DecidableEq

inductive Msg where
  | spawn (uuid : Nat)
  | comp (uuid ty : Nat)
  | asset (cls : Class) (uuid : Nat)
deriving Repr, DecidableEq

/-- messages the change-detection pass originates in one frame -/
def detectMsgs (p : Peer) : List Msg :=
  p.ents.flatMap (fun e =>
    if e.synced then
      (e.changed.filter (fun t => p.registered.contains t && e.comps.contains t && !e.excluded.contains t)).map (Msg.comp e.id)
    else [])

/-- messages the asset reaction systems originate in one frame -/
def reactMsgs (p : Peer) : List Msg :=
  p.assets.filterMap (fun a =>
    if a.pendingEvent && p.sw.enabled a.cls then
      match a.uuid with
      | some u => some (Msg.asset a.cls u)
      | none => none
    else none)

/-- the snapshot sent to a joining client -/
def snapshotMsgs (p : Peer) : List Msg :=
  (p.ents.filter (·.synced)).map (fun e => Msg.spawn e.id) ++
  p.ents.flatMap (fun e =>
    if e.synced then
      (e.comps.filter (fun t => p.registered.contains t && !e.excluded.contains t)).map (Msg.comp e.id)
    else []) ++
  p.assets.filterMap (fun a =>
    if p.sw.enabled a.cls then
      match a.uuid with
      | some u => some (Msg.asset a.cls u)
      | none => none
    else none)

/-- what the property allows a peer to originate, evaluated on its own configuration -/
def Allowed (p : Peer) : Msg → Prop
  | .spawn u => ∃ e ∈ p.ents, e.id = u ∧ e.synced = true
  | .comp u t => ∃ e ∈ p.ents, e.id = u ∧ e.synced = true ∧ t ∈ p.registered ∧ t ∈ e.comps ∧ t ∉ e.excluded
  | .asset c u => p.sw.enabled c = true ∧ ∃ a ∈ p.assets, a.cls = c ∧ a.uuid = some u

/-- decidable version used by the driver on observed originations -/
def allowedB (p : Peer) : Msg → Bool
  | .spawn u => p.ents.any (fun e => e.id == u && e.synced)
  | .comp u t => p.ents.any (fun e => e.id == u && e.synced && p.registered.contains t && e.comps.contains t && !e.excluded.contains t)
  | .asset c u => p.sw.enabled c && p.assets.any (fun a => a.cls == c && a.uuid == some u)

end Filter
end BevySync
