/-! Whole-world snapshot (C03 / C15: "by the end of that frame its synchronized entities, components and parent links equal
the host's snapshot").  The one-key slice `Slice/Snap.lean` follows a single entity / component through every interleaving
with live traffic; this model is its complement: **all** entities at once, in the order `build_full_sync` lists them, applied
by the joiner's handlers in that order.

Code modelled: `full_sync::check_entity_components` — per archetype that contains `SyncEntity`: `EntitySpawn` for every
tracked entity of the archetype, then, per registered and not excluded component of the archetype, `ComponentUpdated` for
every entity (one that cannot be encoded is skipped); `build_full_sync` then moves every `EntitySpawn` to the front (stable;
repair of D21); `check_parents` — after all archetypes: `EntityParented` for every
tracked entity whose parent is tracked; the client's handlers (`client/receiver.rs`): `EntitySpawn` inserts into the uuid map at
once unless the uuid is known (duplicate guard), `ComponentUpdated` and `EntityParented` look their uuids up in that map and
are dropped when one is unknown.  The client's world is kept as what the lookups see: known uuids in spawn order, component
values and parent links newest first. -/
namespace BevySync
namespace WorldSnap

structure HEnt where
  uuid : Nat
  vals : List (Nat × Nat)       -- (component type, value) of its registered, non-excluded, encodable components
  parent : Option Nat           -- uuid of its parent, when the parent is a tracked entity
deriving Repr, DecidableEq

structure Arch where
  types : List Nat              -- the archetype's registered, non-excluded component types, in the archetype's order
  ents : List HEnt              -- its entities in table order
deriving Repr, DecidableEq

abbrev World := List Arch

inductive Msg where
  | spawn (u : Nat) | comp (u t v : Nat) | parent (c p : Nat)
deriving Repr, DecidableEq

def compMsg (t : Nat) (e : HEnt) : Option Msg := (e.vals.lookup t).map (Msg.comp e.uuid t)

/-- what `check_entity_components` pushes for one archetype -/
def archMsgs (a : Arch) : List Msg :=
  a.ents.map (fun e => Msg.spawn e.uuid) ++ a.types.flatMap (fun t => a.ents.filterMap (compMsg t))

def parentMsg (e : HEnt) : Option Msg := e.parent.map (Msg.parent e.uuid)

def allEnts (w : World) : List HEnt := w.flatMap (·.ents)

def isSpawn : Msg → Bool
  | .spawn _ => true
  | _ => false

/-- `result.sort_by_key(|msg| !matches!(msg, EntitySpawn))`: a stable sort on a Boolean key is the spawns in their order
followed by everything else in its order (since the repair of D21; before it the list was sent as pushed) -/
def spawnsFirst (ms : List Msg) : List Msg := ms.filter isSpawn ++ ms.filter (fun m => !isSpawn m)

/-- `build_full_sync`, entity part; `sorted = false` is the order before the repair of D21 -/
def snapshotG (sorted : Bool) (w : World) : List Msg :=
  (if sorted then spawnsFirst (w.flatMap archMsgs) else w.flatMap archMsgs) ++ (allEnts w).filterMap parentMsg

def snapshot (w : World) : List Msg := snapshotG true w

structure Client where
  ents : List Nat := []                    -- uuids in the map, in the order they were inserted
  comps : List (Nat × Nat × Nat) := []     -- (uuid, type, value), newest first
  parents : List (Nat × Nat) := []         -- (child, parent), newest first
deriving Repr, DecidableEq

def apply (c : Client) : Msg → Client
  | .spawn u => if u ∈ c.ents then c else { c with ents := c.ents ++ [u] }
  | .comp u t v => if u ∈ c.ents then { c with comps := (u, t, v) :: c.comps } else c
  | .parent ch p => if ch ∈ c.ents ∧ p ∈ c.ents then { c with parents := (ch, p) :: c.parents } else c

def applyAll (c : Client) (ms : List Msg) : Client := ms.foldl apply c

def getComp (c : Client) (u t : Nat) : Option Nat :=
  (c.comps.find? (fun x => x.1 == u && x.2.1 == t)).map (·.2.2)

def getParent (c : Client) (u : Nat) : Option Nat := (c.parents.find? (fun x => x.1 == u)).map (·.2)

/-- what `build_full_sync` relies on: tracked entities have distinct uuids, an archetype lists the type of every value its
entities carry, a listed parent is a tracked entity -/
structure WF (w : World) : Prop where
  nodup : ((allEnts w).map (·.uuid)).Nodup
  typed : ∀ a ∈ w, ∀ e ∈ a.ents, ∀ t v, e.vals.lookup t = some v → t ∈ a.types
  parents : ∀ e ∈ allEnts w, ∀ p, e.parent = some p → p ∈ (allEnts w).map (·.uuid)

end WorldSnap
end BevySync
