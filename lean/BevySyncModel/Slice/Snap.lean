import BevySyncModel.Slice.Comp
/-! Snapshot slice (C03): one key (entity uuid, component type) on the host and on one client that joins —
for the first time or again, still holding what it had — while the session goes on.

Code modelled: `verify_client_connected` → `RequestInitialSync`; the host's handler queues a closure that runs
`send_initial_sync` = `build_full_sync` (reads the world **as it is at that flush**: `EntitySpawn` for every tracked
entity, `ComponentUpdated` for every registered, non-excluded component it carries) and puts the messages on the
joiner's ordered reliable channel; every live broadcast / relay of the host goes to `server.clients_id()`, which
contains the joiner from the moment the transport accepted it (`connect`), i.e. possibly **before** the snapshot;
the client's handlers: `EntitySpawn` guarded against duplicates, `ComponentUpdated` for an unknown uuid ignored,
otherwise `apply_component_change_from_network`.

The host side of the key is the component slice's `Peer` (`write`/`detect`/`react`); `applyH` is a value of
another client applied on the host and relayed at once if it changed something.  `mode`-independent model; the
theorems distinguish epochs in which the host is the writer from epochs in which it relays. -/
namespace BevySync
namespace Snap

variable {V : Type} [DecidableEq V]

inductive Msg (V : Type) where
  | spawn
  | upd (v : V)
deriving Repr, DecidableEq

structure Host (V : Type) where
  present : Bool := false          -- the entity exists (and is tracked) on the host
  p : Comp.Peer V := {}
deriving Repr

structure Joiner (V : Type) where
  connected : Bool := false        -- in `server.clients_id()`
  snapped : Bool := false          -- its snapshot has been built and queued
  present : Bool := false          -- a local replica of the uuid exists
  count : Nat := 0                 -- live local replicas of the uuid
  p : Comp.Peer V := {}
  defer : List (Msg V) := []
  down : List (Msg V) := []
  up : List V := []                -- what the joiner announces to the host
deriving Repr

structure State (V : Type) where
  host : Host V := {}
  j : Joiner V := {}
deriving Repr

inductive Act (V : Type) where
  | createH | writeH (v : V) | applyH (v : V) | detectH | reactH
  | connect | snapshot
  | pollJ (n : Nat) | flushJ | detectJ | reactJ
deriving Repr

/-- host → joiner, only once the transport has accepted it -/
def send (j : Joiner V) (ms : List (Msg V)) : Joiner V := if j.connected then { j with down := j.down ++ ms } else j

/-- what `build_full_sync` emits for this key -/
def snapshotOf (h : Host V) : List (Msg V) :=
  if h.present then
    .spawn :: (match h.p.val with
               | some v => [.upd v]
               | none => [])
  else []

/-- the joiner runs one deferred closure / handler -/
def recv (j : Joiner V) : Msg V → Joiner V
  | .spawn => if j.present then j else { j with present := true, count := j.count + 1, p := {} }
  | .upd v => if j.present then { j with p := (Comp.apply false Comp.replace j.p v).1 } else j

def step (s : State V) : Act V → State V
  | .createH =>
    if s.host.present then s
    else { host := { s.host with present := true }, j := send s.j [.spawn] }
  | .writeH v => if s.host.present then { s with host := { s.host with p := Comp.write s.host.p v } } else s
  | .applyH v =>
    if s.host.present then
      if (Comp.apply false Comp.replace s.host.p v).2 then
        { host := { s.host with p := (Comp.apply false Comp.replace s.host.p v).1 }, j := send s.j [.upd v] }
      else { s with host := { s.host with p := (Comp.apply false Comp.replace s.host.p v).1 } }
    else s
  | .detectH => { s with host := { s.host with p := Comp.detect s.host.p } }
  | .reactH =>
    { host := { s.host with p := { s.host.p with queue := [] } }, j := send s.j (s.host.p.queue.map .upd) }
  | .connect => { s with j := { s.j with connected := true } }
  | .snapshot =>
    if s.j.connected && !s.j.snapped then
      { s with j := { (send s.j (snapshotOf s.host)) with snapped := true } }
    else s
  | .pollJ n => { s with j := { s.j with defer := s.j.defer ++ s.j.down.take n, down := s.j.down.drop n } }
  | .flushJ =>
    match s.j.defer with
    | [] => s
    | m :: rest => { s with j := { (recv s.j m) with defer := rest } }
  | .detectJ => { s with j := { s.j with p := Comp.detect s.j.p } }
  | .reactJ => { s with j := { s.j with p := { s.j.p with queue := [] }, up := s.j.up ++ s.j.p.queue } }

def run (s : State V) (as : List (Act V)) : State V := as.foldl step s

/-- the joiner is through: snapshot delivered, nothing in flight, nothing left to detect on either side -/
def Quiescent (s : State V) : Prop :=
  s.j.snapped = true ∧ s.j.defer = [] ∧ s.j.down = [] ∧ s.j.p.dirty = false ∧ s.j.p.queue = [] ∧
  s.host.p.dirty = false ∧ s.host.p.queue = []

instance decQuiescent (s : State V) : Decidable (Quiescent s) := by
  unfold Quiescent; infer_instance

/-- what the joiner will hold (replica present?, component value) once `l` has been handled -/
def evStep : Bool × Option V → Msg V → Bool × Option V
  | (b, x), .spawn => (true, if b then x else none)
  | (b, x), .upd v => if b then (true, some v) else (false, x)

def ev (bx : Bool × Option V) (l : List (Msg V)) : Bool × Option V := l.foldl evStep bx

end Snap
end BevySync
