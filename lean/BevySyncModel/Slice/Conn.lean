/-! Connection-state slice (C15): the published `ServerState` / `ClientState` of one peer.

Code modelled (src/server/mod.rs, src/client/mod.rs, bevy 0.14 run conditions and states):
* `resource_added<T>` is true in the first evaluation after `T` was inserted (and `T` is present);
  every condition of a system is evaluated every frame, so the flag is consumed whether or not the
  system runs;
* `resource_removed<T>()` keeps a `Local<bool>`: `if present { existed = true; false } else if existed
  { existed = false; true } else { false }`;
* `in_state(S)` reads the current state; `NextState` set in `Update` is applied by `StateTransition`
  at the start of the next frame;
* `server_connected` (transport added ∧ Disconnected) → Connected + `InitialSyncFinished`;
  `server_disconnected` (transport removed ∧ Connected) → Disconnected;
  `set_client_to_connecting` (added; before its repair: added ∧ Disconnected, `strict`); `verify_client_connected` (transport ∧ Connecting:
  if `RenetClient::is_connected()` → Connected, and a `RequestInitialSync` unless a promotion is in progress);
  `set_client_to_disconnected` (removed ∧ state ≠ Disconnected; `legacy`: only in Connected).
The application inserts / removes transports between frames; the netcode handshake is the input
`setConnected`. -/
namespace BevySync
namespace Conn

structure Server where
  transport : Bool := false     -- NetcodeServerTransport present
  added : Bool := false         -- inserted since `resource_added` last ran
  existed : Bool := false       -- Local of `resource_removed`
  state : Bool := false         -- ServerState = Connected
  next : Option Bool := none    -- NextState<ServerState>
  events : Nat := 0             -- ghost: InitialSyncFinished raised on this peer as host
deriving Repr, DecidableEq

def Server.insert (s : Server) : Server := { s with transport := true, added := true }
def Server.remove (s : Server) : Server := { s with transport := false, added := false }

def Server.frame (s : Server) : Server :=
  let st := s.next.getD s.state
  let fires := !s.transport && s.existed
  let runConnected := s.transport && s.added && !st
  let runDisconnected := fires && st
  { transport := s.transport, added := false, existed := s.transport, state := st,
    next := if runConnected then some true else if runDisconnected then some false else none,
    events := s.events + (if runConnected then 1 else 0) }

inductive CS where
  | disconnected | connecting | connected
deriving Repr, DecidableEq

structure Client where
  transport : Bool := false
  added : Bool := false
  existed : Bool := false
  state : CS := .disconnected
  next : Option CS := none
  renetConnected : Bool := false   -- RenetClient::is_connected() as left by the transport this frame
  promo : Bool := false            -- host_promotion_in_progress
  requests : Nat := 0              -- ghost: RequestInitialSync sent
deriving Repr, DecidableEq

def Client.insert (c : Client) : Client := { c with transport := true, added := true, renetConnected := false }
def Client.remove (c : Client) : Client := { c with transport := false, added := false, renetConnected := false }
/-- the handshake cannot complete before the new transport has run in at least one frame -/
def Client.setConnected (c : Client) (b : Bool) : Client := { c with renetConnected := b && c.transport && !c.added }

def Client.frame (legacy : Bool) (c : Client) (strict : Bool := false) : Client :=
  let st := c.next.getD c.state
  let fires := !c.transport && c.existed
  -- `strict`: before its repair `set_client_to_connecting` also required `in_state(Disconnected)`, so a transport removed and
  -- inserted again between two frames (never passing through Disconnected) did not start a new join
  let runConnecting := c.transport && c.added && (!strict || st == .disconnected)
  let runVerify := c.transport && st == .connecting && c.renetConnected
  let runDisc := fires && (if legacy then st == .connected else st != .disconnected)
  { c with added := false, existed := c.transport, state := st,
           next := if runConnecting then some .connecting else if runVerify then some .connected
                   else if runDisc then some .disconnected else none,
           promo := if runVerify then false else c.promo,
           requests := c.requests + (if runVerify && !c.promo then 1 else 0) }

inductive Op where
  | insert | remove | setConnected (b : Bool) | frame
deriving Repr, DecidableEq

def Client.step (legacy strict : Bool) (c : Client) : Op → Client
  | .insert => c.insert
  | .remove => c.remove
  | .setConnected b => c.setConnected b
  | .frame => c.frame legacy strict

def Server.step (s : Server) : Op → Server
  | .insert => s.insert
  | .remove => s.remove
  | .setConnected _ => s
  | .frame => s.frame

end Conn
end BevySync
