/-! Asset slice (C06): one uuid-addressed asset of a downloadable class (mesh / image / audio) on a host
and any number of clients.  Code modelled: `react_on_changed_<class>` (both `track.rs`), the
`<Class>Updated` arms of both `poll_for_messages`, `SyncAssetTransfer::{serve_*, request}` and the
download worker, `process_<class>_assets` (networking/assets/mod.rs).

* `publish p v`  — the application inserts / overwrites the asset (one `AssetEvent` is raised);
* `react p`      — the reaction system handles one pending event: a debounce entry swallows it,
                   otherwise the content is stored in the peer's serve cache (last publication wins) and
                   `<Class>Updated { id, url }` is sent (host: to every client; client: to the host);
* `poll`         — a `<Class>Updated` is received: a download job for the advertised owner is queued
                   and the host relays the message to the other clients;
* `fetch`        — a download job runs: HTTP GET on the owner's endpoint returns **what the owner's cache
                   holds at that moment** (C14) and the bytes are put into the `*_to_apply` slot of the uuid;
* `snapshotH i`  — `build_full_sync` for joining client `i` (C03): the host serves what it holds now and announces
                   its own endpoint to `i`;
* `process p`    — `process_*_assets`: the slot is drained into `Assets`, one debounce entry is filed
                   (`countTokens = false` is the pre-repair set semantics) and one `AssetEvent` is raised.
Content is an abstract `Nat` (that the bytes survive the wire is C11 / C13 / C14).  A GET and the store
into the slot are one action: the order in which two worker threads of one uuid finish is runtime
behaviour outside this model. -/
namespace BevySync
namespace Asset

structure Peer where
  content : Option Nat := none     -- Assets<_> entry of the uuid
  events : Nat := 0                -- AssetEvents not yet seen by the reaction system
  tokens : Nat := 0                -- pending debounce entries of the uuid
  served : Option Nat := none      -- this peer's serve cache
  slot : Option Nat := none        -- *_to_apply[uuid]
  jobs : List Nat := []            -- queued downloads: the owner to fetch from (0 = host, i = client i)
deriving Repr, DecidableEq

structure Client where
  id : Nat
  p : Peer := {}
  up : List Nat := []              -- <Class>Updated messages in flight to the host (payload: owner)
  down : List Nat := []
deriving Repr, DecidableEq

structure State where
  host : Peer := {}
  clients : List Client := []
  sent : Nat := 0
deriving Repr, DecidableEq

inductive Act where
  | publishH (v : Nat) | reactH | pollH (i : Nat) | fetchH | processH
  | publishC (i v : Nat) | reactC (i : Nat) | pollC (i : Nat) | fetchC (i : Nat) | processC (i : Nat)
  | snapshotH (i : Nat)     -- `build_full_sync` for joining client `i`: serve the host's copy afresh, announce it to `i`
deriving Repr, DecidableEq

def onClient (i : Nat) (f : Client → Client) (cs : List Client) : List Client :=
  cs.map (fun c => if c.id = i then f c else c)

def findClient (i : Nat) (cs : List Client) : Option Client := cs.find? (fun c => c.id = i)

/-- what a GET on `owner`'s endpoint returns right now -/
def servedBy (s : State) (owner : Nat) : Option Nat :=
  if owner = 0 then s.host.served else (findClient owner s.clients).bind (·.p.served)

def publish (p : Peer) (v : Nat) : Peer := { p with content := some v, events := p.events + 1 }

/-- one pending event at the reaction system; returns the peer and whether it announces -/
def react (p : Peer) : Peer × Bool :=
  if p.events = 0 then (p, false)
  else if p.tokens > 0 then ({ p with events := p.events - 1, tokens := p.tokens - 1 }, false)
  else ({ p with events := p.events - 1, served := p.content }, true)

/-- `request`; `skipServed = true` is the mesh shortcut before its repair: nothing is downloaded for a
uuid this peer serves itself -/
def request (skipServed : Bool) (p : Peer) (owner : Nat) : Peer :=
  if skipServed && p.served.isSome then p else { p with jobs := p.jobs ++ [owner] }

/-- the head job is done: the response body goes into the slot; a 404 makes the worker drop the job -/
def landed (p : Peer) (rest : List Nat) : Option Nat → Peer
  | some v => { p with jobs := rest, slot := some v }
  | none => { p with jobs := rest }

def fetch (s : State) (p : Peer) : Peer :=
  match p.jobs with
  | [] => p
  | o :: rest => landed p rest (servedBy s o)

def process (countTokens : Bool) (p : Peer) : Peer :=
  match p.slot with
  | none => p
  | some v =>
    { p with slot := none, content := some v, events := p.events + 1,
             tokens := if countTokens then p.tokens + 1 else 1 }

/-- `react_on_changed_<class>` on a client: the announcement goes to the host -/
def cReact (c : Client) : Client :=
  if (react c.p).2 then { c with p := (react c.p).1, up := c.up ++ [c.id] } else { c with p := (react c.p).1 }

/-- a client receives one `<Class>Updated` -/
def cPoll (skipServed : Bool) (c : Client) : Client :=
  match c.down with
  | [] => c
  | o :: rest => { c with p := request skipServed c.p o, down := rest }

/-- the snapshot's entry for this uuid reaches the joiner's channel -/
def cSnapshot (c : Client) : Client := { c with down := c.down ++ [0] }

/-- `check_<class>` of the snapshot: the host serves what it holds **now** -/
def snapServe (p : Peer) : Peer := if p.content.isSome then { p with served := p.content } else p

def cPublish (v : Nat) (c : Client) : Client := { c with p := publish c.p v }
def cFetch (s : State) (c : Client) : Client := { c with p := fetch s c.p }
def cProcess (countTokens : Bool) (c : Client) : Client := { c with p := process countTokens c.p }

def step (countTokens skipServed : Bool) (s : State) : Act → State
  | .publishH v => { s with host := publish s.host v }
  | .reactH =>
    if (react s.host).2 then
      { s with host := (react s.host).1, clients := s.clients.map (fun c => { c with down := c.down ++ [0] }),
               sent := s.sent + s.clients.length }
    else { s with host := (react s.host).1 }
  | .pollH i =>
    match findClient i s.clients with
    | some c =>
      match c.up with
      | [] => s
      | o :: rest =>
        { s with host := request skipServed s.host o,
                 clients := s.clients.map (fun c => if c.id = i then { c with up := rest } else { c with down := c.down ++ [o] }),
                 sent := s.sent + (s.clients.filter (fun c => c.id ≠ i)).length }
    | none => s
  | .fetchH => { s with host := fetch s s.host }
  | .processH => { s with host := process countTokens s.host }
  | .publishC i v => { s with clients := onClient i (cPublish v) s.clients }
  | .reactC i =>
    { s with clients := onClient i cReact s.clients,
             sent := s.sent + (match findClient i s.clients with
                               | some c => if (react c.p).2 then 1 else 0
                               | none => 0) }
  | .pollC i =>
    { s with clients := onClient i (cPoll skipServed) s.clients }
  | .fetchC i => { s with clients := onClient i (cFetch s) s.clients }
  | .processC i => { s with clients := onClient i (cProcess countTokens) s.clients }
  | .snapshotH i =>
    if s.host.content.isSome then { s with host := snapServe s.host, clients := onClient i cSnapshot s.clients }
    else s

def run (ct sk : Bool) (s : State) (as : List Act) : State := as.foldl (step ct sk) s

def Peer.idle (p : Peer) : Prop := p.events = 0 ∧ p.slot = none ∧ p.jobs = []

def Quiescent (s : State) : Prop :=
  s.host.idle ∧ ∀ c ∈ s.clients, c.p.idle ∧ c.up = [] ∧ c.down = []

instance decQuiescent (s : State) : Decidable (Quiescent s) := by
  unfold Quiescent Peer.idle; infer_instance

/-- between two writer epochs: every peer holds `x`, nothing pending anywhere (the serve caches may hold
anything: nobody is pointed at them) -/
def Peer.settled (x : Option Nat) (p : Peer) : Prop :=
  p.content = x ∧ p.events = 0 ∧ p.tokens = 0 ∧ p.slot = none ∧ p.jobs = []

def Settled (x : Option Nat) (s : State) : Prop :=
  s.host.settled x ∧ ∀ c ∈ s.clients, c.p.settled x ∧ c.up = [] ∧ c.down = []

/-- one fair round: every peer reacts, receives, downloads and applies once -/
def roundActs (ids : List Nat) : List Act :=
  [.reactH] ++ ids.map .pollH ++ [.fetchH, .processH] ++
  ids.flatMap (fun i => [.reactC i, .pollC i, .fetchC i, .processC i])

/-- run fair rounds until nothing moves any more (`fuel` rounds at most) -/
def settle (ct sk : Bool) : Nat → State → State
  | 0, s => s
  | fuel + 1, s =>
    let s' := run ct sk s (roundActs (s.clients.map (·.id)))
    if s' = s then s else settle ct sk fuel s'

def peerOf (s : State) (i : Nat) : Option Peer :=
  if i = 0 then some s.host else (findClient i s.clients).map (·.p)

end Asset
end BevySync
