/-! Promotion slice (C07): the roles of the former host `H` and of the promoted client `P` during a hand-over,
with `others` further clients still attached to `H`.

Code modelled (src/server/{mod,receiver}.rs, src/client/{mod,receiver}.rs):
* `promote_to_host_event_reader` sends `PromoteToHost` to `P`; `P`'s handler inserts a server transport and sets
  `host_promotion_in_progress`; on entering `ServerState::Connected` `P` sends `NewHost` over its old client
  connection (`server_promoted_is_ready`);
* `H`'s `NewHost` handler: `server.disconnect(P)`, relay to the other clients, flag set, a client transport
  (and, since the repair of D7a, a fresh `RenetClient`) inserted;
* `client_connected` on `H` (first system of the server chain): for every `ClientDisconnected` event, once no
  client is left and the flag is set, the server transport is removed and the flag cleared;
* the netcode handshake of `H`'s new client connection takes several of `H`'s frames; `verify_client_connected`
  then publishes `Connected` and requests the snapshot **unless the flag is set**, in which case it clears it;
* `client_connected` on `P`: the first `ClientConnected` with the flag set removes `P`'s old client transport.
A frame of `H` = events first, then messages, then verification of a connection that was ready when the frame
began — the order of the real schedule; whether the network delivered the pending message to this frame
(`deliver`), whether `P`'s transport accepted `H`'s new connection in this frame (`accepted`) and whether `H`'s
`RenetClient` reported the connection in this frame (`progress`) are inputs.  The other clients leave `H` whenever
they get round to it (`otherLeaves`). -/
namespace BevySync
namespace Promo

structure State where
  hSrv : Bool := true          -- H holds its server transport
  hClients : Nat := 1          -- clients attached to H's server (P and the others)
  hDisc : Nat := 0             -- ClientDisconnected events H has not processed yet
  hPromo : Bool := false
  hCli : Nat := 0              -- H's new client: 0 none, 1 transport inserted / handshaking, 3 renet connected, 4 verified (ClientState::Connected requested)
  snapReq : Nat := 0           -- RequestInitialSync sent by H to the new host
  pSrv : Bool := false
  pPromo : Bool := false
  pCli : Bool := true          -- P still holds its old client transport
  pClients : Nat := 0
  accepted : Bool := false     -- P's transport has accepted H's new connection
  promoteMsg : Bool := true    -- PromoteToHost on its way
  newHostMsg : Bool := false   -- NewHost on its way to H
  othersTold : Nat := 0        -- other clients that have NewHost and have not left H yet
deriving Repr, DecidableEq

def init (others : Nat) : State := { hClients := others + 1 }

inductive Act where
  | pFrame (deliver accepted : Bool) | hFrame (deliver progress : Bool) | otherLeaves
deriving Repr, DecidableEq

/-- `client_connected` on H: every pending disconnect event -/
def hEvents (s : State) : State :=
  if s.hDisc > 0 ∧ s.hClients = 0 ∧ s.hPromo then { s with hDisc := 0, hSrv := false, hPromo := false }
  else { s with hDisc := 0 }

/-- H's `NewHost` handler -/
def hPoll (s : State) : State :=
  if s.newHostMsg ∧ s.hSrv then
    { s with newHostMsg := false, hClients := s.hClients - 1, hDisc := s.hDisc + 1,
             othersTold := s.hClients - 1, hPromo := true, hCli := 1 }
  else s

/-- `verify_client_connected`, for a connection that was ready when the frame began -/
def hVerify (ready : Bool) (s : State) : State :=
  if ready then
    if s.hPromo then { s with hCli := 4, hPromo := false } else { s with hCli := 4, snapReq := s.snapReq + 1 }
  else s

def hFrame (deliver progress : Bool) (s : State) : State :=
  let ready := s.hCli == 3
  let had := s.hCli == 1
  let s1 := hEvents s
  let s2 := if deliver then hPoll s1 else s1
  let s3 := hVerify ready s2
  if had && progress && s3.accepted then { s3 with hCli := 3 } else s3

def pFrame (deliver accepted : Bool) (s : State) : State :=
  let s1 :=
    if accepted && s.pSrv && s.hCli == 1 && !s.accepted then
      (if s.pPromo then { s with accepted := true, pClients := s.pClients + 1, pCli := false, pPromo := false }
       else { s with accepted := true, pClients := s.pClients + 1 })
    else s
  if deliver && s1.promoteMsg then { s1 with promoteMsg := false, pSrv := true, pPromo := true, newHostMsg := true } else s1

def step (s : State) : Act → State
  | .pFrame d a => pFrame d a s
  | .hFrame d g => hFrame d g s
  | .otherLeaves =>
    if s.othersTold > 0 then { s with othersTold := s.othersTold - 1, hClients := s.hClients - 1, hDisc := s.hDisc + 1 }
    else s

def run (s : State) (as : List Act) : State := as.foldl step s

def allActs : List Act :=
  [.pFrame false false, .pFrame false true, .pFrame true false, .pFrame true true,
   .hFrame false false, .hFrame false true, .hFrame true false, .hFrame true true, .otherLeaves]

/-- the hand-over is complete: P hosts alone, H is its client and has asked for the snapshot exactly once -/
def Done (s : State) : Prop :=
  s.hSrv = false ∧ s.pSrv = true ∧ s.pCli = false ∧ s.hCli = 4 ∧ s.pClients = 1 ∧ s.snapReq = 1 ∧
  s.hPromo = false ∧ s.pPromo = false

/-- nothing moves any more, whatever the network does -/
def Settled (s : State) : Prop := ∀ a ∈ allActs, step s a = s

instance (s : State) : Decidable (Done s) := by unfold Done; infer_instance
instance (s : State) : Decidable (Settled s) := by unfold Settled; infer_instance

end Promo
end BevySync
