import BevySyncModel.Slice.Comp
/-! Material slice (C06): one uuid-addressed `StandardMaterial` on a host and any number of clients.
Materials travel inline: `react_on_changed_materials` (both `track.rs`) sends the serialized material,
the `StandardMaterialUpdated` arms of both `poll_for_messages` queue a closure that runs
`apply_material_change_from_network` (one debounce entry filed, `Assets::insert`, which raises one
`AssetEvent`) and, on the host, relays the same bytes to the other clients.

* `publish p v` — the application inserts / overwrites the material (one `AssetEvent`);
* `react p`     — the reaction system handles one pending event: a debounce entry swallows it, otherwise the
                  material **as it is now** is sent (host: to every client; client: to the host);
* `poll`        — one message leaves the channel and becomes a deferred closure;
* `flush`       — the oldest closure runs: apply, and on the host relay to everybody but the sender.
Content is an abstract `Nat` (that the reflected bytes survive the wire is C12).  `countTokens = false` is
the set semantics of the debounce entries before their repair. -/
namespace BevySync
namespace Mat

structure Peer where
  content : Option Nat := none
  events : Nat := 0
  tokens : Nat := 0
deriving Repr, DecidableEq

structure Client where
  id : Nat
  p : Peer := {}
  defer : List Nat := []
  up : List Nat := []
  down : List Nat := []
deriving Repr, DecidableEq

structure State where
  host : Peer := {}
  hdefer : List (Nat × Nat) := []      -- (sender, content)
  clients : List Client := []
  sent : Nat := 0
deriving Repr, DecidableEq

inductive Act where
  | publishH (v : Nat) | reactH | pollH (i : Nat) | flushH
  | publishC (i v : Nat) | reactC (i : Nat) | pollC (i : Nat) | flushC (i : Nat)
deriving Repr, DecidableEq

def onClient (i : Nat) (f : Client → Client) (cs : List Client) : List Client :=
  cs.map (fun c => if c.id = i then f c else c)

def findClient (i : Nat) (cs : List Client) : Option Client := cs.find? (fun c => c.id = i)

def publish (p : Peer) (v : Nat) : Peer := { p with content := some v, events := p.events + 1 }

/-- one pending event at the reaction system: the peer afterwards and what it announces -/
def react (p : Peer) : Peer × Option Nat :=
  if p.events = 0 then (p, none)
  else if p.tokens > 0 then ({ p with events := p.events - 1, tokens := p.tokens - 1 }, none)
  else ({ p with events := p.events - 1 }, p.content)

/-- `apply_material_change_from_network` -/
def apply (countTokens : Bool) (p : Peer) (v : Nat) : Peer :=
  { content := some v, events := p.events + 1, tokens := if countTokens then p.tokens + 1 else 1 }

def cPublish (v : Nat) (c : Client) : Client := { c with p := publish c.p v }

def cReact (c : Client) : Client :=
  match (react c.p).2 with
  | some v => { c with p := (react c.p).1, up := c.up ++ [v] }
  | none => { c with p := (react c.p).1 }

def cPoll (c : Client) : Client :=
  match c.down with
  | [] => c
  | v :: rest => { c with defer := c.defer ++ [v], down := rest }

def cFlush (countTokens : Bool) (c : Client) : Client :=
  match c.defer with
  | [] => c
  | v :: rest => { c with p := apply countTokens c.p v, defer := rest }

def step (countTokens : Bool) (s : State) : Act → State
  | .publishH v => { s with host := publish s.host v }
  | .reactH =>
    match (react s.host).2 with
    | some v => { s with host := (react s.host).1, clients := s.clients.map (fun c => { c with down := c.down ++ [v] }),
                         sent := s.sent + s.clients.length }
    | none => { s with host := (react s.host).1 }
  | .pollH i =>
    match findClient i s.clients with
    | some c =>
      match c.up with
      | [] => s
      | v :: rest =>
        { s with hdefer := s.hdefer ++ [(i, v)],
                 clients := onClient i (fun c => { c with up := rest }) s.clients }
    | none => s
  | .flushH =>
    match s.hdefer with
    | [] => s
    | (i, v) :: rest =>
      { s with host := apply countTokens s.host v, hdefer := rest,
               clients := s.clients.map (fun c => if c.id = i then c else { c with down := c.down ++ [v] }),
               sent := s.sent + (s.clients.filter (fun c => c.id ≠ i)).length }
  | .publishC i v => { s with clients := onClient i (cPublish v) s.clients }
  | .reactC i => { s with clients := onClient i cReact s.clients,
                          sent := s.sent + (match findClient i s.clients with
                                            | some c => if (react c.p).2.isSome then 1 else 0
                                            | none => 0) }
  | .pollC i => { s with clients := onClient i cPoll s.clients }
  | .flushC i => { s with clients := onClient i (cFlush countTokens) s.clients }

def run (ct : Bool) (s : State) (as : List Act) : State := as.foldl (step ct) s

def Quiescent (s : State) : Prop :=
  s.host.events = 0 ∧ s.hdefer = [] ∧ ∀ c ∈ s.clients, c.p.events = 0 ∧ c.defer = [] ∧ c.up = [] ∧ c.down = []

instance decQuiescent (s : State) : Decidable (Quiescent s) := by
  unfold Quiescent; infer_instance

/-- between two writer epochs: every peer holds `x`, nothing pending anywhere -/
def Settled (x : Option Nat) (s : State) : Prop :=
  s.host.content = x ∧ s.host.events = 0 ∧ s.host.tokens = 0 ∧ s.hdefer = [] ∧
  ∀ c ∈ s.clients, c.p.content = x ∧ c.p.events = 0 ∧ c.p.tokens = 0 ∧ c.defer = [] ∧ c.up = [] ∧ c.down = []

def roundActs (ids : List Nat) : List Act :=
  [.reactH] ++ ids.map .pollH ++ [.flushH] ++ ids.flatMap (fun i => [.reactC i, .pollC i, .flushC i])

def settle (ct : Bool) : Nat → State → State
  | 0, s => s
  | fuel + 1, s =>
    let s' := run ct s (roundActs (s.clients.map (·.id)))
    if s' = s then s else settle ct fuel s'

def peerOf (s : State) (i : Nat) : Option Peer :=
  if i = 0 then some s.host else (findClient i s.clients).map (·.p)

end Mat
end BevySync
