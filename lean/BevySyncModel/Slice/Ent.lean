/-! Entity slice (C01): the life of one synchronized entity (one uuid) on a host and any number of
clients.  Code modelled: `entity_created_on_*`, `entity_removed_from_*` (src/{server,client}/track.rs)
and the `EntitySpawn` / `EntityDelete` arms of both `poll_for_messages` (receiver.rs).

A frame's `poll_for_messages` and the end-of-frame flush of the commands it queued are one action
(`poll`): on both peers the poll comes after the only sync point of `Update` and nothing that touches
the entity's life runs between it and the flush (application `Commands` inside the frame are C08's
subject).  `entity_removed_*` and `entity_created_*` run before the sync point, in that order.

The uuid is drawn once, by `created` on the origin, and no action rewrites it: there is a single
uuid in the slice by construction.  `count` is the number of live local entities carrying it. -/
namespace BevySync
namespace Ent

inductive M where
  | spawn | delete
deriving Repr, DecidableEq

structure Peer where
  marked : Bool := false      -- a local entity carries SyncMark, not processed yet (origin only)
  count : Nat := 0            -- live local entities with SyncEntity { uuid }
  tracked : Bool := false     -- the uuid is in the map `entity_removed_*` walks
  wasLive : Bool := false     -- ghost: it has been live here
deriving Repr, DecidableEq

structure Client where
  id : Nat
  p : Peer := {}
  up : List M := []
  down : List M := []
  connected : Bool := true    -- a client that left receives nothing any more and its replication systems no longer run
deriving Repr, DecidableEq

structure State where
  host : Peer := {}
  clients : List Client := []
  sent : Nat := 0             -- ghost
  despawns : Nat := 0         -- ghost: application despawns of a live replica so far
deriving Repr, DecidableEq

inductive Act where
  | markH | createdH | despawnH | removedH
  | pollH (i n : Nat)
  | markC (i : Nat) | createdC (i : Nat) | despawnC (i : Nat) | removedC (i : Nat)
  | pollC (i n : Nat)
  | leave (i : Nat)
deriving Repr, DecidableEq

def onClient (i : Nat) (f : Client → Client) (cs : List Client) : List Client :=
  cs.map (fun c => if c.id = i then f c else c)

def findClient (i : Nat) (cs : List Client) : Option Client := cs.find? (fun c => c.id = i)

/-- host → every connected client -/
def broadcast (m : M) (cs : List Client) : List Client :=
  cs.map (fun c => if c.connected then { c with down := c.down ++ [m] } else c)

/-- `repeat_except_for_client` -/
def relay (i : Nat) (m : M) (cs : List Client) : List Client :=
  cs.map (fun c => if c.connected && c.id != i then { c with down := c.down ++ [m] } else c)

/-- a client handles one message (poll + flush) -/
def clientRecv (p : Peer) : M → Peer
  | .spawn => if p.tracked && p.count > 0 then p          -- duplicate-spawn guard
              else { p with count := p.count + 1, tracked := true, wasLive := true }
  | .delete => if p.tracked && p.count > 0 then { p with count := p.count - 1, tracked := false } else p

/-- the host handles one message of client `i` (poll + flush); returns the peer and what it relays -/
def hostRecv (p : Peer) : M → Peer × M
  | .spawn => ({ p with count := p.count + 1, tracked := true, wasLive := true }, .spawn)
  | .delete => ((if p.tracked && p.count > 0 then { p with count := p.count - 1, tracked := false } else p), .delete)

def created (p : Peer) : Peer :=
  if p.marked then { p with marked := false, count := p.count + 1, tracked := true, wasLive := true } else p

def despawn (p : Peer) : Peer := if p.count > 0 then { p with count := p.count - 1 } else p

/-- `entity_removed_*`: a tracked uuid whose entity no longer answers the query -/
def noticed (p : Peer) : Bool := p.tracked && p.count == 0

def step (s : State) : Act → State
  | .markH => { s with host := { s.host with marked := true } }
  | .createdH =>
    if s.host.marked then
      { s with host := created s.host, clients := broadcast .spawn s.clients,
               sent := s.sent + (s.clients.filter (·.connected)).length }
    else s
  | .despawnH => { s with host := despawn s.host, despawns := s.despawns + (if s.host.count > 0 then 1 else 0) }
  | .removedH =>
    if noticed s.host then
      { s with host := { s.host with tracked := false }, clients := broadcast .delete s.clients,
               sent := s.sent + (s.clients.filter (·.connected)).length }
    else s
  | .pollH i n =>
    match findClient i s.clients with
    | none => s
    | some c =>
      (c.up.take n).foldl (fun s m =>
          let (h', r) := hostRecv s.host m
          { s with host := h', clients := relay i r s.clients,
                   sent := s.sent + (s.clients.filter (fun c => c.connected && c.id != i)).length })
        { s with clients := onClient i (fun c => { c with up := c.up.drop n }) s.clients }
  | .markC i => { s with clients := onClient i (fun c => { c with p := { c.p with marked := true } }) s.clients }
  | .createdC i =>
    { s with clients := onClient i (fun c =>
        if c.connected && c.p.marked then { c with p := created c.p, up := c.up ++ [.spawn] } else c) s.clients,
             sent := s.sent + (match findClient i s.clients with | some c => if c.connected && c.p.marked then 1 else 0 | none => 0) }
  | .despawnC i =>
    { s with clients := onClient i (fun c => { c with p := despawn c.p }) s.clients,
             despawns := s.despawns + (match findClient i s.clients with | some c => if c.p.count > 0 then 1 else 0 | none => 0) }
  | .removedC i =>
    { s with clients := onClient i (fun c =>
        if c.connected && noticed c.p then { c with p := { c.p with tracked := false }, up := c.up ++ [.delete] } else c) s.clients,
             sent := s.sent + (match findClient i s.clients with | some c => if c.connected && noticed c.p then 1 else 0 | none => 0) }
  | .pollC i n =>
    { s with clients := onClient i (fun c =>
        if c.connected then { c with p := (c.down.take n).foldl clientRecv c.p, down := c.down.drop n } else c) s.clients }
  | .leave i => { s with clients := onClient i (fun c => { c with connected := false, down := [] }) s.clients }

def run (s : State) (as : List Act) : State := as.foldl step s

/-- nothing in flight and nothing left to announce -/
def Quiescent (s : State) : Prop :=
  s.host.marked = false ∧ noticed s.host = false ∧
  ∀ c ∈ s.clients, c.connected = true → c.p.marked = false ∧ noticed c.p = false ∧ c.up = [] ∧ c.down = []

end Ent
end BevySync
