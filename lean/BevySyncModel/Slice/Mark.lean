/-! Mark slice (C02, "values the entity already carried when it was marked"): one component `T` an entity
carries when the application marks it with `SyncMark`, on the peer that marks it.

Code modelled (src/lib_priv.rs `sync_detect<T>` / `sync_skinned_mesh`, src/{server,client}/track.rs
`entity_created_on_*`, bevy 0.14 change detection):
* the entity is spawned with `T` and `SyncMark` between two frames: `T`'s change tick is newer than the last
  run of `sync_detect<T>`;
* `entity_created_on_*` (once, `Added<SyncMark>`) queues `insert(SyncEntity)`, applied at the frame's sync point;
* `sync_detect<T>` is not ordered against that sync point: in a given run of the application it runs either
  before or after it, every frame (`before`); its query needs `SyncEntity`; `Changed<T>` / `Added<SyncEntity>`
  are relative to the system's own last run, which advances every frame whether or not anything matched.
`legacy = true` is the filter before its repair (`Changed<T>` only). -/
namespace BevySync
namespace Mark

structure State where
  created : Bool := false      -- entity_created_* has processed the mark
  synced : Bool := false       -- SyncEntity is on the entity
  changedT : Bool := true      -- T changed since sync_detect<T> last ran
  addedS : Bool := false       -- SyncEntity added since sync_detect<T> last ran
  announced : Nat := 0         -- signal_component_changed calls for this key
deriving Repr, DecidableEq

def detect (legacy : Bool) (s : State) : State :=
  let fires := s.synced && (s.changedT || (!legacy && s.addedS))
  { s with changedT := false, addedS := false, announced := s.announced + (if fires then 1 else 0) }

/-- the sync point of the frame in which `entity_created_*` ran -/
def syncPoint (s : State) : State :=
  if s.created && !s.synced then { s with synced := true, addedS := true } else s

/-- one frame of the marking peer; `before` = `sync_detect<T>` runs ahead of the sync point -/
def frame (legacy before : Bool) (s : State) : State :=
  let s := { s with created := true }
  if before then syncPoint (detect legacy s) else detect legacy (syncPoint s)

/-- the application writes `T` between two frames -/
def write (s : State) : State := { s with changedT := true }

def run (legacy before : Bool) (s : State) (n : Nat) : State := (List.range n).foldl (fun s _ => frame legacy before s) s

/-- frames before the peer is connected: `sync_detect<T>` runs (it is not gated), `entity_created_*` does not -/
def idle (legacy : Bool) (s : State) (k : Nat) : State := (List.range k).foldl (fun s _ => detect legacy s) s

end Mark
end BevySync
