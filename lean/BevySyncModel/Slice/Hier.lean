/-! Functional model of bevy_hierarchy's `add_child` (0.14): `set_parent(p)` on a child is
`world.entity_mut(p).add_child(child)`, and `add_child` = `push_children(&[child])`:
`update_old_parents` (re-point the child's `Parent`, remove it from the previous parent's `Children` if
that parent differs), then `children.retain(|c| c != child); children.push(child)`.
The `EntityParented` handlers call `set_parent(p)` followed by `add_child` on `p` once more. -/
namespace BevySync
namespace Hier

structure H where
  par : Nat → Option Nat          -- `Parent` component
  ch : Nat → List Nat             -- `Children` component (empty = absent)

def empty : H := { par := fun _ => none, ch := fun _ => [] }

/-- `world.entity_mut(p).add_child(c)` (requires c ≠ p: bevy asserts an entity is not its own child) -/
def addChild (h : H) (p c : Nat) : H :=
  let prev := h.par c
  { par := fun x => if x = c then some p else h.par x
    ch := fun x =>
      if x = p then (h.ch p).filter (· != c) ++ [c]
      else if prev = some x then (h.ch x).filter (· != c)
      else h.ch x }

/-- what both `EntityParented` handlers do when the link differs: `set_parent(p)` then `add_child` again -/
def applyParented (h : H) (p c : Nat) : H := addChild (addChild h p c) p c

/-- `child ∈ children p ↔ parent child = p`, and no child is listed twice -/
def WF (h : H) : Prop :=
  (∀ c p, h.par c = some p ↔ c ∈ h.ch p) ∧ ∀ p, (h.ch p).Nodup

/-- the `EntityParented` handler with its guard -/
def handle (h : H) (p c : Nat) : H := if h.par c = some p then h else applyParented h p c

/-- one operation of a peer: `(true, p, c)` a handled message, `(false, p, c)` a local `set_parent` -/
def stepOp (h : H) (o : Bool × Nat × Nat) : H := if o.1 then handle h o.2.1 o.2.2 else addChild h o.2.1 o.2.2

def runOps (h : H) (ops : List (Bool × Nat × Nat)) : H := ops.foldl stepOp h

end Hier
end BevySync
