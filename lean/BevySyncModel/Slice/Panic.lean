/-! Crash slice (C08): what the deferred closures queued by `poll_for_messages` do when they finally
run at the end of the frame, after application systems may have despawned entities through
`Commands` (applied before or after, in any order).  A closure returns `.error` exactly where the
Rust code panics.  `Guards` are the facts the translator reads off the source on every run. -/
namespace BevySync
namespace Panic

structure Guards where
  applyLooksUp : Bool         -- apply_component_change_from_network: `get_entity` before touching the entity
  clientParentLooksUp : Bool  -- client EntityParented closure: child and parent looked up with `get_entity*`
  serverParentLooksUp : Bool  -- server EntityParented closure: parent looked up too (the child always was)
  decodeTotal : Bool          -- bin_to_reflect returns `Option` (no unwrap on the wire data / registry)
deriving Repr, DecidableEq

def Guards.all : Guards := ⟨true, true, true, true⟩

abbrev World := List Nat      -- live local entity ids

inductive Panicked where
  | missingEntity (e : Nat)   -- `world.entity(e)` / `entity_mut(e)` / `set_parent(e)` on a despawned entity
  | unwrapNone                -- `.unwrap()` in bin_to_reflect (unknown type path, failed FromReflect …)
deriving Repr, DecidableEq

inductive Step where
  /-- ComponentUpdated closure for local entity `e`; `decodable`: the receiver's registry can rebuild the value -/
  | applyComp (e : Nat) (decodable : Bool)
  /-- StandardMaterialUpdated closure -/
  | applyMaterial (decodable : Bool)
  /-- EntityParented closure on a client / on the host; `changed`: the child is not yet under that parent -/
  | setParentC (child parent : Nat) (changed : Bool)
  | setParentH (child parent : Nat) (changed : Bool)
  /-- `cmd.spawn` / `cmd.get_entity(e).despawn()` issued by poll_for_messages (EntitySpawn / EntityDelete) -/
  | spawnCmd (e : Nat)
  | despawnCmd (e : Nat)
  /-- an application system's `Commands` despawn, applied anywhere in the flush -/
  | appDespawn (e : Nat)
  /-- messages that only touch resources or nothing: Mesh/Image/AudioUpdated, PromoteToHost, NewHost, Request/FinishedInitialSync -/
  | inert
deriving Repr, DecidableEq

deriving instance DecidableEq for Except

def has (w : World) (e : Nat) : Bool := w.contains e

def step (g : Guards) (w : World) : Step → Except Panicked World
  | .applyComp e decodable =>
    if !decodable then (if g.decodeTotal then .ok w else .error .unwrapNone)
    else if has w e then .ok w
    else if g.applyLooksUp then .ok w else .error (.missingEntity e)
  | .applyMaterial decodable =>
    if !decodable then (if g.decodeTotal then .ok w else .error .unwrapNone) else .ok w
  | .setParentC c p changed =>
    if g.clientParentLooksUp then .ok w
    else if !has w c then .error (.missingEntity c)
    else if changed && !has w p then .error (.missingEntity p)
    else .ok w
  | .setParentH c p changed =>
    if !has w c then .ok w                      -- `get_entity_mut(e_id) else return`
    else if g.serverParentLooksUp then .ok w
    else if changed && !has w p then .error (.missingEntity p)
    else .ok w
  | .spawnCmd e => .ok (e :: w)
  | .despawnCmd e => .ok (w.filter (· != e))     -- a despawn command for a missing entity only logs a warning
  | .appDespawn e => .ok (w.filter (· != e))
  | .inert => .ok w

def runAll (g : Guards) : World → List Step → Except Panicked World
  | w, [] => .ok w
  | w, s :: rest =>
    match step g w s with
    | .ok w' => runAll g w' rest
    | .error e => .error e

end Panic
end BevySync
