import BevySyncModel.Proofs.AssetPot
import BevySyncModel.Proofs.MatLive
/-! Bounded time to quiescence for uuid assets of the download classes: from **any** state with distinct client ids, three
fair rounds without publications end in a quiescent state.  A fair round: the host handles every pending `AssetEvent`,
takes every announcement of every client's channel, runs every queued download and applies what arrived; then every client
does the same.  (A download is a thread in the implementation; the round assumes that every queued download completes —
with whatever the owner serves at that moment, or with a 404.) -/
namespace BevySync
namespace Asset
open Comp (iter foldl_inv foldl_max_ge)
open Mat (iter_fixed)

/-! ## tools (the same as in the material slice, for this slice's client type) -/

theorem onClient_onClient (i : Nat) (f g : Client → Client) (cs : List Client) (hg : ∀ c, (g c).id = c.id) :
    onClient i f (onClient i g cs) = onClient i (fun c => f (g c)) cs := by
  unfold onClient
  rw [List.map_map]
  apply List.map_congr_left
  intro c _
  simp only [Function.comp]
  by_cases h : c.id = i
  · simp [h, hg c]
  · simp [h]

theorem onClient_congr (i : Nat) (f g : Client → Client) (cs : List Client)
    (h : ∀ c ∈ cs, c.id = i → f c = g c) : onClient i f cs = onClient i g cs := by
  unfold onClient
  apply List.map_congr_left
  intro c hc
  by_cases hi : c.id = i
  · simp [hi, h c hc hi]
  · simp [hi]

theorem onClient_id (i : Nat) (cs : List Client) : onClient i (fun c => c) cs = cs := by
  unfold onClient
  conv => rhs; rw [← List.map_id cs]
  apply List.map_congr_left
  intro c _
  split <;> rfl

theorem iter_id (f : Client → Client) (hf : ∀ c, (f c).id = c.id) (n : Nat) (c : Client) : (iter f n c).id = c.id := by
  induction n generalizing c with
  | zero => rfl
  | succ n ih => simp only [iter]; rw [ih, hf]

theorem ids_map' (g : Client → Client) (cs : List Client) (hg : ∀ c, (g c).id = c.id) :
    (cs.map g).map (·.id) = cs.map (·.id) := by
  rw [List.map_map]
  apply List.map_congr_left
  intro c _
  exact hg c

theorem ids_onClient' (i : Nat) (f : Client → Client) (cs : List Client) (hf : ∀ c, (f c).id = c.id) :
    (onClient i f cs).map (·.id) = cs.map (·.id) := by
  unfold onClient
  exact ids_map' _ _ (fun c => by split; exact hf c; rfl)

theorem mem_onClient_of {i : Nat} (f : Client → Client) {cs : List Client} {c : Client} (hc : c ∈ cs) (hi : c.id = i) :
    f c ∈ onClient i f cs := by
  unfold onClient
  exact List.mem_map.mpr ⟨c, hc, by simp [hi]⟩

/-! ## what a peer does in a round -/

def covered (p : Peer) : Prop := p.events ≤ p.tokens

theorem react_spec (p : Peer) : (react p).1.events = p.events - 1 ∧ (react p).1.slot = p.slot ∧ (react p).1.jobs = p.jobs ∧
    (covered p → (react p).2 = false ∧ covered (react p).1) := by
  by_cases h0 : p.events = 0
  · have e : react p = (p, false) := by simp [react, h0]
    rw [e]
    exact ⟨by rw [h0], rfl, rfl, fun h => ⟨rfl, h⟩⟩
  · by_cases ht : p.tokens > 0
    · have e : react p = ({ p with events := p.events - 1, tokens := p.tokens - 1 }, false) := by simp [react, h0, ht]
      rw [e]
      refine ⟨rfl, rfl, rfl, fun h => ⟨rfl, ?_⟩⟩
      unfold covered at *
      show p.events - 1 ≤ p.tokens - 1
      omega
    · have e : react p = ({ p with events := p.events - 1, served := p.content }, true) := by simp [react, h0, ht]
      rw [e]
      refine ⟨rfl, rfl, rfl, fun h => ?_⟩
      unfold covered at h
      omega

theorem fetch_spec (s : State) (p : Peer) : (fetch s p).events = p.events ∧ (fetch s p).tokens = p.tokens ∧
    (fetch s p).jobs.length = p.jobs.length - 1 ∧ (p.jobs = [] → fetch s p = p) := by
  unfold fetch
  cases hj : p.jobs with
  | nil => exact ⟨rfl, rfl, by rw [hj]; rfl, fun _ => rfl⟩
  | cons o rest =>
    simp only [landed]
    cases servedBy s o <;> exact ⟨rfl, rfl, by simp, fun h => by cases h⟩

theorem process_spec (p : Peer) : (process true p).slot = none ∧ (process true p).jobs = p.jobs ∧
    (covered p → covered (process true p)) ∧ (p.slot = none → process true p = p) := by
  unfold process
  cases hs : p.slot with
  | none => exact ⟨hs, rfl, fun h => h, fun _ => rfl⟩
  | some v =>
    refine ⟨rfl, rfl, fun h => ?_, fun h => by cases h⟩
    unfold covered at *
    simp only [if_true]
    omega

/-! ### a client's visit -/

theorem cReact_id (c : Client) : (cReact c).id = c.id := by
  unfold cReact; split <;> rfl
theorem cPoll_id (c : Client) : (cPoll false c).id = c.id := by
  unfold cPoll; split <;> rfl

theorem cReact_spec (c : Client) : (cReact c).p.events = c.p.events - 1 ∧ (cReact c).down = c.down ∧
    (cReact c).p.slot = c.p.slot ∧ (cReact c).p.jobs = c.p.jobs ∧
    (covered c.p → covered (cReact c).p ∧ (cReact c).up = c.up) := by
  obtain ⟨h1, h2, h3, h4⟩ := react_spec c.p
  cases hr : (react c.p).2 with
  | false =>
    have e : cReact c = { c with p := (react c.p).1 } := by simp [cReact, hr]
    rw [e]
    exact ⟨h1, rfl, h2, h3, fun h => ⟨(h4 h).2, rfl⟩⟩
  | true =>
    have e : cReact c = { c with p := (react c.p).1, up := c.up ++ [c.id] } := by simp [cReact, hr]
    rw [e]
    refine ⟨h1, rfl, h2, h3, fun h => ?_⟩
    rw [(h4 h).1] at hr
    cases hr

theorem iter_cReact (n : Nat) (c : Client) :
    (iter cReact n c).p.events = c.p.events - n ∧ (iter cReact n c).down = c.down ∧
    (iter cReact n c).p.slot = c.p.slot ∧ (iter cReact n c).p.jobs = c.p.jobs ∧
    (covered c.p → covered (iter cReact n c).p ∧ (iter cReact n c).up = c.up) := by
  induction n generalizing c with
  | zero => exact ⟨rfl, rfl, rfl, rfl, fun h => ⟨h, rfl⟩⟩
  | succ n ih =>
    obtain ⟨a1, a2, a3, a4, a5⟩ := cReact_spec c
    obtain ⟨b1, b2, b3, b4, b5⟩ := ih (cReact c)
    simp only [iter]
    refine ⟨by rw [b1, a1]; omega, b2.trans a2, b3.trans a3, b4.trans a4, fun h => ?_⟩
    obtain ⟨x, y⟩ := a5 h
    obtain ⟨z, w⟩ := b5 x
    exact ⟨z, w.trans y⟩

theorem cPoll_spec (c : Client) : (cPoll false c).p.events = c.p.events ∧ (cPoll false c).p.tokens = c.p.tokens ∧
    (cPoll false c).p.slot = c.p.slot ∧ (cPoll false c).up = c.up ∧
    (cPoll false c).down.length = c.down.length - 1 ∧ (c.down = [] → cPoll false c = c) := by
  cases hd : c.down with
  | nil =>
    have e : cPoll false c = c := by simp [cPoll, hd]
    rw [e]
    exact ⟨rfl, rfl, rfl, rfl, by rw [hd]; rfl, fun _ => rfl⟩
  | cons o rest =>
    have e : cPoll false c = { c with p := request false c.p o, down := rest } := by simp [cPoll, hd]
    rw [e]
    exact ⟨by simp [request], by simp [request], by simp [request], rfl, by simp, fun h => by cases h⟩

theorem iter_cPoll (n : Nat) (c : Client) : (iter (cPoll false) n c).p.events = c.p.events ∧
    (iter (cPoll false) n c).p.tokens = c.p.tokens ∧ (iter (cPoll false) n c).p.slot = c.p.slot ∧
    (iter (cPoll false) n c).up = c.up ∧ (iter (cPoll false) n c).down.length = c.down.length - n ∧
    (c.down = [] → iter (cPoll false) n c = c) := by
  induction n generalizing c with
  | zero => exact ⟨rfl, rfl, rfl, rfl, rfl, fun _ => rfl⟩
  | succ n ih =>
    obtain ⟨a1, a2, a3, a4, a5, a6⟩ := cPoll_spec c
    obtain ⟨b1, b2, b3, b4, b5, b6⟩ := ih (cPoll false c)
    simp only [iter]
    refine ⟨b1.trans a1, b2.trans a2, b3.trans a3, b4.trans a4, by rw [b5, a5]; omega, fun h => ?_⟩
    have e := a6 h
    rw [e] at b6 ⊢
    exact b6 h

/-- fetching is the only client action that reads the rest of the state (what the owners serve) -/
def cFetchS (s : State) (c : Client) : Client := cFetch s c

theorem cFetch_spec (s : State) (c : Client) : (cFetch s c).id = c.id ∧ (cFetch s c).p.events = c.p.events ∧
    (cFetch s c).p.tokens = c.p.tokens ∧ (cFetch s c).up = c.up ∧ (cFetch s c).down = c.down ∧
    (cFetch s c).p.jobs.length = c.p.jobs.length - 1 ∧ (c.p.jobs = [] → cFetch s c = c) := by
  obtain ⟨f1, f2, f3, f4⟩ := fetch_spec s c.p
  refine ⟨rfl, f1, f2, rfl, rfl, f3, fun h => ?_⟩
  unfold cFetch
  rw [f4 h]

theorem cProcess_spec (c : Client) : (cProcess true c).id = c.id ∧ (cProcess true c).p.slot = none ∧
    (cProcess true c).p.jobs = c.p.jobs ∧ (cProcess true c).up = c.up ∧ (cProcess true c).down = c.down ∧
    (covered c.p → covered (cProcess true c).p) ∧ (c.p.slot = none → cProcess true c = c) := by
  obtain ⟨p1, p2, p3, p4⟩ := process_spec c.p
  refine ⟨rfl, p1, p2, rfl, rfl, p3, fun h => ?_⟩
  unfold cProcess
  rw [p4 h]

/-! ### downloads read the rest of the state only through what the owners serve, and do not change it -/

def fetchW (sv : Nat → Option Nat) (p : Peer) : Peer :=
  match p.jobs with
  | [] => p
  | o :: rest => landed p rest (sv o)

def cFetchW (sv : Nat → Option Nat) (c : Client) : Client := { c with p := fetchW sv c.p }

theorem cFetch_eq (s : State) (c : Client) : cFetch s c = cFetchW (servedBy s) c := rfl

theorem fetchW_served (sv : Nat → Option Nat) (p : Peer) : (fetchW sv p).served = p.served := by
  unfold fetchW
  cases p.jobs with
  | nil => rfl
  | cons o rest => simp only [landed]; cases sv o <;> rfl

theorem findClient_onClient (o i : Nat) (f : Client → Client) (hf : ∀ c, (f c).id = c.id) (cs : List Client) :
    findClient o (onClient i f cs) = (findClient o cs).map (fun c => if c.id = i then f c else c) := by
  unfold findClient onClient
  induction cs with
  | nil => rfl
  | cons c cs ih =>
    simp only [List.map_cons, List.find?_cons]
    have hid : (if c.id = i then f c else c).id = c.id := by split; exact hf c; rfl
    rw [hid]
    by_cases h : c.id = o
    · simp [h]
    · simp only [h, decide_false]; exact ih

theorem servedBy_fetchC (t : State) (i : Nat) : servedBy (step true false t (.fetchC i)) = servedBy t := by
  funext o
  unfold servedBy
  by_cases h0 : o = 0
  · simp [h0, step]
  · simp only [h0, if_false]
    have e : (step true false t (.fetchC i)).clients = onClient i (cFetch t) t.clients := rfl
    rw [e, findClient_onClient o i (cFetch t) (fun _ => rfl)]
    cases findClient o t.clients with
    | none => rfl
    | some c =>
      simp only [Option.map_some, Option.bind_some]
      split
      · exact fetchW_served _ _
      · rfl

theorem iter_fetchC (i : Nat) (n : Nat) (t : State) :
    (iter (fun t => step true false t (.fetchC i)) n t).clients = onClient i (iter (cFetchW (servedBy t)) n) t.clients ∧
    (iter (fun t => step true false t (.fetchC i)) n t).host = t.host := by
  induction n generalizing t with
  | zero => exact ⟨(onClient_id i t.clients).symm, rfl⟩
  | succ n ih =>
    obtain ⟨a, b⟩ := ih (step true false t (.fetchC i))
    simp only [iter]
    refine ⟨?_, b⟩
    rw [a, servedBy_fetchC]
    have e : (step true false t (.fetchC i)).clients = onClient i (cFetchW (servedBy t)) t.clients := rfl
    rw [e]
    exact onClient_onClient i _ _ _ (fun _ => rfl)

theorem cFetchW_spec (sv : Nat → Option Nat) (c : Client) : (cFetchW sv c).id = c.id ∧
    (cFetchW sv c).p.events = c.p.events ∧ (cFetchW sv c).p.tokens = c.p.tokens ∧ (cFetchW sv c).up = c.up ∧
    (cFetchW sv c).down = c.down ∧ (cFetchW sv c).p.jobs.length = c.p.jobs.length - 1 ∧
    (c.p.jobs = [] → cFetchW sv c = c) := by
  cases hj : c.p.jobs with
  | nil =>
    have e : cFetchW sv c = c := by
      unfold cFetchW fetchW
      rw [hj]
    rw [e]
    exact ⟨rfl, rfl, rfl, rfl, rfl, by rw [hj]; rfl, fun _ => rfl⟩
  | cons o rest =>
    cases hs : sv o with
    | none =>
      have e : cFetchW sv c = { c with p := { c.p with jobs := rest } } := by
        unfold cFetchW fetchW
        rw [hj]
        simp only [landed, hs]
      rw [e]
      exact ⟨rfl, rfl, rfl, rfl, rfl, by simp, fun h => by cases h⟩
    | some v =>
      have e : cFetchW sv c = { c with p := { c.p with jobs := rest, slot := some v } } := by
        unfold cFetchW fetchW
        rw [hj]
        simp only [landed, hs]
      rw [e]
      exact ⟨rfl, rfl, rfl, rfl, rfl, by simp, fun h => by cases h⟩

theorem iter_cFetchW (sv : Nat → Option Nat) (n : Nat) (c : Client) : (iter (cFetchW sv) n c).id = c.id ∧
    (iter (cFetchW sv) n c).p.events = c.p.events ∧ (iter (cFetchW sv) n c).p.tokens = c.p.tokens ∧
    (iter (cFetchW sv) n c).up = c.up ∧ (iter (cFetchW sv) n c).down = c.down ∧
    (iter (cFetchW sv) n c).p.jobs.length = c.p.jobs.length - n ∧ (c.p.jobs = [] → iter (cFetchW sv) n c = c) := by
  induction n generalizing c with
  | zero => exact ⟨rfl, rfl, rfl, rfl, rfl, rfl, fun _ => rfl⟩
  | succ n ih =>
    obtain ⟨a0, a1, a2, a3, a4, a5, a6⟩ := cFetchW_spec sv c
    obtain ⟨b0, b1, b2, b3, b4, b5, b6⟩ := ih (cFetchW sv c)
    simp only [iter]
    refine ⟨b0.trans a0, b1.trans a1, b2.trans a2, b3.trans a3, b4.trans a4, by rw [b5, a5]; omega, fun h => ?_⟩
    have e := a6 h
    rw [e] at b6 ⊢
    exact b6 h

/-! ### the client's part of a round on the state -/

def maxEvents (s : State) : Nat := (s.clients.map (·.p.events)).foldl max 0
def maxUp (s : State) : Nat := (s.clients.map (·.up.length)).foldl max 0
def maxDown (s : State) : Nat := (s.clients.map (·.down.length)).foldl max 0
def maxJobs (s : State) : Nat := (s.clients.map (·.p.jobs.length)).foldl max 0

theorem le_maxEvents (s : State) (c : Client) (h : c ∈ s.clients) : c.p.events ≤ maxEvents s :=
  (foldl_max_ge _ 0).2 _ (List.mem_map.mpr ⟨c, h, rfl⟩)
theorem le_maxUp (s : State) (c : Client) (h : c ∈ s.clients) : c.up.length ≤ maxUp s :=
  (foldl_max_ge _ 0).2 _ (List.mem_map.mpr ⟨c, h, rfl⟩)
theorem le_maxDown (s : State) (c : Client) (h : c ∈ s.clients) : c.down.length ≤ maxDown s :=
  (foldl_max_ge _ 0).2 _ (List.mem_map.mpr ⟨c, h, rfl⟩)
theorem le_maxJobs (s : State) (c : Client) (h : c ∈ s.clients) : c.p.jobs.length ≤ maxJobs s :=
  (foldl_max_ge _ 0).2 _ (List.mem_map.mpr ⟨c, h, rfl⟩)

/-- repeating a per-client action that does not read the state -/
theorem iter_onClient (g : State → State) (i : Nat) (f : Client → Client) (hf : ∀ c, (f c).id = c.id)
    (hg : ∀ t, (g t).clients = onClient i f t.clients ∧ (g t).host = t.host) (n : Nat) (s : State) :
    (iter g n s).clients = onClient i (iter f n) s.clients ∧ (iter g n s).host = s.host := by
  induction n generalizing s with
  | zero => exact ⟨(onClient_id i s.clients).symm, rfl⟩
  | succ n ih =>
    obtain ⟨a, b⟩ := ih (g s)
    obtain ⟨d, e⟩ := hg s
    simp only [iter]
    refine ⟨?_, b.trans e⟩
    rw [a, d]
    exact onClient_onClient i (iter f n) f _ hf

def cp1 (i : Nat) (s : State) : State := iter (fun t => step true false t (.reactC i)) (maxEvents s) s
def cp2 (i : Nat) (s : State) : State := iter (fun t => step true false t (.pollC i)) (maxDown (cp1 i s)) (cp1 i s)
def cp3 (i : Nat) (s : State) : State := iter (fun t => step true false t (.fetchC i)) (maxJobs (cp2 i s)) (cp2 i s)
def clientPhase (i : Nat) (s : State) : State := step true false (cp3 i s) (.processC i)

/-- a visit: everything handled, every remaining event covered -/
def Post1 (c : Client) : Prop := covered c.p ∧ c.down = [] ∧ c.p.jobs = [] ∧ c.p.slot = none

/-- what the client's part of a round does to the client with that id (others are not touched) -/
theorem clientPhase_spec (i : Nat) (s : State) :
    (clientPhase i s).host = s.host ∧ (clientPhase i s).clients.map (·.id) = s.clients.map (·.id) ∧
    ∀ c' ∈ (clientPhase i s).clients, ∃ c ∈ s.clients, c'.id = c.id ∧ (c.id ≠ i → c' = c) ∧
      (c.id = i → Post1 c' ∧ (covered c.p → c'.up = c.up) ∧
        (covered c.p → c.down = [] → c.p.jobs = [] → c.p.slot = none → c'.p.events = 0 ∧ c'.up = c.up)) := by
  obtain ⟨a1, a2⟩ := iter_onClient (fun t => step true false t (.reactC i)) i cReact cReact_id
    (fun _ => ⟨rfl, rfl⟩) (maxEvents s) s
  obtain ⟨b1, b2⟩ := iter_onClient (fun t => step true false t (.pollC i)) i (cPoll false) cPoll_id
    (fun _ => ⟨rfl, rfl⟩) (maxDown (cp1 i s)) (cp1 i s)
  obtain ⟨c1, c2⟩ := iter_fetchC i (maxJobs (cp2 i s)) (cp2 i s)
  have d1 : (clientPhase i s).clients = onClient i (cProcess true) (cp3 i s).clients := rfl
  have hcl : (clientPhase i s).clients = onClient i (fun c => cProcess true (iter (cFetchW (servedBy (cp2 i s))) (maxJobs (cp2 i s))
      (iter (cPoll false) (maxDown (cp1 i s)) (iter cReact (maxEvents s) c)))) s.clients := by
    rw [d1]
    unfold cp3
    rw [c1]
    unfold cp2
    rw [b1]
    unfold cp1
    rw [a1]
    rw [onClient_onClient i (iter (cPoll false) _) (iter cReact _) _ (fun c => iter_id _ cReact_id _ c)]
    rw [onClient_onClient i (iter (cFetchW _) _) (fun c => iter (cPoll false) _ (iter cReact _ c)) _
      (fun c => by rw [iter_id _ cPoll_id, iter_id _ cReact_id])]
    rw [onClient_onClient i (cProcess true) _ _
      (fun c => by rw [(iter_cFetchW _ _ _).1, iter_id _ cPoll_id, iter_id _ cReact_id])]
  refine ⟨?_, ?_, ?_⟩
  · show (cp3 i s).host = s.host
    unfold cp3; rw [c2]; unfold cp2; rw [b2]; unfold cp1; rw [a2]
  · rw [hcl]
    exact ids_onClient' i _ _ (fun c => by
      rw [(cProcess_spec _).1, (iter_cFetchW _ _ _).1, iter_id _ cPoll_id, iter_id _ cReact_id])
  · intro c' hc'
    rw [hcl] at hc'
    obtain ⟨c, hc, rfl⟩ := mem_onClient hc'
    refine ⟨c, hc, ?_, ?_, ?_⟩
    · split
      · rw [(cProcess_spec _).1, (iter_cFetchW _ _ _).1, iter_id _ cPoll_id, iter_id _ cReact_id]
      · rfl
    · intro hne; rw [if_neg hne]
    · intro hci
      rw [if_pos hci]
      -- the counts are large enough for this client
      have m1 : iter cReact (maxEvents s) c ∈ (cp1 i s).clients := by
        unfold cp1; rw [a1]; exact mem_onClient_of _ hc hci
      have m2 : iter (cPoll false) (maxDown (cp1 i s)) (iter cReact (maxEvents s) c) ∈ (cp2 i s).clients := by
        unfold cp2; rw [b1]
        exact mem_onClient_of _ m1 (by rw [iter_id _ cReact_id]; exact hci)
      obtain ⟨r1, r2, r3, r4, r5⟩ := iter_cReact (maxEvents s) c
      obtain ⟨p1, p2, p3, p4, p5, p6⟩ := iter_cPoll (maxDown (cp1 i s)) (iter cReact (maxEvents s) c)
      obtain ⟨_, f1, f2, f3, f4, f5, f6⟩ := iter_cFetchW (servedBy (cp2 i s)) (maxJobs (cp2 i s))
        (iter (cPoll false) (maxDown (cp1 i s)) (iter cReact (maxEvents s) c))
      obtain ⟨_, q1, q2, q3, q4, q5, q6⟩ := cProcess_spec (iter (cFetchW (servedBy (cp2 i s))) (maxJobs (cp2 i s))
        (iter (cPoll false) (maxDown (cp1 i s)) (iter cReact (maxEvents s) c)))
      have hev : (iter cReact (maxEvents s) c).p.events = 0 := by
        rw [r1]; have := le_maxEvents s c hc; omega
      have hdown : (iter (cPoll false) (maxDown (cp1 i s)) (iter cReact (maxEvents s) c)).down = [] := by
        apply List.eq_nil_of_length_eq_zero
        rw [p5]; have := le_maxDown _ _ m1; omega
      have hjobs : (iter (cFetchW (servedBy (cp2 i s))) (maxJobs (cp2 i s))
          (iter (cPoll false) (maxDown (cp1 i s)) (iter cReact (maxEvents s) c))).p.jobs = [] := by
        apply List.eq_nil_of_length_eq_zero
        rw [f5]; have := le_maxJobs _ _ m2; omega
      have hcov : covered (iter (cFetchW (servedBy (cp2 i s))) (maxJobs (cp2 i s))
          (iter (cPoll false) (maxDown (cp1 i s)) (iter cReact (maxEvents s) c))).p := by
        unfold covered
        rw [f1, f2, p1, p2, hev]
        exact Nat.zero_le _
      refine ⟨⟨q5 hcov, by rw [q4, f4]; exact hdown, by rw [q2]; exact hjobs, q1⟩, fun h => ?_, fun h hd hj hs => ?_⟩
      · rw [q3, f3, p4, (r5 h).2]
      · -- nothing to poll, to fetch or to apply: only the events are handled
        have e2 : iter (cPoll false) (maxDown (cp1 i s)) (iter cReact (maxEvents s) c) = iter cReact (maxEvents s) c :=
          p6 (by rw [r2]; exact hd)
        have e3 : iter (cFetchW (servedBy (cp2 i s))) (maxJobs (cp2 i s)) (iter cReact (maxEvents s) c) =
            iter cReact (maxEvents s) c :=
          (iter_cFetchW _ _ _).2.2.2.2.2.2 (by rw [r4]; exact hj)
        have e4 : cProcess true (iter cReact (maxEvents s) c) = iter cReact (maxEvents s) c :=
          (cProcess_spec _).2.2.2.2.2.2 (by rw [r3]; exact hs)
        rw [e2, e3, e4]
        exact ⟨hev, (r5 h).2⟩

/-! ## the host's part of a round -/

def KeepsP (cs cs' : List Client) : Prop := ∀ c' ∈ cs', ∃ c ∈ cs, c'.id = c.id ∧ c'.p = c.p

theorem keepsP_refl (cs : List Client) : KeepsP cs cs := fun c hc => ⟨c, hc, rfl, rfl⟩

theorem keepsP_trans {a b c : List Client} (h1 : KeepsP a b) (h2 : KeepsP b c) : KeepsP a c := by
  intro x hx
  obtain ⟨y, hy, e1, e2⟩ := h2 x hx
  obtain ⟨z, hz, f1, f2⟩ := h1 y hy
  exact ⟨z, hz, e1.trans f1, e2.trans f2⟩

theorem keepsP_map (g : Client → Client) (cs : List Client) (hg : ∀ c, (g c).id = c.id ∧ (g c).p = c.p) :
    KeepsP cs (cs.map g) := by
  intro x hx
  obtain ⟨c, hc, rfl⟩ := List.mem_map.mp hx
  exact ⟨c, hc, (hg c).1, (hg c).2⟩

theorem reactH_spec (t : State) :
    (step true false t .reactH).host = (react t.host).1 ∧
    ∃ q : List Nat, (step true false t .reactH).clients = t.clients.map (fun c => { c with down := c.down ++ q }) ∧
      ((react t.host).2 = false → q = []) := by
  cases hr : (react t.host).2 with
  | false =>
    have e : step true false t .reactH = { t with host := (react t.host).1 } := by simp [step, hr]
    rw [e]
    refine ⟨rfl, [], ?_, fun _ => rfl⟩
    conv => lhs; rw [← List.map_id t.clients]
    apply List.map_congr_left
    intro c _
    simp
  | true =>
    have e : step true false t .reactH =
        { t with
          host := (react t.host).1
          clients := t.clients.map (fun c => { c with down := c.down ++ [0] })
          sent := t.sent + t.clients.length } := by simp [step, hr]
    rw [e]
    exact ⟨rfl, [0], rfl, fun h => by cases h⟩

theorem iter_reactH (n : Nat) (t : State) :
    (iter (fun t => step true false t .reactH) n t).host.events = t.host.events - n ∧
    (iter (fun t => step true false t .reactH) n t).host.slot = t.host.slot ∧
    (iter (fun t => step true false t .reactH) n t).host.jobs = t.host.jobs ∧
    (covered t.host → covered (iter (fun t => step true false t .reactH) n t).host) ∧
    ∃ q : List Nat, (iter (fun t => step true false t .reactH) n t).clients = t.clients.map (fun c => { c with down := c.down ++ q }) ∧
      (covered t.host → q = []) := by
  induction n generalizing t with
  | zero =>
    refine ⟨rfl, rfl, rfl, fun h => h, [], ?_, fun _ => rfl⟩
    simp only [iter]
    conv => lhs; rw [← List.map_id t.clients]
    apply List.map_congr_left
    intro c _
    simp
  | succ n ih =>
    obtain ⟨a1, q1, a3, a4⟩ := reactH_spec t
    obtain ⟨b1, b2, b3, b4, q2, b5, b6⟩ := ih (step true false t .reactH)
    obtain ⟨r1, r2, r3, r4⟩ := react_spec t.host
    simp only [iter]
    refine ⟨by rw [b1, a1, r1]; omega, by rw [b2, a1, r2], by rw [b3, a1, r3], fun h => b4 (by rw [a1]; exact (r4 h).2),
      q1 ++ q2, ?_, ?_⟩
    · rw [b5, a3, List.map_map]
      apply List.map_congr_left
      intro c _
      simp [List.append_assoc]
    · intro h
      rw [a4 (r4 h).1, b6 (by rw [a1]; exact (r4 h).2)]
      rfl

theorem findClient_none_absent {i : Nat} {cs : List Client} (h : findClient i cs = none) : ∀ c ∈ cs, c.id ≠ i := by
  intro c hc hci
  unfold findClient at h
  have := List.find?_eq_none.mp h c hc
  simp [hci] at this

/-- what polling does to the clients: the channel of client `i` loses `k` announcements, nobody's peer state changes -/
def PollRel (i k : Nat) (cs cs' : List Client) : Prop :=
  cs'.map (·.id) = cs.map (·.id) ∧
  ∀ c' ∈ cs', ∃ c ∈ cs, c'.id = c.id ∧ c'.p = c.p ∧ (c.id = i → c'.up = c.up.drop k) ∧ (c.id ≠ i → c'.up = c.up)

theorem pollH_spec (i : Nat) (t : State) (hn : (t.clients.map (·.id)).Nodup) :
    (step true false t (.pollH i)).host.events = t.host.events ∧ (step true false t (.pollH i)).host.tokens = t.host.tokens ∧
    (step true false t (.pollH i)).host.slot = t.host.slot ∧
    PollRel i 1 t.clients (step true false t (.pollH i)).clients ∧
    ((∀ c ∈ t.clients, c.id = i → c.up = []) → step true false t (.pollH i) = t) := by
  have hrefl : PollRel i 1 t.clients t.clients → True := fun _ => trivial
  cases hf : findClient i t.clients with
  | none =>
    have e : step true false t (.pollH i) = t := by simp only [step, hf]
    rw [e]
    refine ⟨rfl, rfl, rfl, ⟨rfl, fun c hc => ⟨c, hc, rfl, rfl, fun h => absurd h (findClient_none_absent hf c hc), fun _ => rfl⟩⟩,
      fun _ => rfl⟩
  | some c0 =>
    obtain ⟨hm0, hi0⟩ := findClient_spec hf
    have huniq : ∀ c ∈ t.clients, c.id = i → c = c0 := by
      intro c hc hci
      have := findClient_of_mem hn hc hci
      rw [hf] at this
      exact (Option.some.inj this).symm
    cases hup : c0.up with
    | nil =>
      have e : step true false t (.pollH i) = t := by simp only [step, hf, hup]
      rw [e]
      refine ⟨rfl, rfl, rfl, ⟨rfl, fun c hc => ⟨c, hc, rfl, rfl, fun h => ?_, fun _ => rfl⟩⟩, fun _ => rfl⟩
      have := huniq c hc h
      subst this
      rw [hup]; rfl
    | cons o rest =>
      have e : step true false t (.pollH i) =
          { t with
            host := request false t.host o
            clients := t.clients.map (fun c => if c.id = i then { c with up := rest } else { c with down := c.down ++ [o] })
            sent := t.sent + (t.clients.filter (fun c => c.id ≠ i)).length } := by simp only [step, hf, hup]
      rw [e]
      refine ⟨by simp [request], by simp [request], by simp [request], ⟨?_, ?_⟩, fun h => ?_⟩
      · exact ids_map' _ _ (fun c => by split <;> rfl)
      · intro c' hc'
        obtain ⟨c, hc, rfl⟩ := List.mem_map.mp hc'
        refine ⟨c, hc, ?_⟩
        by_cases hci : c.id = i
        · have := huniq c hc hci
          subst this
          simp [hci, hup]
        · simp [hci]
      · have := h c0 hm0 hi0
        rw [hup] at this
        cases this

theorem pollRel_trans (i a b : Nat) {x y z : List Client} (h1 : PollRel i a x y) (h2 : PollRel i b y z) :
    PollRel i (a + b) x z := by
  refine ⟨h2.1.trans h1.1, fun c' hc' => ?_⟩
  obtain ⟨c, hc, e1, e2, e3, e4⟩ := h2.2 c' hc'
  obtain ⟨d, hd, f1, f2, f3, f4⟩ := h1.2 c hc
  refine ⟨d, hd, e1.trans f1, e2.trans f2, fun h => ?_, fun h => ?_⟩
  · have hc2 : c.id = i := by rw [f1]; exact h
    rw [e3 hc2, f3 h, List.drop_drop]
  · have hc2 : c.id ≠ i := by rw [f1]; exact h
    rw [e4 hc2, f4 h]

theorem iter_pollH (i : Nat) (k : Nat) (t : State) (hn : (t.clients.map (·.id)).Nodup) :
    (iter (fun t => step true false t (.pollH i)) k t).host.events = t.host.events ∧
    (iter (fun t => step true false t (.pollH i)) k t).host.tokens = t.host.tokens ∧
    (iter (fun t => step true false t (.pollH i)) k t).host.slot = t.host.slot ∧
    PollRel i k t.clients (iter (fun t => step true false t (.pollH i)) k t).clients ∧
    ((∀ c ∈ t.clients, c.id = i → c.up = []) → iter (fun t => step true false t (.pollH i)) k t = t) := by
  induction k generalizing t with
  | zero =>
    refine ⟨rfl, rfl, rfl, ⟨rfl, fun c hc => ⟨c, hc, rfl, rfl, fun _ => by simp, fun _ => rfl⟩⟩, fun _ => rfl⟩
  | succ k ih =>
    obtain ⟨a1, a2, a3, a4, a5⟩ := pollH_spec i t hn
    have hn' : ((step true false t (.pollH i)).clients.map (·.id)).Nodup := by rw [a4.1]; exact hn
    obtain ⟨b1, b2, b3, b4, b5⟩ := ih (step true false t (.pollH i)) hn'
    simp only [iter]
    refine ⟨b1.trans a1, b2.trans a2, b3.trans a3, ?_, fun h => ?_⟩
    · have := pollRel_trans i 1 k a4 b4
      rw [Nat.add_comm] at this
      exact this
    · have e := a5 h
      rw [e] at b5 ⊢
      exact b5 h

def pollI (i : Nat) (t : State) : State := iter (fun t => step true false t (.pollH i)) (maxUp t) t

def hp1 (s : State) : State := iter (fun t => step true false t .reactH) s.host.events s
def hp2 (s : State) : State := (s.clients.map (·.id)).foldl (fun t i => pollI i t) (hp1 s)
def hp3 (s : State) : State := iter (fun t => step true false t .fetchH) (hp2 s).host.jobs.length (hp2 s)
def hostPhase (s : State) : State := step true false (hp3 s) .processH

theorem pollAllA (is : List Nat) (s : State) (hn : (s.clients.map (·.id)).Nodup) :
    (is.foldl (fun t i => pollI i t) s).host.events = s.host.events ∧
    (is.foldl (fun t i => pollI i t) s).host.tokens = s.host.tokens ∧
    (is.foldl (fun t i => pollI i t) s).host.slot = s.host.slot ∧
    KeepsP s.clients (is.foldl (fun t i => pollI i t) s).clients ∧
    (is.foldl (fun t i => pollI i t) s).clients.map (·.id) = s.clients.map (·.id) ∧
    (∀ c ∈ (is.foldl (fun t i => pollI i t) s).clients, c.id ∈ is → c.up = []) ∧
    ((∀ c ∈ s.clients, c.up = []) → is.foldl (fun t i => pollI i t) s = s) := by
  have key := foldl_inv (fun t i => pollI i t)
    (fun done t => t.host.events = s.host.events ∧ t.host.tokens = s.host.tokens ∧ t.host.slot = s.host.slot ∧
      KeepsP s.clients t.clients ∧ t.clients.map (·.id) = s.clients.map (·.id) ∧
      (∀ c ∈ t.clients, c.id ∈ done → c.up = []) ∧ ((∀ c ∈ s.clients, c.up = []) → t = s))
    is [] s
    ⟨rfl, rfl, rfl, keepsP_refl _, rfl, fun _ _ h => by simp at h, fun _ => rfl⟩
    (by
      intro done i t ⟨h1, h2, h3, h4, h5, h6, h7⟩
      have hnt : (t.clients.map (·.id)).Nodup := by rw [h5]; exact hn
      obtain ⟨p1, p2, p3, p4, p5⟩ := iter_pollH i (maxUp t) t hnt
      refine ⟨p1.trans h1, p2.trans h2, p3.trans h3, ?_, p4.1.trans h5, ?_, ?_⟩
      · refine keepsP_trans h4 ?_
        intro c' hc'
        obtain ⟨c, hc, e1, e2, _, _⟩ := p4.2 c' hc'
        exact ⟨c, hc, e1, e2⟩
      · intro c' hc' hin
        obtain ⟨c, hc, e1, _, e3, e4⟩ := p4.2 c' hc'
        by_cases hci : c.id = i
        · rw [e3 hci]
          exact List.drop_eq_nil_of_le (le_maxUp t c hc)
        · rw [e4 hci]
          simp only [List.mem_append, List.mem_singleton] at hin
          rcases hin with hin | hin
          · exact h6 c hc (e1 ▸ hin)
          · exact absurd (e1 ▸ hin) hci
      · intro hq
        have ht := h7 hq
        show pollI i t = s
        unfold pollI
        rw [p5 (fun c hc _ => by rw [ht] at hc; exact hq c hc), ht])
  simpa using key

theorem iter_fetchH (n : Nat) (t : State) :
    (iter (fun t => step true false t .fetchH) n t).host.events = t.host.events ∧
    (iter (fun t => step true false t .fetchH) n t).host.tokens = t.host.tokens ∧
    (iter (fun t => step true false t .fetchH) n t).host.jobs.length = t.host.jobs.length - n ∧
    (iter (fun t => step true false t .fetchH) n t).clients = t.clients ∧
    (t.host.jobs = [] → iter (fun t => step true false t .fetchH) n t = t) := by
  induction n generalizing t with
  | zero => exact ⟨rfl, rfl, rfl, rfl, fun _ => rfl⟩
  | succ n ih =>
    obtain ⟨f1, f2, f3, f4⟩ := fetch_spec t t.host
    obtain ⟨b1, b2, b3, b4, b5⟩ := ih (step true false t .fetchH)
    have eh : (step true false t .fetchH).host = fetch t t.host := rfl
    simp only [iter]
    refine ⟨by rw [b1, eh, f1], by rw [b2, eh, f2], by rw [b3, eh, f3]; omega, by rw [b4]; rfl, fun h => ?_⟩
    have e : step true false t .fetchH = t := by
      show ({ t with host := fetch t t.host } : State) = t
      rw [f4 h]
    rw [e] at b5 ⊢
    exact b5 h

theorem hostPhase_post (s : State) (hn : (s.clients.map (·.id)).Nodup) :
    covered (hostPhase s).host ∧ (hostPhase s).host.slot = none ∧ (hostPhase s).host.jobs = [] ∧
    (∀ c ∈ (hostPhase s).clients, c.up = []) ∧ (hostPhase s).clients.map (·.id) = s.clients.map (·.id) ∧
    KeepsP s.clients (hostPhase s).clients := by
  obtain ⟨a1, _, _, _, q, a5, _⟩ := iter_reactH s.host.events s
  have hids1 : (hp1 s).clients.map (·.id) = s.clients.map (·.id) := by
    unfold hp1; rw [a5]; exact ids_map' _ _ (fun _ => rfl)
  have hk1 : KeepsP s.clients (hp1 s).clients := by
    unfold hp1; rw [a5]; exact keepsP_map _ _ (fun _ => ⟨rfl, rfl⟩)
  have hn1 : ((hp1 s).clients.map (·.id)).Nodup := by rw [hids1]; exact hn
  obtain ⟨p1, p2, _, p4, p5, p6, _⟩ := pollAllA (s.clients.map (·.id)) (hp1 s) hn1
  obtain ⟨f1, f2, f3, f4, _⟩ := iter_fetchH (hp2 s).host.jobs.length (hp2 s)
  obtain ⟨q1, q2, q3, _⟩ := process_spec (hp3 s).host
  have hcov3 : covered (hp3 s).host := by
    unfold covered hp3
    rw [f1, f2]
    unfold hp2
    rw [p1, p2]
    unfold hp1
    rw [a1]
    omega
  refine ⟨q3 hcov3, q1, ?_, ?_, ?_, ?_⟩
  · show (process true (hp3 s).host).jobs = []
    rw [q2]
    apply List.eq_nil_of_length_eq_zero
    unfold hp3
    rw [f3]; omega
  · show ∀ c ∈ (hp3 s).clients, c.up = []
    unfold hp3
    rw [f4]
    intro c hc
    unfold hp2 at hc
    apply p6 c hc
    have : c.id ∈ ((s.clients.map (·.id)).foldl (fun t i => pollI i t) (hp1 s)).clients.map (·.id) :=
      List.mem_map.mpr ⟨c, hc, rfl⟩
    rw [p5, hids1] at this
    exact this
  · show (hp3 s).clients.map (·.id) = s.clients.map (·.id)
    unfold hp3; rw [f4]; unfold hp2; rw [p5, hids1]
  · show KeepsP s.clients (hp3 s).clients
    unfold hp3; rw [f4]; unfold hp2
    exact keepsP_trans hk1 p4

theorem hostPhase_quiet (s : State) (hn : (s.clients.map (·.id)).Nodup) (h1 : covered s.host) (h2 : s.host.jobs = [])
    (h3 : s.host.slot = none) (h4 : ∀ c ∈ s.clients, c.up = [] ∧ c.down = []) :
    (hostPhase s).host.events = 0 ∧ ∀ c ∈ (hostPhase s).clients, c.down = [] := by
  obtain ⟨a1, a2, a3, _, q, a5, a6⟩ := iter_reactH s.host.events s
  have hcl : (hp1 s).clients = s.clients := by
    unfold hp1
    rw [a5, a6 h1]
    conv => rhs; rw [← List.map_id s.clients]
    apply List.map_congr_left
    intro c _
    simp
  have hn1 : ((hp1 s).clients.map (·.id)).Nodup := by rw [hcl]; exact hn
  obtain ⟨_, _, _, _, _, _, p7⟩ := pollAllA (s.clients.map (·.id)) (hp1 s) hn1
  have e2 : hp2 s = hp1 s := by
    unfold hp2
    exact p7 (by rw [hcl]; exact fun c hc => (h4 c hc).1)
  have hj : (hp2 s).host.jobs = [] := by rw [e2]; unfold hp1; rw [a3]; exact h2
  obtain ⟨_, _, _, _, f5⟩ := iter_fetchH (hp2 s).host.jobs.length (hp2 s)
  have e3 : hp3 s = hp1 s := by
    unfold hp3
    rw [f5 hj, e2]
  have hs : (hp3 s).host.slot = none := by rw [e3]; unfold hp1; rw [a2]; exact h3
  obtain ⟨_, _, _, q4⟩ := process_spec (hp3 s).host
  have eh : (hostPhase s).host = (hp3 s).host := by
    show process true (hp3 s).host = (hp3 s).host
    exact q4 hs
  refine ⟨?_, ?_⟩
  · rw [eh, e3]; unfold hp1; rw [a1]; omega
  · show ∀ c ∈ (hp3 s).clients, c.down = []
    rw [e3, hcl]
    exact fun c hc => (h4 c hc).2

/-! ## rounds -/

def round (s : State) : State := (s.clients.map (·.id)).foldl (fun t i => clientPhase i t) (hostPhase s)

theorem clients_fold (Pre Post : Client → Prop)
    (hstep : ∀ (i : Nat) (t : State) (c c' : Client), c ∈ t.clients → c.id = i →
      (Post1 c' ∧ (covered c.p → c'.up = c.up) ∧
        (covered c.p → c.down = [] → c.p.jobs = [] → c.p.slot = none → c'.p.events = 0 ∧ c'.up = c.up)) →
      (Pre c ∨ Post c) → Post c')
    (t0 : State) (hpre : ∀ c ∈ t0.clients, Pre c) :
    let u := (t0.clients.map (·.id)).foldl (fun t i => clientPhase i t) t0
    u.host = t0.host ∧ u.clients.map (·.id) = t0.clients.map (·.id) ∧ ∀ c ∈ u.clients, Post c := by
  have key := foldl_inv (fun t i => clientPhase i t)
    (fun done t => t.host = t0.host ∧ t.clients.map (·.id) = t0.clients.map (·.id) ∧
      ∀ c ∈ t.clients, (Pre c ∨ Post c) ∧ (c.id ∈ done → Post c))
    (t0.clients.map (·.id)) [] t0
    ⟨rfl, rfl, fun c hc => ⟨Or.inl (hpre c hc), fun h => by simp at h⟩⟩
    (by
      intro done i t ⟨h1, h3, h4⟩
      obtain ⟨e1, e2, e3⟩ := clientPhase_spec i t
      refine ⟨e1.trans h1, e2.trans h3, fun c' hc' => ?_⟩
      obtain ⟨c, hc, f1, f2, f3⟩ := e3 c' hc'
      by_cases hci : c.id = i
      · have hp : Post c' := hstep i t c c' hc hci (f3 hci) (h4 c hc).1
        exact ⟨Or.inr hp, fun _ => hp⟩
      · rw [f2 hci]
        refine ⟨(h4 c hc).1, fun hin => ?_⟩
        simp only [List.mem_append, List.mem_singleton] at hin
        rcases hin with hin | hin
        · exact (h4 c hc).2 hin
        · exact absurd hin hci)
  simp only [List.nil_append] at key
  obtain ⟨k1, k3, k4⟩ := key
  refine ⟨k1, k3, fun c hc => (k4 c hc).2 ?_⟩
  rw [← k3]
  exact List.mem_map.mpr ⟨c, hc, rfl⟩

/-- **three fair rounds without publications end in quiescence — from any state with distinct client ids.** -/
theorem three_rounds_quiescent (s : State) (hn : (s.clients.map (·.id)).Nodup) :
    Quiescent (round (round (round s))) := by
  have r1 : ∀ s : State, (s.clients.map (·.id)).Nodup → ((round s).clients.map (·.id)).Nodup ∧ covered (round s).host ∧
      (round s).host.slot = none ∧ (round s).host.jobs = [] ∧ ∀ c ∈ (round s).clients, Post1 c := by
    intro s hn
    obtain ⟨a1, a2, a3, _, a5, _⟩ := hostPhase_post s hn
    obtain ⟨f1, f2, f3⟩ := clients_fold (fun _ => True) Post1 (fun _ _ _ _ _ _ h _ => h.1) (hostPhase s) (fun _ _ => trivial)
    unfold round
    rw [← a5]
    exact ⟨by rw [f2, a5]; exact hn, by rw [f1]; exact a1, by rw [f1]; exact a2, by rw [f1]; exact a3, f3⟩
  have r2 : ∀ s : State, (s.clients.map (·.id)).Nodup → (∀ c ∈ s.clients, Post1 c) →
      ∀ c ∈ (round s).clients, Post1 c ∧ c.up = [] := by
    intro s hn hs
    obtain ⟨_, _, _, a4, a5, a6⟩ := hostPhase_post s hn
    obtain ⟨_, _, f3⟩ := clients_fold (fun c => covered c.p ∧ c.up = []) (fun c => Post1 c ∧ c.up = [])
      (fun _ _ c c' _ _ h hp => by
        rcases hp with hp | hp
        · exact ⟨h.1, by rw [h.2.1 hp.1]; exact hp.2⟩
        · exact ⟨h.1, by rw [h.2.1 hp.1.1]; exact hp.2⟩)
      (hostPhase s)
      (by
        intro c' hc'
        obtain ⟨c, hc, _, e2⟩ := a6 c' hc'
        exact ⟨by rw [e2]; exact (hs c hc).1, a4 c' hc'⟩)
    unfold round
    rw [← a5]
    exact f3
  have r3 : ∀ s : State, (s.clients.map (·.id)).Nodup → covered s.host → s.host.slot = none → s.host.jobs = [] →
      (∀ c ∈ s.clients, Post1 c ∧ c.up = []) → Quiescent (round s) := by
    intro s hn g1 g2 g3 hs
    obtain ⟨_, a2, a3, a4, a5, a6⟩ := hostPhase_post s hn
    obtain ⟨q1, q2⟩ := hostPhase_quiet s hn g1 g3 g2 (fun c hc => ⟨(hs c hc).2, (hs c hc).1.2.1⟩)
    obtain ⟨f1, _, f3⟩ := clients_fold
      (fun c => covered c.p ∧ c.down = [] ∧ c.p.jobs = [] ∧ c.p.slot = none ∧ c.up = [])
      (fun c => c.p.events = 0 ∧ c.down = [] ∧ c.p.jobs = [] ∧ c.p.slot = none ∧ c.up = [])
      (fun _ _ c c' _ _ h hp => by
        rcases hp with hp | hp
        · obtain ⟨x, y⟩ := h.2.2 hp.1 hp.2.1 hp.2.2.1 hp.2.2.2.1
          exact ⟨x, h.1.2.1, h.1.2.2.1, h.1.2.2.2, by rw [y]; exact hp.2.2.2.2⟩
        · have hcov : covered c.p := by unfold covered; rw [hp.1]; exact Nat.zero_le _
          obtain ⟨x, y⟩ := h.2.2 hcov hp.2.1 hp.2.2.1 hp.2.2.2.1
          exact ⟨x, h.1.2.1, h.1.2.2.1, h.1.2.2.2, by rw [y]; exact hp.2.2.2.2⟩)
      (hostPhase s)
      (by
        intro c' hc'
        obtain ⟨c, hc, _, e2⟩ := a6 c' hc'
        obtain ⟨⟨p1, _, p3, p4⟩, _⟩ := hs c hc
        exact ⟨by rw [e2]; exact p1, q2 c' hc', by rw [e2]; exact p3, by rw [e2]; exact p4, a4 c' hc'⟩)
    unfold round
    rw [← a5]
    refine ⟨⟨by rw [f1]; exact q1, by rw [f1]; exact a2, by rw [f1]; exact a3⟩, fun c hc => ?_⟩
    obtain ⟨x1, x2, x3, x4, x5⟩ := f3 c hc
    exact ⟨⟨x1, x4, x3⟩, x5, x2⟩
  obtain ⟨n1, _, _, _, b5⟩ := r1 s hn
  obtain ⟨n2, c1, c2, c3, _⟩ := r1 (round s) n1
  exact r3 _ n2 c1 c2 c3 (r2 _ n1 b5)

/-! ## a round is a schedule of the model's own actions; the drain of an epoch is reached, not assumed -/

def QuietA (s t : State) : Prop := ∃ as : List Act, (∀ a ∈ as, isPublish a = false ∧ (∀ j, a ≠ .snapshotH j)) ∧ t = run true false s as

theorem quietA_refl (s : State) : QuietA s s := ⟨[], fun _ h => by simp at h, rfl⟩

theorem quietA_trans {a b c : State} (h1 : QuietA a b) (h2 : QuietA b c) : QuietA a c := by
  obtain ⟨l1, w1, e1⟩ := h1
  obtain ⟨l2, w2, e2⟩ := h2
  refine ⟨l1 ++ l2, ?_, ?_⟩
  · intro x hx
    rcases List.mem_append.mp hx with h | h
    · exact w1 x h
    · exact w2 x h
  · rw [e2, e1]; simp [run, List.foldl_append]

theorem quietA_step (s : State) (a : Act) (h : isPublish a = false ∧ ∀ j, a ≠ .snapshotH j) : QuietA s (step true false s a) :=
  ⟨[a], fun x hx => by simp only [List.mem_singleton] at hx; rw [hx]; exact h, rfl⟩

theorem quietA_iter (a : Act) (h : isPublish a = false ∧ ∀ j, a ≠ .snapshotH j) (n : Nat) (s : State) :
    QuietA s (iter (fun t => step true false t a) n s) := by
  induction n generalizing s with
  | zero => exact quietA_refl s
  | succ n ih => exact quietA_trans (quietA_step s a h) (ih _)

theorem quietA_foldl {β : Type} (g : State → β → State) (hg : ∀ t b, QuietA t (g t b)) (l : List β) (s : State) :
    QuietA s (l.foldl g s) := by
  induction l generalizing s with
  | nil => exact quietA_refl s
  | cons b l ih => exact quietA_trans (hg s b) (ih _)

theorem quietA_round (s : State) : QuietA s (round s) := by
  unfold round
  refine quietA_trans ?_ (quietA_foldl _ (fun t i => ?_) _ _)
  · unfold hostPhase hp3 hp2 hp1
    exact quietA_trans (quietA_trans (quietA_trans (quietA_iter _ ⟨rfl, fun _ h => by cases h⟩ _ _)
      (quietA_foldl _ (fun t i => by unfold pollI; exact quietA_iter _ ⟨rfl, fun _ h => by cases h⟩ _ _) _ _))
      (quietA_iter _ ⟨rfl, fun _ h => by cases h⟩ _ _)) (quietA_step _ _ ⟨rfl, fun _ h => by cases h⟩)
  · unfold clientPhase cp3 cp2 cp1
    exact quietA_trans (quietA_trans (quietA_trans (quietA_iter _ ⟨rfl, fun _ h => by cases h⟩ _ _)
      (quietA_iter _ ⟨rfl, fun _ h => by cases h⟩ _ _)) (quietA_iter _ ⟨rfl, fun _ h => by cases h⟩ _ _))
      (quietA_step _ _ ⟨rfl, fun _ h => by cases h⟩)

/-- from any state a schedule without publications and without joins reaches quiescence -/
theorem quiescence_reached (s : State) (hn : (s.clients.map (·.id)).Nodup) :
    ∃ as : List Act, (∀ a ∈ as, isPublish a = false ∧ ∀ j, a ≠ .snapshotH j) ∧ Quiescent (run true false s as) := by
  obtain ⟨as, hw, he⟩ := quietA_trans (quietA_trans (quietA_round s) (quietA_round _)) (quietA_round _)
  exact ⟨as, hw, he ▸ three_rounds_quiescent s hn⟩

theorem hostWrites_of_quietA (a : Act) (h : isPublish a = false) : HostWrites a := by
  cases a <;> simp_all [HostWrites, isPublish]

theorem clientWrites_of_quietA (w : Nat) (a : Act) (h : isPublish a = false ∧ ∀ j, a ≠ .snapshotH j) : ClientWrites w a := by
  obtain ⟨h1, h2⟩ := h
  cases a <;> simp_all [ClientWrites, isPublish]

theorem last_quietA (w : Nat) (y : Option Nat) (more : List Act) (hm : ∀ a ∈ more, isPublish a = false) :
    more.foldl (pubOf w) y = y := by
  induction more generalizing y with
  | nil => rfl
  | cons a more ih =>
    have ha : pubOf w y a = y := by
      have := hm a (by simp)
      cases a <;> simp_all [pubOf, isPublish]
    simp only [List.foldl_cons, ha]
    exact ih y (fun b hb => hm b (by simp [hb]))

/-- **C06, download classes, one epoch, without assuming the drain**: after the publications of one writer, under any
schedule of reactions, receptions, downloads and applications, there is a continuation without publications (three fair
rounds) after which every peer holds the last publication and nothing is pending. -/
theorem epoch_total (x : Option Nat) (s : State) (e : Epoch) (hn : (s.clients.map (·.id)).Nodup)
    (hs : Settled x s) (hd : e.disciplined) (hp : e.writer = 0 ∨ ∃ c ∈ s.clients, c.id = e.writer) :
    ∃ more : List Act, (∀ a ∈ more, isPublish a = false) ∧ Settled e.last (run true false (e.run s) more) := by
  have hn' : ((e.run s).clients.map (·.id)).Nodup := by
    unfold Epoch.run; rw [ids_run, ids_step]; exact hn
  obtain ⟨more, hw, hq⟩ := quiescence_reached (e.run s) hn'
  refine ⟨more, fun a ha => (hw a ha).1, ?_⟩
  have hrun : run true false (e.run s) more = Epoch.run s { e with acts := e.acts ++ more } := by
    simp [Epoch.run, run, List.foldl_append, firstAct]
  have hlast : Epoch.last { e with acts := e.acts ++ more } = e.last := by
    unfold Epoch.last
    simp only [List.foldl_append]
    exact last_quietA e.writer _ more (fun a ha => (hw a ha).1)
  rw [hrun] at hq ⊢
  rw [← hlast]
  refine epoch_converges x s { e with acts := e.acts ++ more } hn hs ?_ hp hq
  unfold Epoch.disciplined at hd ⊢
  by_cases hw0 : e.writer = 0
  · simp only [hw0, if_true] at hd ⊢
    intro a ha
    rcases List.mem_append.mp ha with h | h
    · exact hd a h
    · exact hostWrites_of_quietA a (hw a h).1
  · simp only [hw0, if_false] at hd ⊢
    intro a ha
    rcases List.mem_append.mp ha with h | h
    · exact hd a h
    · exact clientWrites_of_quietA e.writer a (hw a h)

end Asset
end BevySync
