import BevySyncModel.Proofs.AssetBound
import BevySyncModel.Proofs.SumPot
/-! Bounded work for uuid assets of the download classes (C09), for **any** mix of publishers and any schedule of reaction,
reception, download, application and snapshot steps: each application publication costs at most `N + 1` announcements.

Potential: announcements sent so far, plus `N + 1` for every `AssetEvent` no debounce entry covers, plus `N` for every
announcement on its way up to the host.  `process_*` files one entry for the one event it raises, so applying a download
never raises the potential. -/
namespace BevySync
namespace Asset
open SumPot

def owes (W : Nat) (p : Peer) : Nat := W * (p.events - p.tokens)

def cwt (N : Nat) (c : Client) : Nat := owes (N + 1) c.p + N * c.up.length

def gpot (s : State) : Nat := s.sent + owes (s.clients.length + 1) s.host + total (cwt s.clients.length) s.clients

def pcost : Act → Nat
  | .publishH _ | .publishC _ _ => 1
  | _ => 0

def pops (as : List Act) : Nat := (as.map pcost).sum

theorem owes_publish (W : Nat) (p : Peer) (v : Nat) : owes W (publish p v) ≤ owes W p + W := by
  simp only [owes, publish]
  have : p.events + 1 - p.tokens ≤ (p.events - p.tokens) + 1 := by omega
  exact Nat.le_trans (Nat.mul_le_mul_left W this) (by rw [Nat.mul_succ]; exact Nat.le_refl _)

theorem owes_process (W : Nat) (p : Peer) : owes W (process true p) = owes W p := by
  unfold process
  cases hs : p.slot with
  | none => rfl
  | some v =>
    simp only [owes, if_true]
    congr 1
    omega

theorem owes_fetch (W : Nat) (s : State) (p : Peer) : owes W (fetch s p) = owes W p := by
  unfold fetch
  cases hj : p.jobs with
  | nil => rfl
  | cons o rest =>
    simp only [landed]
    cases servedBy s o <;> rfl

theorem owes_request (W : Nat) (p : Peer) (o : Nat) : owes W (request false p o) = owes W p := by
  simp [request, owes]

theorem owes_react_le (W : Nat) (p : Peer) : owes W (react p).1 ≤ owes W p := by
  simp only [owes, react]
  split
  · exact Nat.le_refl _
  · split
    · exact Nat.mul_le_mul_left W (by simp only; omega)
    · exact Nat.mul_le_mul_left W (by simp only; omega)

theorem owes_react_true (W : Nat) (p : Peer) (h : (react p).2 = true) : owes W (react p).1 + W ≤ owes W p := by
  simp only [react] at h
  split at h
  · cases h
  · split at h
    · cases h
    · rename_i he ht
      have ht0 : p.tokens = 0 := by omega
      obtain ⟨k, hk⟩ : ∃ k, p.events = k + 1 := ⟨p.events - 1, by omega⟩
      simp only [owes, react, ht0, Nat.sub_zero, hk, Nat.add_sub_cancel, Nat.mul_succ]
      simp

def paid (i : Nat) (cs : List Client) : Nat :=
  match findClient i cs with
  | some c => if (react c.p).2 then 1 else 0
  | none => 0

theorem step_reactC (s : State) (i : Nat) : step true false s (.reactC i) =
    { s with clients := onClient i cReact s.clients, sent := s.sent + paid i s.clients } := rfl

theorem cwt_cReact (N : Nat) (c : Client) : cwt N (cReact c) + (if (react c.p).2 then 1 else 0) ≤ cwt N c := by
  unfold cReact
  cases hr : (react c.p).2 with
  | false =>
    have := owes_react_le (N + 1) c.p
    simp only [cwt, Bool.false_eq_true, if_false]
    omega
  | true =>
    have := owes_react_true (N + 1) c.p hr
    simp only [cwt, if_true, List.length_append, List.length_singleton, Nat.mul_succ]
    omega

theorem length_step' (s : State) (a : Act) : (step true false s a).clients.length = s.clients.length := by
  have := congrArg List.length (ids_step true false s a)
  simpa using this

theorem gpot_step (s : State) (a : Act) (hn : (s.clients.map (·.id)).Nodup) :
    gpot (step true false s a) ≤ gpot s + (s.clients.length + 1) * pcost a := by
  cases a with
  | publishH v =>
    have := owes_publish (s.clients.length + 1) s.host v
    simp only [gpot, step, pcost, Nat.mul_one]
    omega
  | reactH =>
    simp only [pcost, Nat.mul_zero, Nat.add_zero, step]
    split
    · rename_i hr
      have := owes_react_true (s.clients.length + 1) s.host hr
      have he := total_map_eq (cwt s.clients.length) (fun c : Client => { c with down := c.down ++ [0] }) s.clients
        (fun c _ => rfl)
      simp only [gpot, List.length_map, he]
      omega
    · have := owes_react_le (s.clients.length + 1) s.host
      simp only [gpot]
      omega
  | pollH i =>
    simp only [pcost, Nat.mul_zero, Nat.add_zero]
    cases hf : findClient i s.clients with
    | none => simp only [step, hf]; exact Nat.le_refl _
    | some c0 =>
      cases hup : c0.up with
      | nil => simp only [step, hf, hup]; exact Nat.le_refl _
      | cons o rest =>
        simp only [step, hf, hup]
        have hfl := List.length_filter_le (fun c : Client => c.id ≠ i) s.clients
        have hpay := total_map_pay_nodup (cwt s.clients.length) (·.id) i s.clients.length
          (fun c : Client => if c.id = i then { c with up := rest } else { c with down := c.down ++ [o] }) s.clients c0 hn hf
          (by intro c _ hne; simp only [hne, if_false]; rfl)
          (by
            have hid : c0.id = i := by
              have := List.find?_some hf
              simpa using this
            simp only [hid, if_true, cwt, hup, List.length_cons, Nat.mul_succ]
            omega)
        have ho := owes_request (s.clients.length + 1) s.host o
        simp only [gpot, List.length_map, ho]
        omega
  | fetchH =>
    have := owes_fetch (s.clients.length + 1) s s.host
    simp only [gpot, step, pcost, Nat.mul_zero, Nat.add_zero, this]
    exact Nat.le_refl _
  | processH =>
    have := owes_process (s.clients.length + 1) s.host
    simp only [gpot, step, pcost, Nat.mul_zero, Nat.add_zero, this]
    exact Nat.le_refl _
  | publishC i v =>
    simp only [gpot, step, pcost, Nat.mul_one]
    have hl : (onClient i (cPublish v) s.clients).length = s.clients.length := length_on _ _ _ _
    have := total_on_add (cwt s.clients.length) (·.id) i (s.clients.length + 1) (cPublish v) s.clients hn
      (by
        intro c _
        have := owes_publish (s.clients.length + 1) c.p v
        simp only [cwt, cPublish]
        omega)
    have e : onClient i (cPublish v) s.clients = on (·.id) i (cPublish v) s.clients := rfl
    rw [hl, e]
    omega
  | reactC i =>
    rw [step_reactC]
    simp only [gpot, pcost, Nat.mul_zero, Nat.add_zero]
    have hl : (onClient i cReact s.clients).length = s.clients.length := length_on _ _ _ _
    have e : onClient i cReact s.clients = on (·.id) i cReact s.clients := rfl
    rw [hl, e]
    cases hf : findClient i s.clients with
    | none =>
      rw [on_absent (·.id) i cReact s.clients (find_none_absent (fun c : Client => c.id) hf)]
      simp only [paid, hf]
      omega
    | some c0 =>
      have := total_on_pay (cwt s.clients.length) (·.id) i (if (react c0.p).2 then 1 else 0) cReact s.clients c0 hf
        (fun c _ => Nat.le_trans (Nat.le_add_right _ _) (cwt_cReact _ c)) (cwt_cReact _ c0)
      simp only [paid, hf]
      omega
  | pollC i =>
    simp only [gpot, step, pcost, Nat.mul_zero, Nat.add_zero]
    have hl : (onClient i (cPoll false) s.clients).length = s.clients.length := length_on _ _ _ _
    have e : onClient i (cPoll false) s.clients = on (·.id) i (cPoll false) s.clients := rfl
    have := total_on_le (cwt s.clients.length) (·.id) i (cPoll false) s.clients
      (by
        intro c _
        cases hdn : c.down with
        | nil => simp only [cPoll, hdn]; exact Nat.le_refl _
        | cons o rest =>
          have := owes_request (s.clients.length + 1) c.p o
          simp only [cPoll, hdn, cwt, this]
          exact Nat.le_refl _)
    rw [hl, e]
    omega
  | fetchC i =>
    simp only [gpot, step, pcost, Nat.mul_zero, Nat.add_zero]
    have hl : (onClient i (cFetch s) s.clients).length = s.clients.length := length_on _ _ _ _
    have e : onClient i (cFetch s) s.clients = on (·.id) i (cFetch s) s.clients := rfl
    have := total_on_le (cwt s.clients.length) (·.id) i (cFetch s) s.clients
      (by
        intro c _
        have := owes_fetch (s.clients.length + 1) s c.p
        simp only [cFetch, cwt, this]
        exact Nat.le_refl _)
    rw [hl, e]
    omega
  | processC i =>
    simp only [gpot, step, pcost, Nat.mul_zero, Nat.add_zero]
    have hl : (onClient i (cProcess true) s.clients).length = s.clients.length := length_on _ _ _ _
    have e : onClient i (cProcess true) s.clients = on (·.id) i (cProcess true) s.clients := rfl
    have := total_on_le (cwt s.clients.length) (·.id) i (cProcess true) s.clients
      (by
        intro c _
        have := owes_process (s.clients.length + 1) c.p
        simp only [cProcess, cwt, this]
        exact Nat.le_refl _)
    rw [hl, e]
    omega
  | snapshotH i =>
    simp only [pcost, Nat.mul_zero, Nat.add_zero, step]
    split
    · have hl : (onClient i cSnapshot s.clients).length = s.clients.length := length_on _ _ _ _
      have e : onClient i cSnapshot s.clients = on (·.id) i cSnapshot s.clients := rfl
      have := total_on_le (cwt s.clients.length) (·.id) i cSnapshot s.clients (fun c _ => Nat.le_refl _)
      have hs : owes (s.clients.length + 1) (snapServe s.host) = owes (s.clients.length + 1) s.host := by
        unfold snapServe; split <;> rfl
      simp only [gpot, hl, hs]
      rw [e]
      omega
    · exact Nat.le_refl _

theorem gpot_run (s : State) (as : List Act) (hn : (s.clients.map (·.id)).Nodup) :
    (run true false s as).clients.length = s.clients.length ∧
      gpot (run true false s as) ≤ gpot s + (s.clients.length + 1) * pops as := by
  induction as generalizing s with
  | nil => exact ⟨rfl, by simp [run, pops]⟩
  | cons a as ih =>
    have hn' : ((step true false s a).clients.map (·.id)).Nodup := by rw [ids_step]; exact hn
    obtain ⟨h1, h2⟩ := ih (step true false s a) hn'
    have h3 := gpot_step s a hn
    have hl := length_step' s a
    simp only [run, List.foldl_cons] at h1 h2 ⊢
    refine ⟨by rw [h1, hl], ?_⟩
    rw [hl] at h2
    simp only [pops, List.map_cons, List.sum_cons, Nat.mul_add] at h2 ⊢
    omega

/-- every event is covered by a debounce entry and no announcement is on its way to the host (downloads may be running) -/
def Calm (s : State) : Prop :=
  s.host.events ≤ s.host.tokens ∧ ∀ c ∈ s.clients, c.p.events ≤ c.p.tokens ∧ c.up = []

theorem gpot_calm (s : State) (h : Calm s) : gpot s = s.sent := by
  obtain ⟨h1, h3⟩ := h
  have hz : total (cwt s.clients.length) s.clients = 0 := by
    apply total_zero
    intro c hc
    obtain ⟨a, b⟩ := h3 c hc
    simp only [cwt, owes, b, List.length_nil, Nat.mul_zero, Nat.add_zero]
    rw [Nat.sub_eq_zero_of_le a, Nat.mul_zero]
  simp only [gpot, owes, hz, Nat.add_zero]
  rw [Nat.sub_eq_zero_of_le h1, Nat.mul_zero, Nat.add_zero]

theorem sent_le_gpot (s : State) : s.sent ≤ gpot s := by
  unfold gpot; omega

/-- **bounded work, download-class assets, any publishers.** -/
theorem asset_traffic_bounded (s : State) (as : List Act) (hn : (s.clients.map (·.id)).Nodup) (hc : Calm s) :
    (run true false s as).sent ≤ s.sent + (s.clients.length + 1) * pops as := by
  have := (gpot_run s as hn).2
  rw [gpot_calm s hc] at this
  exact Nat.le_trans (sent_le_gpot _) this

/-- **self-quenching** -/
theorem asset_quiet (s : State) (as : List Act) (hn : (s.clients.map (·.id)).Nodup) (h0 : pops as = 0) :
    (run true false s as).sent ≤ gpot s := by
  have := (gpot_run s as hn).2
  rw [h0] at this
  exact Nat.le_trans (sent_le_gpot _) (by simpa using this)

end Asset
end BevySync
