import BevySyncModel.Lz4
/-! Helper lemmas and the round-trip proof for the LZ4 model. -/
namespace BevySync
namespace Lz4

/-! ## Part 1: the emitted blocks decode to the input -/

def IsPrefix (out inp : Bytes) (cur : Nat) : Prop :=
  out.size = cur ∧ cur ≤ inp.size ∧ ∀ i, i < cur → out[i]? = inp[i]?

theorem dupLoop_prefix (inp out : Bytes) (cand cur n : Nat)
    (hp : IsPrefix out inp cur) (hc : cand < cur) (hn : cur + n ≤ inp.size)
    (hm : ∀ i, i < n → inp[cand + i]? = inp[cur + i]?) :
    IsPrefix (dupLoop out cand n) inp (cur + n) := by
  induction n generalizing out cand cur with
  | zero => simpa [dupLoop] using hp
  | succ n ih =>
    obtain ⟨hs, hle, hv⟩ := hp
    have key : IsPrefix (out.push (out[cand]?.getD 0)) inp (cur + 1) := by
      refine ⟨by simp [hs], by omega, ?_⟩
      intro i hi
      rw [Array.getElem?_push]
      by_cases h : i = out.size
      · subst hs; subst h
        have h0 := hm 0 (by omega)
        have h1 := hv cand hc
        have h2 : out.size < inp.size := by omega
        simp at h0
        simp [h1, h0, h2]
      · simp [h]; exact hv i (by omega)
    have := ih (out.push (out[cand]?.getD 0)) (cand+1) (cur+1) key (by omega) (by omega)
      (by intro i hi; have := hm (i+1) (by omega); simpa [Nat.add_assoc, Nat.add_comm 1 i] using this)
    simpa [dupLoop, Nat.add_assoc, Nat.add_comm 1 n] using this

theorem prefix_full (out inp : Bytes) (h : IsPrefix out inp inp.size) : out = inp := by
  obtain ⟨hs, _, hv⟩ := h
  apply Array.ext_getElem?
  intro i
  by_cases hi : i < inp.size
  · exact hv i hi
  · simp [hs, Nat.le_of_not_lt hi]

theorem prefix_append_extract (out inp : Bytes) (cur lit : Nat) (hp : IsPrefix out inp cur)
    (hl : cur + lit ≤ inp.size) :
    IsPrefix (out ++ (inp.extract cur (cur+lit)).toList.toArray) inp (cur + lit) := by
  obtain ⟨hs, hle, hv⟩ := hp
  refine ⟨by simp [hs]; omega, hl, ?_⟩
  intro i hi
  simp only [Array.toArray_toList]
  by_cases h : i < out.size
  · rw [Array.getElem?_append_left h]; exact hv i (by omega)
  · rw [Array.getElem?_append_right (by omega)]
    have h1 : cur + (i - out.size) = i := by omega
    have h2 : i - out.size < cur + lit - cur := by omega
    have h3 : i - out.size < min (cur + lit) inp.size - cur := by omega
    simp [h1, h3]

theorem goForward_cur (inp : Bytes) (dict : Array Nat) (cur n : Nat) :
    (goForward inp dict cur n).2 = cur + n := by
  induction n generalizing dict cur with
  | zero => simp [goForward]
  | succ n ih => simp [goForward, ih]; omega

theorem commonExt_spec (inp : Bytes) (a b f : Nat) (ha : a ≤ inp.size) :
    a + commonExt inp a b f ≤ inp.size ∧
    ∀ i, i < commonExt inp a b f → inp[a+i]? = inp[b+i]? := by
  induction f generalizing a b with
  | zero => simp [commonExt, ha]
  | succ f ih =>
    unfold commonExt
    split
    · rename_i h
      obtain ⟨h1, h2⟩ := ih (a+1) (b+1) (by omega)
      refine ⟨by omega, ?_⟩
      intro i hi
      cases i with
      | zero => simpa using h.2
      | succ i =>
        have := h2 i (by omega)
        simpa [Nat.add_assoc, Nat.add_comm 1 i] using this
    · simp [ha]

theorem byteAt_lt (inp : Bytes) (i : Nat) : byteAt inp i < 256 := by
  unfold byteAt; exact UInt8.toNat_lt _

theorem getBatch_inj (inp : Bytes) (a b : Nat) (h : getBatch inp a = getBatch inp b) :
    byteAt inp a = byteAt inp b ∧ byteAt inp (a+1) = byteAt inp (b+1) ∧
    byteAt inp (a+2) = byteAt inp (b+2) ∧ byteAt inp (a+3) = byteAt inp (b+3) := by
  unfold getBatch at h
  have := byteAt_lt inp a; have := byteAt_lt inp (a+1); have := byteAt_lt inp (a+2); have := byteAt_lt inp (a+3)
  have := byteAt_lt inp b; have := byteAt_lt inp (b+1); have := byteAt_lt inp (b+2); have := byteAt_lt inp (b+3)
  omega

theorem byteAt_eq_opt (inp : Bytes) (i j : Nat) (hi : i < inp.size) (hj : j < inp.size)
    (h : byteAt inp i = byteAt inp j) : inp[i]? = inp[j]? := by
  unfold byteAt at h
  simp [hi, hj] at h ⊢
  exact UInt8.toNat_inj.mp h

theorem findDupAt_spec (inp : Bytes) (cur cand : Nat) (d : Dup) (hr : cur + 4 < inp.size)
    (h : findDupAt inp cur cand = some d) :
    1 ≤ d.offset ∧ d.offset ≤ cur ∧ d.offset ≤ 0xFFFF ∧ cur + 4 + d.ext ≤ inp.size ∧
    ∀ i, i < d.ext + 4 → inp[cur - d.offset + i]? = inp[cur + i]? := by
  unfold findDupAt at h
  split at h
  · rename_i hc
    obtain ⟨_, hb, hlt, hoff⟩ := hc
    injection h with h
    subst h
    obtain ⟨e1, e2⟩ := commonExt_spec inp (cur+4) (cand+4) (inp.size - (cur+4)) (by omega)
    obtain ⟨b0, b1, b2, b3⟩ := getBatch_inj inp cand cur hb
    refine ⟨by simp only; omega, by simp only; omega, hoff, e1, ?_⟩
    intro i hi
    have hcc : cur - (cur - cand) = cand := by omega
    simp only at hi ⊢
    rw [hcc]
    by_cases h4 : i < 4
    · have : i = 0 ∨ i = 1 ∨ i = 2 ∨ i = 3 := by omega
      rcases this with rfl | rfl | rfl | rfl
      · exact byteAt_eq_opt inp _ _ (by omega) (by omega) b0
      · exact byteAt_eq_opt inp _ _ (by omega) (by omega) b1
      · exact byteAt_eq_opt inp _ _ (by omega) (by omega) b2
      · exact byteAt_eq_opt inp _ _ (by omega) (by omega) b3
    · have := e2 (i - 4) (by omega)
      have h1 : cur + 4 + (i - 4) = cur + i := by omega
      have h2 : cand + 4 + (i - 4) = cand + i := by omega
      rw [h1, h2] at this
      exact this.symm
  · cases h

theorem findDuplicate_spec (inp : Bytes) (dict : Array Nat) (cur : Nat) (d : Dup)
    (h : findDuplicate inp dict cur = some d) :
    cur + 4 < inp.size ∧ 1 ≤ d.offset ∧ d.offset ≤ cur ∧ d.offset ≤ 0xFFFF ∧ cur + 4 + d.ext ≤ inp.size ∧
    ∀ i, i < d.ext + 4 → inp[cur - d.offset + i]? = inp[cur + i]? := by
  unfold findDuplicate at h
  split at h
  · rename_i hr
    simp only [remainingBatch, decide_eq_true_eq] at hr
    exact ⟨hr, findDupAt_spec inp cur _ d hr h⟩
  · cases h

/-- what a found duplicate at position `p` guarantees -/
def DupOk (inp : Bytes) (p : Nat) (d : Dup) : Prop :=
  1 ≤ d.offset ∧ d.offset ≤ p ∧ d.offset ≤ 0xFFFF ∧ p + 4 + d.ext ≤ inp.size ∧
  ∀ i, i < d.ext + 4 → inp[p - d.offset + i]? = inp[p + i]?

theorem popBlock_spec (inp : Bytes) (f : Nat) (dict : Array Nat) (cur lit : Nat)
    (hc : cur ≤ inp.size) (hf : inp.size + 1 - cur ≤ f) :
    let r := popBlock inp f dict cur lit
    lit ≤ r.2.2.1 ∧ cur + (r.2.2.1 - lit) ≤ inp.size ∧
    (match r.2.2.2 with
     | some d => DupOk inp (cur + (r.2.2.1 - lit)) d ∧ r.2.1 = cur + (r.2.2.1 - lit) + d.ext + 4
     | none => cur + (r.2.2.1 - lit) = inp.size) := by
  induction f generalizing dict cur lit with
  | zero => omega
  | succ f ih =>
    unfold popBlock
    cases hfd : findDuplicate inp dict cur with
    | some d =>
      obtain ⟨_, h1, h2, h3, h4, h5⟩ := findDuplicate_spec inp dict cur d hfd
      simp only [Nat.sub_self, Nat.add_zero, Nat.le_refl, true_and]
      refine ⟨hc, ⟨h1, h2, h3, h4, h5⟩, ?_⟩
      rw [goForward_cur]; omega
    | none =>
      simp only
      have hg : (goForward inp dict cur 1).2 = cur + 1 := goForward_cur inp dict cur 1
      by_cases hle : cur + 1 ≤ inp.size
      · rw [hg]; simp only [hle, if_true]
        have := ih (goForward inp dict cur 1).1 (cur+1) (lit+1) hle (by omega)
        simp only at this
        obtain ⟨a1, a2, a3⟩ := this
        generalize popBlock inp f (goForward inp dict cur 1).1 (cur + 1) (lit + 1) = r at *
        have e : cur + 1 + (r.2.2.1 - (lit + 1)) = cur + (r.2.2.1 - lit) := by omega
        rw [e] at a2 a3
        exact ⟨by omega, a2, a3⟩
      · rw [hg]; simp only [hle, if_false]
        simp only [Nat.sub_self, Nat.add_zero, Nat.le_refl, true_and]
        exact ⟨hc, by omega⟩

def decodeBlocks : List Block → Bytes → Option Bytes
  | [], out => some out
  | b :: rest, out =>
    let out1 := out ++ b.lits.toArray
    match b.dup with
    | none => some out1
    | some d =>
      if d.offset = 0 ∨ d.offset > out1.size then none
      else decodeBlocks rest (dupLoop out1 (out1.size - d.offset) (d.ext + 4))

theorem blocksFrom_decode (inp : Bytes) (f : Nat) (dict : Array Nat) (cur : Nat) (out : Bytes)
    (hp : IsPrefix out inp cur) (hf : inp.size + 1 - cur ≤ f) :
    decodeBlocks (blocksFrom inp f dict cur) out = some inp := by
  induction f generalizing dict cur out with
  | zero => have := hp.2.1; omega
  | succ f ih =>
    have hc := hp.2.1
    unfold blocksFrom
    have spec := popBlock_spec inp (inp.size + 2 - cur) dict cur 0 hc (by omega)
    simp only at spec
    generalize popBlock inp (inp.size + 2 - cur) dict cur 0 = r at *
    obtain ⟨dict', cur', lit, dup⟩ := r
    simp only [Nat.sub_zero] at spec
    obtain ⟨_, hl, hd⟩ := spec
    have hp1 := prefix_append_extract out inp cur lit hp hl
    cases dup with
    | none =>
      simp only at hd
      simp only [decodeBlocks]
      refine congrArg some (prefix_full _ _ ?_)
      rw [← hd]; exact hp1
    | some d =>
      simp only at hd
      obtain ⟨⟨d1, d2, d3, d4, d5⟩, hcur⟩ := hd
      simp only [decodeBlocks]
      have hsz : (out ++ (inp.extract cur (cur + lit)).toList.toArray).size = cur + lit := hp1.1
      rw [if_neg (by rw [hsz]; omega)]
      have hp2 := dupLoop_prefix inp _ (cur + lit - d.offset) (cur + lit) (d.ext + 4) hp1 (by omega) (by omega) d5
      rw [hsz]
      have : cur + lit + (d.ext + 4) = cur' := by omega
      rw [this] at hp2
      exact ih dict' cur' _ hp2 (by omega)

theorem compressBlocks_decode (inp : Bytes) : decodeBlocks (compressBlocks inp) #[] = some inp := by
  unfold compressBlocks
  exact blocksFrom_decode inp _ _ 0 #[] ⟨rfl, Nat.zero_le _, by intro i hi; omega⟩ (by omega)

/-! ## Part 2: parsing the serialised stream gives the blocks back -/

theorem readInteger_ff (r : List UInt8) (acc : Nat) :
    readInteger ((0xFF : UInt8) :: r) acc = readInteger r (acc + 0xFF) := by
  rw [readInteger, if_pos rfl]

theorem readInteger_small (b : UInt8) (r : List UInt8) (acc : Nat) (h : b ≠ 0xFF) :
    readInteger (b :: r) acc = .ok (acc + b.toNat, r) := by
  rw [readInteger, if_neg h]

theorem readInteger_writeInteger (f n acc : Nat) (r : List UInt8) (hf : n < f) :
    readInteger (writeInteger f n ++ r) acc = .ok (acc + n, r) := by
  induction f generalizing n acc with
  | zero => omega
  | succ f ih =>
    unfold writeInteger
    by_cases h : n ≥ 0xFF
    · rw [if_pos h, List.cons_append, readInteger_ff, ih (n - 0xFF) (acc + 0xFF) (by omega)]
      have : acc + 0xFF + (n - 0xFF) = acc + n := by omega
      rw [this]
    · rw [if_neg h, List.cons_append, List.nil_append]
      have hn : n < 255 := by omega
      have h2 : (UInt8.ofNat n).toNat = n := UInt8.toNat_ofNat_of_lt' (by omega : n < 256)
      have h1 : (UInt8.ofNat n) ≠ 0xFF := by
        intro hc
        have := congrArg UInt8.toNat hc
        rw [h2] at this
        have h3 : (0xFF : UInt8).toNat = 255 := rfl
        omega
      rw [readInteger_small _ _ _ h1, h2]

theorem readInteger_lsic (n acc : Nat) (r : List UInt8) :
    readInteger (lsic n ++ r) acc = .ok (acc + n, r) :=
  readInteger_writeInteger (n+1) n acc r (by omega)

theorem nib_le (n : Nat) : nib n ≤ 15 := by unfold nib; split <;> omega

theorem mkTok_toNat (lit ext : Nat) : (mkTok lit ext).toNat = nib lit * 16 + nib ext := by
  unfold mkTok
  have := nib_le lit; have := nib_le ext
  exact UInt8.toNat_ofNat_of_lt' (by show _ < 256; omega)

theorem litLen_mkTok (lit ext : Nat) (rest : List UInt8) :
    litLen (mkTok lit ext) (lenHdr lit ++ rest) = .ok (lit, rest) := by
  unfold litLen lenHdr
  rw [mkTok_toNat]
  have h1 := nib_le ext
  have hdiv : (nib lit * 16 + nib ext) / 16 = nib lit := by omega
  rw [hdiv]
  unfold nib
  by_cases h : lit < 0xF
  · have h' : ¬ lit ≥ 0xF := by omega
    rw [if_pos h, if_neg (by omega), if_neg h']; rfl
  · have h' : lit ≥ 0xF := by omega
    rw [if_neg h, if_pos rfl, if_pos h', readInteger_lsic]
    have : 15 + (lit - 0xF) = lit := by omega
    rw [this]

theorem matchLen_mkTok (lit ext : Nat) (rest : List UInt8) :
    matchLen (mkTok lit ext) (lenHdr ext ++ rest) = .ok (ext + 4, rest) := by
  unfold matchLen lenHdr
  rw [mkTok_toNat]
  have h1 := nib_le ext
  have hmod : (nib lit * 16 + nib ext) % 16 = nib ext := by omega
  rw [hmod]
  unfold nib
  by_cases h : ext < 0xF
  · have h' : ¬ ext ≥ 0xF := by omega
    rw [if_pos h, if_neg (by omega), if_neg h']
    have : 4 + ext = ext + 4 := by omega
    rw [this]; rfl
  · have h' : ext ≥ 0xF := by omega
    rw [if_neg h, if_pos rfl, if_pos h', readInteger_lsic]
    have : 19 + (ext - 0xF) = ext + 4 := by omega
    rw [this]

theorem off_bytes (o : Nat) (h : o < 65536) :
    (UInt8.ofNat (o % 256)).toNat + 256 * (UInt8.ofNat (o / 256)).toNat = o := by
  rw [UInt8.toNat_ofNat_of_lt' (by show _ < 256; omega), UInt8.toNat_ofNat_of_lt' (by show _ < 256; omega)]
  omega

theorem takeN_append (a r : List UInt8) : takeN a.length (a ++ r) = some (a, r) := by
  induction a with
  | nil => simp [takeN]
  | cons b a ih => simp [takeN, ih]

theorem takeN_self (a : List UInt8) : takeN a.length a = some (a, []) := by
  have := takeN_append a []
  simpa using this

theorem decLoop_last (f : Nat) (b : Block) (out : Bytes) (h : b.dup = none) :
    decLoop (f+1) (serBlock b) out = .ok (out ++ b.lits.toArray) := by
  unfold serBlock
  rw [h]
  simp only
  unfold decLoop
  have := litLen_mkTok b.lits.length 0 b.lits
  rw [this]
  simp [takeN_self]

theorem decLoop_dup (f : Nat) (b : Block) (d : Dup) (tail : List UInt8) (out : Bytes)
    (h : b.dup = some d) (ho : d.offset < 65536) :
    decLoop (f+1) (serBlock b ++ tail) out =
      if d.offset = 0 ∨ d.offset > (out ++ b.lits.toArray).size then .error .invalidOffset
      else decLoop f tail (dupLoop (out ++ b.lits.toArray) ((out ++ b.lits.toArray).size - d.offset) (d.ext + 4)) := by
  unfold serBlock
  rw [h]
  simp only [List.cons_append, List.append_assoc]
  rw [decLoop]
  have h1 := litLen_mkTok b.lits.length d.ext
    (b.lits ++ (UInt8.ofNat (d.offset % 256) :: UInt8.ofNat (d.offset / 256) :: (lenHdr d.ext ++ tail)))
  rw [h1]
  have h2 := matchLen_mkTok b.lits.length d.ext tail
  simp only [takeN_append, h2, off_bytes d.offset ho]

def WF : List Block → Prop
  | [] => False
  | [b] => b.dup = none
  | b :: b' :: rest => (∃ d, b.dup = some d ∧ d.offset < 65536) ∧ WF (b' :: rest)

theorem decLoop_serialize (bs : List Block) (f : Nat) (out x : Bytes) (hw : WF bs) (hf : bs.length ≤ f)
    (hd : decodeBlocks bs out = some x) : decLoop f (serialize bs) out = .ok x := by
  induction bs generalizing f out with
  | nil => exact absurd hw (by simp [WF])
  | cons b rest ih =>
    cases f with
    | zero => simp at hf
    | succ f =>
      cases rest with
      | nil =>
        have hb : b.dup = none := hw
        simp only [serialize, List.flatMap_cons, List.flatMap_nil, List.append_nil]
        rw [decLoop_last f b out hb]
        simp only [decodeBlocks, hb] at hd
        injection hd with hd; rw [hd]
      | cons b' rest' =>
        obtain ⟨⟨d, hb, ho⟩, hw'⟩ := hw
        simp only [serialize, List.flatMap_cons] at *
        rw [decLoop_dup f b d _ out hb ho]
        simp only [decodeBlocks, hb] at hd
        split at hd
        · cases hd
        · rename_i hno
          rw [if_neg hno]
          exact ih f _ hw' (by simpa using hf) hd

theorem blocksFrom_WF (inp : Bytes) (f : Nat) (dict : Array Nat) (cur : Nat)
    (hc : cur ≤ inp.size) (hf : inp.size + 1 - cur ≤ f) : WF (blocksFrom inp f dict cur) := by
  induction f generalizing dict cur with
  | zero => omega
  | succ f ih =>
    unfold blocksFrom
    have spec := popBlock_spec inp (inp.size + 2 - cur) dict cur 0 hc (by omega)
    simp only at spec
    generalize popBlock inp (inp.size + 2 - cur) dict cur 0 = r at *
    obtain ⟨dict', cur', lit, dup⟩ := r
    simp only [Nat.sub_zero] at spec
    obtain ⟨_, hl, hd⟩ := spec
    cases dup with
    | none => simp [WF]
    | some d =>
      simp only at hd
      obtain ⟨⟨d1, d2, d3, d4, d5⟩, hcur⟩ := hd
      simp only
      have hw := ih dict' cur' (by omega) (by omega)
      cases hb : blocksFrom inp f dict' cur' with
      | nil => rw [hb] at hw; exact absurd hw (by simp [WF])
      | cons b' rest' =>
        rw [hb] at hw
        exact ⟨⟨d, rfl, by omega⟩, hw⟩

theorem serBlock_length_pos (b : Block) : 1 ≤ (serBlock b).length := by
  unfold serBlock; split <;> simp

theorem serialize_length (bs : List Block) : bs.length ≤ (serialize bs).length := by
  induction bs with
  | nil => simp [serialize]
  | cons b rest ih =>
    have := serBlock_length_pos b
    simp only [serialize, List.flatMap_cons, List.length_append, List.length_cons] at *
    omega

/-- The round trip of lz4-compression 0.7.0's model, for every input. -/
theorem lz4_roundtrip (inp : Bytes) : decompress (compress inp) = .ok inp := by
  unfold decompress compress
  apply decLoop_serialize
  · exact blocksFrom_WF inp _ _ 0 (Nat.zero_le _) (by omega)
  · have := serialize_length (compressBlocks inp); omega
  · exact compressBlocks_decode inp


end Lz4
end BevySync
