import BevySyncModel.Slice.Hier
namespace BevySync
namespace Hier

theorem filter_ne_nodup (l : List Nat) (c : Nat) (h : l.Nodup) : (l.filter (· != c) ++ [c]).Nodup := by
  rw [List.nodup_append]
  refine ⟨h.filter _, by simp, ?_⟩
  intro a ha b hb
  simp only [List.mem_singleton] at hb
  subst hb
  simp only [List.mem_filter, bne_iff_ne, ne_eq] at ha
  exact ha.2

theorem addChild_wf (h : H) (p c : Nat) (hw : WF h) : WF (addChild h p c) := by
  obtain ⟨h1, h2⟩ := hw
  refine ⟨fun x q => ?_, fun q => ?_⟩
  · simp only [addChild]
    by_cases hxc : x = c
    · subst hxc
      simp only [if_true]
      by_cases hqp : q = p
      · subst hqp; simp
      · simp only [hqp, if_false]
        constructor
        · intro e; exact absurd (Option.some.inj e).symm hqp
        · intro hm
          split at hm
          · simp at hm
          · exact absurd ((h1 x q).mpr hm) (by
              rename_i hne
              intro e; exact hne e)
    · simp only [hxc, if_false]
      by_cases hqp : q = p
      · subst hqp
        simp only [if_true, List.mem_append, List.mem_filter, bne_iff_ne, ne_eq, List.mem_singleton]
        rw [h1 x q]
        constructor
        · intro hm; exact Or.inl ⟨hm, hxc⟩
        · rintro (⟨hm, _⟩ | e)
          · exact hm
          · exact absurd e hxc
      · simp only [hqp, if_false]
        split
        · simp only [List.mem_filter, bne_iff_ne, ne_eq]
          rw [h1 x q]
          exact ⟨fun hm => ⟨hm, hxc⟩, fun hm => hm.1⟩
        · exact h1 x q
  · simp only [addChild]
    by_cases hqp : q = p
    · subst hqp; simp only [if_true]; exact filter_ne_nodup _ _ (h2 q)
    · simp only [hqp, if_false]
      split
      · exact (h2 q).filter _
      · exact h2 q

theorem applyParented_wf (h : H) (p c : Nat) (hw : WF h) : WF (applyParented h p c) :=
  addChild_wf _ p c (addChild_wf h p c hw)

/-- after the handler the child is under `p`, listed there exactly once, and under no other parent -/
theorem applyParented_spec (h : H) (p c : Nat) (hw : WF h) :
    (applyParented h p c).par c = some p ∧ ((applyParented h p c).ch p).count c = 1 ∧
    ∀ q, q ≠ p → c ∉ (applyParented h p c).ch q := by
  have hwf := applyParented_wf h p c hw
  have hp : (applyParented h p c).par c = some p := by simp [applyParented, addChild]
  refine ⟨hp, ?_, fun q hq hm => ?_⟩
  · rw [List.Nodup.count (hwf.2 p), if_pos ((hwf.1 c p).mp hp)]
  · have := (hwf.1 c q).mpr hm
    rw [hp] at this
    exact hq (Option.some.inj this).symm

/-! ## Any sequence of link operations (chains, fan-out, moves between parents)

Every `EntityParented` a peer handles and every local `set_parent` is one `applyParented`; a peer's hierarchy after a
history is the fold of its operations.  Different peers handle the operations of *different* children in different
orders (per-child order is what the channel and the relay preserve, `Proofs/CompOrder`), so the theorem is stated on
what they share: the last operation naming each child. -/

/-- the hierarchy after a list of `(parent, child)` operations, oldest first -/
def applyAll (h : H) (ops : List (Nat × Nat)) : H := ops.foldl (fun h o => applyParented h o.1 o.2) h

/-- the parent the last operation naming `c` gave it (`init` when none does) -/
def lastOp (c : Nat) (ops : List (Nat × Nat)) (init : Option Nat) : Option Nat :=
  ops.foldl (fun acc o => if o.2 = c then some o.1 else acc) init

theorem applyParented_par (h : H) (p c x : Nat) :
    (applyParented h p c).par x = if c = x then some p else h.par x := by
  simp only [applyParented, addChild]
  by_cases e : x = c
  · subst e; simp
  · have e' : ¬ c = x := fun q => e q.symm
    simp [e, e']

theorem applyAll_wf (h : H) (ops : List (Nat × Nat)) (hw : WF h) : WF (applyAll h ops) := by
  induction ops generalizing h with
  | nil => exact hw
  | cons o ops ih => exact ih _ (applyParented_wf h o.1 o.2 hw)

theorem applyAll_par (h : H) (ops : List (Nat × Nat)) (c : Nat) :
    (applyAll h ops).par c = lastOp c ops (h.par c) := by
  induction ops generalizing h with
  | nil => rfl
  | cons o ops ih =>
    have := ih (applyParented h o.1 o.2)
    simp only [applyAll, List.foldl_cons, lastOp] at this ⊢
    rw [this, applyParented_par]

theorem lastOp_init (c : Nat) (ops : List (Nat × Nat)) (init : Option Nat) :
    lastOp c ops init = (lastOp c ops none).or init := by
  induction ops generalizing init with
  | nil => simp [lastOp]
  | cons o ops ih =>
    simp only [lastOp, List.foldl_cons] at ih ⊢
    by_cases e : o.2 = c
    · simp only [e, if_true]
      rw [ih (some o.1)]
      cases List.foldl (fun acc o => if o.2 = c then some o.1 else acc) none ops <;> simp
    · simp only [e, if_false]
      exact ih init

/-- in a well-formed hierarchy the `Children` lists are determined, up to order, by the `Parent`s -/
theorem wf_count (h : H) (hw : WF h) (c q : Nat) : (h.ch q).count c = if h.par c = some q then 1 else 0 := by
  rw [List.Nodup.count (hw.2 q)]
  by_cases hp : h.par c = some q
  · rw [if_pos hp, if_pos ((hw.1 c q).mp hp)]
  · rw [if_neg hp, if_neg (fun hm => hp ((hw.1 c q).mpr hm))]

/-- **any two histories with the same last operation per child end with the same links**: same `Parent` for every
child, every child listed exactly once under that parent and under no other, on both peers — whatever the order in
which the operations of different children were handled, and however often a child moved in between -/
theorem applyAll_agree (h1 h2 : H) (ops1 ops2 : List (Nat × Nat)) (hw1 : WF h1) (hw2 : WF h2)
    (hp : ∀ c, h1.par c = h2.par c) (hl : ∀ c, lastOp c ops1 none = lastOp c ops2 none) :
    (∀ c, (applyAll h1 ops1).par c = (applyAll h2 ops2).par c) ∧
    ∀ c q, ((applyAll h1 ops1).ch q).count c = ((applyAll h2 ops2).ch q).count c ∧
      ((applyAll h1 ops1).ch q).count c = if (applyAll h1 ops1).par c = some q then 1 else 0 := by
  have hpar : ∀ c, (applyAll h1 ops1).par c = (applyAll h2 ops2).par c := by
    intro c
    rw [applyAll_par, applyAll_par, lastOp_init c ops1, lastOp_init c ops2, hl c, hp c]
  refine ⟨hpar, fun c q => ?_⟩
  rw [wf_count _ (applyAll_wf h1 ops1 hw1), wf_count _ (applyAll_wf h2 ops2 hw2), hpar c]
  exact ⟨rfl, rfl⟩

/-- a child named by some operation ends under the parent of the last such operation, exactly once, nowhere else -/
theorem applyAll_last (h : H) (ops : List (Nat × Nat)) (hw : WF h) (c p : Nat)
    (hl : lastOp c ops none = some p) :
    (applyAll h ops).par c = some p ∧ ((applyAll h ops).ch p).count c = 1 ∧
    ∀ q, q ≠ p → c ∉ (applyAll h ops).ch q := by
  have hp : (applyAll h ops).par c = some p := by rw [applyAll_par, lastOp_init, hl]; rfl
  have hwf := applyAll_wf h ops hw
  refine ⟨hp, ?_, fun q hq hm => ?_⟩
  · rw [wf_count _ hwf, if_pos hp]
  · have := (hwf.1 c q).mpr hm
    rw [hp] at this
    exact hq (Option.some.inj this).symm

/-! ## What a peer really carries out: local `set_parent`s and guarded handlers, mixed

A local `set_parent` is one `add_child` (no guard: an entity re-parented to the parent it already has moves to the end
of that parent's list). A received `EntityParented` goes through the handler, which does `set_parent; add_child` only
when the link differs. A peer's history is a mix of the two. -/

theorem handle_wf (h : H) (p c : Nat) (hw : WF h) : WF (handle h p c) := by
  unfold handle; split
  · exact hw
  · exact applyParented_wf h p c hw

theorem handle_par (h : H) (p c x : Nat) : (handle h p c).par x = if c = x then some p else h.par x := by
  unfold handle; split
  · rename_i e
    by_cases ex : c = x
    · subst ex; simp [e]
    · simp [ex]
  · exact applyParented_par h p c x

/-- a repeated message changes nothing: the guard stops the second application (and with it the `Changed<Parent>`
that would be announced again) -/
theorem handle_idem (h : H) (p c : Nat) : handle (handle h p c) p c = handle h p c := by
  have : (handle h p c).par c = some p := by rw [handle_par]; simp
  generalize handle h p c = g at this ⊢
  unfold handle
  rw [if_pos this]

theorem addChild_par (h : H) (p c x : Nat) : (addChild h p c).par x = if c = x then some p else h.par x := by
  simp only [addChild]
  by_cases e : x = c
  · subst e; simp
  · have e' : ¬ c = x := fun q => e q.symm
    simp [e, e']

theorem stepOp_wf (h : H) (o : Bool × Nat × Nat) (hw : WF h) : WF (stepOp h o) := by
  unfold stepOp; split
  · exact handle_wf h _ _ hw
  · exact addChild_wf h _ _ hw

theorem stepOp_par (h : H) (o : Bool × Nat × Nat) (x : Nat) :
    (stepOp h o).par x = if o.2.2 = x then some o.2.1 else h.par x := by
  unfold stepOp; split
  · exact handle_par h _ _ x
  · exact addChild_par h _ _ x

theorem runOps_wf (h : H) (ops : List (Bool × Nat × Nat)) (hw : WF h) : WF (runOps h ops) := by
  induction ops generalizing h with
  | nil => exact hw
  | cons o ops ih => exact ih _ (stepOp_wf h o hw)

theorem runOps_par (h : H) (ops : List (Bool × Nat × Nat)) (c : Nat) :
    (runOps h ops).par c = lastOp c (ops.map (·.2)) (h.par c) := by
  induction ops generalizing h with
  | nil => rfl
  | cons o ops ih =>
    have := ih (stepOp h o)
    simp only [runOps, List.foldl_cons, lastOp, List.map_cons] at this ⊢
    rw [this, stepOp_par]

/-- mixed histories on two peers (what one did locally the other handled as a message, and the other way round; the
operations of different children in any order): same last operation per child → same links, each child exactly once
under its parent and nowhere else, on both -/
theorem runOps_agree (h1 h2 : H) (ops1 ops2 : List (Bool × Nat × Nat)) (hw1 : WF h1) (hw2 : WF h2)
    (hp : ∀ c, h1.par c = h2.par c)
    (hl : ∀ c, lastOp c (ops1.map (·.2)) none = lastOp c (ops2.map (·.2)) none) :
    (∀ c, (runOps h1 ops1).par c = (runOps h2 ops2).par c) ∧
    ∀ c q, ((runOps h1 ops1).ch q).count c = ((runOps h2 ops2).ch q).count c ∧
      ((runOps h1 ops1).ch q).count c = if (runOps h1 ops1).par c = some q then 1 else 0 := by
  have hpar : ∀ c, (runOps h1 ops1).par c = (runOps h2 ops2).par c := by
    intro c
    rw [runOps_par, runOps_par, lastOp_init c (ops1.map (·.2)), lastOp_init c (ops2.map (·.2)), hl c, hp c]
  refine ⟨hpar, fun c q => ?_⟩
  rw [wf_count _ (runOps_wf h1 ops1 hw1), wf_count _ (runOps_wf h2 ops2 hw2), hpar c]
  exact ⟨rfl, rfl⟩

/-- one `add_child`, list by list: the child goes to the end of the new parent's list, leaves the previous parent's,
every other list is untouched, and the siblings keep their order everywhere -/
theorem addChild_lists (h : H) (p c q : Nat) :
    (addChild h p c).ch q =
      if q = p then (h.ch p).filter (· != c) ++ [c]
      else if h.par c = some q then (h.ch q).filter (· != c) else h.ch q := by
  simp only [addChild]

theorem addChild_siblings_keep_order (h : H) (p c q : Nat) :
    ((addChild h p c).ch q).filter (· != c) = (h.ch q).filter (· != c) := by
  rw [addChild_lists]
  split
  · rename_i e; subst e; simp [List.filter_filter]
  · split
    · simp [List.filter_filter]
    · rfl

end Hier
end BevySync
