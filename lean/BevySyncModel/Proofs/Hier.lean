import BevySyncModel.Slice.Hier
namespace BevySync
namespace Hier

theorem filter_ne_nodup (l : List Nat) (c : Nat) (h : l.Nodup) : (l.filter (· != c) ++ [c]).Nodup := by
  rw [List.nodup_append]
  refine ⟨h.filter _, by simp, ?_⟩
  intro a ha b hb
  simp only [List.mem_singleton] at hb
  subst hb
  simp only [List.mem_filter, bne_iff_ne, ne_eq] at ha
  exact ha.2

theorem addChild_wf (h : H) (p c : Nat) (hw : WF h) : WF (addChild h p c) := by
  obtain ⟨h1, h2⟩ := hw
  refine ⟨fun x q => ?_, fun q => ?_⟩
  · simp only [addChild]
    by_cases hxc : x = c
    · subst hxc
      simp only [if_true]
      by_cases hqp : q = p
      · subst hqp; simp
      · simp only [hqp, if_false]
        constructor
        · intro e; exact absurd (Option.some.inj e).symm hqp
        · intro hm
          split at hm
          · simp at hm
          · exact absurd ((h1 x q).mpr hm) (by
              rename_i hne
              intro e; exact hne e)
    · simp only [hxc, if_false]
      by_cases hqp : q = p
      · subst hqp
        simp only [if_true, List.mem_append, List.mem_filter, bne_iff_ne, ne_eq, List.mem_singleton]
        rw [h1 x q]
        constructor
        · intro hm; exact Or.inl ⟨hm, hxc⟩
        · rintro (⟨hm, _⟩ | e)
          · exact hm
          · exact absurd e hxc
      · simp only [hqp, if_false]
        split
        · simp only [List.mem_filter, bne_iff_ne, ne_eq]
          rw [h1 x q]
          exact ⟨fun hm => ⟨hm, hxc⟩, fun hm => hm.1⟩
        · exact h1 x q
  · simp only [addChild]
    by_cases hqp : q = p
    · subst hqp; simp only [if_true]; exact filter_ne_nodup _ _ (h2 q)
    · simp only [hqp, if_false]
      split
      · exact (h2 q).filter _
      · exact h2 q

theorem applyParented_wf (h : H) (p c : Nat) (hw : WF h) : WF (applyParented h p c) :=
  addChild_wf _ p c (addChild_wf h p c hw)

/-- after the handler the child is under `p`, listed there exactly once, and under no other parent -/
theorem applyParented_spec (h : H) (p c : Nat) (hw : WF h) :
    (applyParented h p c).par c = some p ∧ ((applyParented h p c).ch p).count c = 1 ∧
    ∀ q, q ≠ p → c ∉ (applyParented h p c).ch q := by
  have hwf := applyParented_wf h p c hw
  have hp : (applyParented h p c).par c = some p := by simp [applyParented, addChild]
  refine ⟨hp, ?_, fun q hq hm => ?_⟩
  · rw [List.Nodup.count (hwf.2 p), if_pos ((hwf.1 c p).mp hp)]
  · have := (hwf.1 c q).mpr hm
    rw [hp] at this
    exact hq (Option.some.inj this).symm

end Hier
end BevySync
