import BevySyncModel.Wire
/-! Round trip of the typed bincode universe: `wt t v → dec t (enc v ++ r) = some (v, r)`. -/
namespace BevySync
namespace Wire

theorem leBytes_length (w n : Nat) : (leBytes w n).length = w := by
  induction w generalizing n with
  | zero => rfl
  | succ w ih => simp [leBytes, ih]

theorem leVal_leBytes (w n : Nat) (h : n < 256 ^ w) : leVal (leBytes w n) = n := by
  induction w generalizing n with
  | zero => simp at h; subst h; rfl
  | succ w ih =>
    have h1 : n / 256 < 256 ^ w := by
      rw [Nat.pow_succ] at h
      exact Nat.div_lt_of_lt_mul (by rw [Nat.mul_comm]; exact h)
    have h2 : (UInt8.ofNat (n % 256)).toNat = n % 256 :=
      UInt8.toNat_ofNat_of_lt' (by show _ < 256; omega)
    simp only [leBytes, leVal, ih _ h1, h2]
    omega

theorem splitN_append (a r : List UInt8) : splitN a.length (a ++ r) = Option.some (a, r) := by
  induction a with
  | nil => simp [splitN]
  | cons b a ih => simp [splitN, ih]

theorem splitN_append' (n : Nat) (a r : List UInt8) (h : a.length = n) :
    splitN n (a ++ r) = Option.some (a, r) := by
  subst h; exact splitN_append a r

theorem readUInt_leBytes (w n : Nat) (r : List UInt8) (h : n < 256 ^ w) :
    readUInt w (leBytes w n ++ r) = Option.some (n, r) := by
  unfold readUInt
  rw [splitN_append' w _ r (leBytes_length w n)]
  simp [leVal_leBytes w n h]

theorem decVariant_nth (ts : TyList) (i : Nat) (bs : List UInt8) :
    decVariant ts i bs = match ts.nth i with
      | Option.some t => dec t bs
      | Option.none => Option.none := by
  match ts, i with
  | .nil, _ => simp [decVariant, TyList.nth]
  | .cons t _, 0 => simp [decVariant, TyList.nth]
  | .cons _ ts, i+1 =>
    simp only [decVariant, TyList.nth]
    exact decVariant_nth ts i bs

mutual
theorem dec_enc (t : Ty) (v : Val) (r : List UInt8) (h : wt t v = true) :
    dec t (enc v ++ r) = Option.some (v, r) := by
  match t, v with
  | .uint w, .int w' n =>
    simp only [wt, Bool.and_eq_true, beq_iff_eq, decide_eq_true_eq] at h
    obtain ⟨rfl, hn⟩ := h
    simp only [enc, dec, readUInt_leBytes _ n r hn]
  | .bool, .bool b =>
    cases b <;> simp [enc, dec]
  | .str, .str bs =>
    simp only [wt, Bool.and_eq_true, decide_eq_true_eq] at h
    obtain ⟨hu, hl⟩ := h
    have : bs.length < 256 ^ 8 := by simpa using hl
    simp only [enc, dec, List.append_assoc, readUInt_leBytes 8 _ _ this, splitN_append, hu, if_true]
  | .bytes, .bytes bs =>
    simp only [wt, decide_eq_true_eq] at h
    have : bs.length < 256 ^ 8 := by simpa using h
    simp only [enc, dec, List.append_assoc, readUInt_leBytes 8 _ _ this, splitN_append]
  | .uuid, .uuid bs =>
    simp only [wt, beq_iff_eq] at h
    have h16 : (16 : Nat) < 256 ^ 8 := by decide
    simp only [enc, dec, List.append_assoc, h, readUInt_leBytes 8 16 _ h16,
      splitN_append' 16 bs r h, beq_self_eq_true, if_true]
  | .opt _, .none => simp [enc, dec]
  | .opt t, .some v =>
    simp only [wt] at h
    have ih := dec_enc t v r h
    simp [enc, dec, ih]
  | .seq t, .seq vs =>
    simp only [wt, Bool.and_eq_true, decide_eq_true_eq] at h
    obtain ⟨ha, hl⟩ := h
    have : vs.length < 256 ^ 8 := by simpa using hl
    have ih := decMany_encs t vs r ha
    simp only [enc, dec, List.append_assoc, readUInt_leBytes 8 _ _ this, ih]
  | .tup ts, .tup vs =>
    simp only [wt] at h
    have ih := decs_encs ts vs r h
    simp only [enc, dec, ih]
  | .enm ts, .variant i v =>
    simp only [wt, Bool.and_eq_true, decide_eq_true_eq] at h
    obtain ⟨hi, hv⟩ := h
    have : i < 256 ^ 4 := by simpa using hi
    simp only [enc, dec, List.append_assoc, readUInt_leBytes 4 _ _ this, decVariant_nth]
    cases hn : ts.nth i with
    | none => simp [hn] at hv
    | some t' =>
      simp only [hn] at hv
      have ih := dec_enc t' v r hv
      simp only [ih]
  | .uint _, .bool _ | .uint _, .str _ | .uint _, .bytes _ | .uint _, .uuid _ | .uint _, .none
  | .uint _, .some _ | .uint _, .seq _ | .uint _, .tup _ | .uint _, .variant _ _ => simp [wt] at h
  | .bool, .int _ _ | .bool, .str _ | .bool, .bytes _ | .bool, .uuid _ | .bool, .none
  | .bool, .some _ | .bool, .seq _ | .bool, .tup _ | .bool, .variant _ _ => simp [wt] at h
  | .str, .int _ _ | .str, .bool _ | .str, .bytes _ | .str, .uuid _ | .str, .none
  | .str, .some _ | .str, .seq _ | .str, .tup _ | .str, .variant _ _ => simp [wt] at h
  | .bytes, .int _ _ | .bytes, .bool _ | .bytes, .str _ | .bytes, .uuid _ | .bytes, .none
  | .bytes, .some _ | .bytes, .seq _ | .bytes, .tup _ | .bytes, .variant _ _ => simp [wt] at h
  | .uuid, .int _ _ | .uuid, .bool _ | .uuid, .str _ | .uuid, .bytes _ | .uuid, .none
  | .uuid, .some _ | .uuid, .seq _ | .uuid, .tup _ | .uuid, .variant _ _ => simp [wt] at h
  | .opt _, .int _ _ | .opt _, .bool _ | .opt _, .str _ | .opt _, .bytes _ | .opt _, .uuid _
  | .opt _, .seq _ | .opt _, .tup _ | .opt _, .variant _ _ => simp [wt] at h
  | .seq _, .int _ _ | .seq _, .bool _ | .seq _, .str _ | .seq _, .bytes _ | .seq _, .uuid _
  | .seq _, .none | .seq _, .some _ | .seq _, .tup _ | .seq _, .variant _ _ => simp [wt] at h
  | .tup _, .int _ _ | .tup _, .bool _ | .tup _, .str _ | .tup _, .bytes _ | .tup _, .uuid _
  | .tup _, .none | .tup _, .some _ | .tup _, .seq _ | .tup _, .variant _ _ => simp [wt] at h
  | .enm _, .int _ _ | .enm _, .bool _ | .enm _, .str _ | .enm _, .bytes _ | .enm _, .uuid _
  | .enm _, .none | .enm _, .some _ | .enm _, .seq _ | .enm _, .tup _ => simp [wt] at h
theorem decMany_encs (t : Ty) (vs : ValList) (r : List UInt8) (h : wtAll t vs = true) :
    decMany (dec t) vs.length (encs vs ++ r) = Option.some (vs, r) := by
  match vs with
  | .nil => simp [decMany, encs, ValList.length]
  | .cons v vs =>
    simp only [wtAll, Bool.and_eq_true] at h
    have ih1 := dec_enc t v (encs vs ++ r) h.1
    have ih2 := decMany_encs t vs r h.2
    simp only [decMany, encs, ValList.length, List.append_assoc, ih1, ih2]
theorem decs_encs (ts : TyList) (vs : ValList) (r : List UInt8) (h : wts ts vs = true) :
    decs ts (encs vs ++ r) = Option.some (vs, r) := by
  match ts, vs with
  | .nil, .nil => simp [decs, encs]
  | .cons t ts, .cons v vs =>
    simp only [wts, Bool.and_eq_true] at h
    have ih1 := dec_enc t v (encs vs ++ r) h.1
    have ih2 := decs_encs ts vs r h.2
    simp only [decs, encs, List.append_assoc, ih1, ih2]
  | .nil, .cons _ _ => simp [wts] at h
  | .cons _ _, .nil => simp [wts] at h
end

theorem decode_enc (t : Ty) (v : Val) (h : wt t v = true) : decode t (enc v) = Option.some v := by
  have := dec_enc t v [] h
  rw [List.append_nil] at this
  simp [decode, this]

theorem decode_enc_trailing (t : Ty) (v : Val) (r : List UInt8) (h : wt t v = true) :
    decode t (enc v ++ r) = Option.some v := by
  simp [decode, dec_enc t v r h]

end Wire
end BevySync
