import BevySyncModel.Proofs.CompPot
/-! The traffic bound of the component slice does not depend on how values are compared.  `stepA` is `Comp.step` with the
apply function as a parameter; the potential argument only needs that an apply never uncovers a change and leaves the send
queue alone (`CoversOwn`).  Instances: the model's own `apply` (so `stepA` is `step`), and `applyS same`, an apply whose
"is it the value I already hold" test is an arbitrary — possibly non-reflexive — relation: a component containing a NaN
never compares equal to itself, is applied every time it arrives, and still costs at most `N + 1` messages per write. -/
namespace BevySync
namespace Comp
open SumPot

variable {V : Type} {ra : Bool} [DecidableEq V]

def stepA (relayAlways : Bool) (ap : Peer V → V → Peer V × Bool) (s : State V) : Act V → State V
  | .writeH v => { s with host := write s.host v, written := s.written ++ [v] }
  | .detectH => { s with host := detect s.host }
  | .reactH =>
    { s with host := { s.host with queue := [] },
             clients := s.clients.map (fun c => { c with down := c.down ++ s.host.queue }),
             sent := s.sent + s.host.queue.length * s.clients.length }
  | .pollH i n =>
    match findClient i s.clients with
    | some c =>
      { s with hdefer := s.hdefer ++ (c.up.take n).map (fun v => (i, v)),
               clients := onClient i (fun c => { c with up := c.up.drop n }) s.clients }
    | none => s
  | .flushH =>
    match s.hdefer with
    | [] => s
    | (i, v) :: rest =>
      let (h', changed) := ap s.host v
      if changed || relayAlways then
        { s with host := h', hdefer := rest,
                 clients := s.clients.map (fun c => if c.id = i then c else { c with down := c.down ++ [v] }),
                 sent := s.sent + (s.clients.filter (fun c => c.id ≠ i)).length }
      else { s with host := h', hdefer := rest }
  | .writeC i v =>
    { s with clients := onClient i (fun c => { c with p := write c.p v }) s.clients,
             written := s.written ++ [v] }
  | .detectC i => { s with clients := onClient i (fun c => { c with p := detect c.p }) s.clients }
  | .reactC i =>
    { s with clients := onClient i (fun c => { c with p := { c.p with queue := [] }, up := c.up ++ c.p.queue }) s.clients,
             sent := s.sent + ((findClient i s.clients).map (fun c => c.p.queue.length)).getD 0 }
  | .pollC i n =>
    { s with clients := onClient i (fun c => { c with defer := c.defer ++ c.down.take n, down := c.down.drop n }) s.clients }
  | .flushC i =>
    { s with clients := onClient i (fun c =>
        match c.defer with
        | [] => c
        | v :: rest => { c with p := (ap c.p v).1, defer := rest }) s.clients }

def runA (relayAlways : Bool) (ap : Peer V → V → Peer V × Bool) (s : State V) (as : List (Act V)) : State V :=
  as.foldl (stepA relayAlways ap) s

/-- an apply never uncovers a change and never touches the send queue -/
def CoversOwn (ap : Peer V → V → Peer V × Bool) : Prop :=
  ∀ (W : Nat) (p : Peer V) (v : V), unc W (ap p v).1 ≤ unc W p ∧ (ap p v).1.queue = p.queue

/-- an apply whose equality test is an arbitrary relation (`same held new`) -/
def applyS (same : V → V → Bool) (pt : V → V → V) (p : Peer V) (v : V) : Peer V × Bool :=
  if (p.val.map (fun o => same o v)).getD false then (p, false)
  else
    let nv := match p.val with
      | some o => pt o v
      | none => v
    ({ p with val := some nv, dirty := true, token := true, shown := p.shown ++ [nv] }, true)

theorem covers_applyS (same : V → V → Bool) (pt : V → V → V) : CoversOwn (applyS same pt) := by
  intro W p v
  unfold applyS
  split
  · exact ⟨Nat.le_refl _, rfl⟩
  · simp [unc]

theorem covers_apply (pt : V → V → V) : CoversOwn (apply false pt) :=
  fun W p v => unc_apply W pt p v

/-- `stepA` with the model's own apply is the model's step -/
theorem step_eq_stepA (pt : V → V → V) (s : State V) (a : Act V) :
    step ra false pt s a = stepA ra (apply false pt) s a := by
  cases a <;> rfl

def cFlushA (ap : Peer V → V → Peer V × Bool) (c : Client V) : Client V :=
  match c.defer with
  | [] => c
  | v :: rest => { c with p := (ap c.p v).1, defer := rest }

theorem stepA_reactC (ap : Peer V → V → Peer V × Bool) (s : State V) (i : Nat) : stepA ra ap s (.reactC i) =
    { s with clients := onClient i cReactF s.clients,
             sent := s.sent + ((findClient i s.clients).map (fun c => c.p.queue.length)).getD 0 } := rfl

theorem stepA_flushC (ap : Peer V → V → Peer V × Bool) (s : State V) (i : Nat) : stepA ra ap s (.flushC i) =
    { s with clients := onClient i (cFlushA ap) s.clients } := rfl

theorem ids_stepA (ap : Peer V → V → Peer V × Bool) (s : State V) (a : Act V) :
    (stepA ra ap s a).clients.map (·.id) = s.clients.map (·.id) := by
  cases a with
  | writeH v => rfl
  | detectH => rfl
  | reactH => exact ids_map _ _ (fun _ => rfl)
  | pollH i n =>
    simp only [stepA]
    cases findClient i s.clients with
    | none => rfl
    | some c0 => exact ids_onClient _ _ _ (fun _ => rfl)
  | flushH =>
    simp only [stepA]
    cases s.hdefer with
    | nil => rfl
    | cons m rest =>
      obtain ⟨i, v⟩ := m
      simp only
      split
      · exact ids_map _ _ (fun c => by split <;> rfl)
      · rfl
  | writeC i v => exact ids_onClient _ _ _ (fun _ => rfl)
  | detectC i => exact ids_onClient _ _ _ (fun _ => rfl)
  | reactC i => exact ids_onClient _ _ _ (fun _ => rfl)
  | pollC i n => exact ids_onClient _ _ _ (fun _ => rfl)
  | flushC i => exact ids_onClient _ _ _ (fun c => by split <;> rfl)

theorem gpotA_step (ap : Peer V → V → Peer V × Bool) (hap : CoversOwn ap) (s : State V) (a : Act V)
    (hn : (s.clients.map (·.id)).Nodup) :
    gpot (stepA ra ap s a) ≤ gpot s + (s.clients.length + 1) * wcost a := by
  cases a with
  | writeH v =>
    obtain ⟨h1, h2⟩ := unc_write (s.clients.length + 1) s.host v
    simp only [gpot, stepA, wcost, Nat.mul_one, h2]
    omega
  | detectH =>
    have := unc_detect (s.clients.length + 1) s.clients.length (Nat.le_succ _) s.host
    simp only [gpot, stepA, wcost, Nat.mul_zero, Nat.add_zero]
    omega
  | reactH =>
    have he := total_map_eq (cwt s.clients.length) (fun c : Client V => { c with down := c.down ++ s.host.queue }) s.clients
      (fun c _ => rfl)
    simp only [gpot, stepA, wcost, Nat.mul_zero, Nat.add_zero, List.length_map, he, List.length_nil, unc]
    rw [Nat.mul_comm s.host.queue.length]
    omega
  | pollH i n =>
    simp only [wcost, Nat.mul_zero, Nat.add_zero]
    cases hf : findClient i s.clients with
    | none => simp only [stepA, hf]; exact Nat.le_refl _
    | some c0 =>
      simp only [stepA, hf]
      have hl : (onClient i (fun c : Client V => { c with up := c.up.drop n }) s.clients).length = s.clients.length :=
        length_on _ _ _ _
      have hpay := total_on_pay (cwt s.clients.length) (·.id) i (s.clients.length * (c0.up.take n).length)
        (fun c : Client V => { c with up := c.up.drop n }) s.clients c0 hf
        (by
          intro c _
          simp only [cwt, List.length_drop]
          exact Nat.add_le_add_left (Nat.mul_le_mul_left _ (Nat.sub_le _ _)) _)
        (by
          simp only [cwt]
          have e : (c0.up.drop n).length + (c0.up.take n).length = c0.up.length := by
            simp only [List.length_drop, List.length_take]; omega
          rw [← e, Nat.mul_add]
          omega)
      have e : onClient i (fun c : Client V => { c with up := c.up.drop n }) s.clients =
          on (·.id) i (fun c : Client V => { c with up := c.up.drop n }) s.clients := rfl
      simp only [gpot, hl, List.length_append, List.length_map, Nat.mul_add]
      rw [e]
      omega
  | flushH =>
    simp only [wcost, Nat.mul_zero, Nat.add_zero]
    simp only [stepA]
    cases hdf : s.hdefer with
    | nil => simp only [gpot, hdf]; exact Nat.le_refl _
    | cons m rest =>
      obtain ⟨i, v⟩ := m
      obtain ⟨h1, h2⟩ := hap (s.clients.length + 1) s.host v
      have hf := List.length_filter_le (fun c : Client V => c.id ≠ i) s.clients
      have he := total_map_eq (cwt s.clients.length) (fun c : Client V => if c.id = i then c else { c with down := c.down ++ [v] })
        s.clients (fun c _ => by split <;> rfl)
      simp only
      split
      · simp only [gpot, hdf, List.length_map, he, h2, List.length_cons, Nat.mul_succ]
        omega
      · simp only [gpot, hdf, h2, List.length_cons, Nat.mul_succ]
        omega
  | writeC i v =>
    simp only [gpot, stepA, wcost, Nat.mul_one]
    have hl : (onClient i (fun c : Client V => { c with p := write c.p v }) s.clients).length = s.clients.length :=
      length_on _ _ _ _
    have := total_on_add (cwt s.clients.length) (·.id) i (s.clients.length + 1)
      (fun c : Client V => { c with p := write c.p v }) s.clients hn
      (by
        intro c _
        obtain ⟨h1, h2⟩ := unc_write (s.clients.length + 1) c.p v
        simp only [cwt, h2]
        omega)
    have e : onClient i (fun c : Client V => { c with p := write c.p v }) s.clients =
        on (·.id) i (fun c : Client V => { c with p := write c.p v }) s.clients := rfl
    rw [hl, e]
    omega
  | detectC i =>
    simp only [gpot, stepA, wcost, Nat.mul_zero, Nat.add_zero]
    have hl : (onClient i (fun c : Client V => { c with p := detect c.p }) s.clients).length = s.clients.length :=
      length_on _ _ _ _
    have := total_on_le (cwt s.clients.length) (·.id) i (fun c : Client V => { c with p := detect c.p }) s.clients
      (by
        intro c _
        have := unc_detect (s.clients.length + 1) (s.clients.length + 1) (Nat.le_refl _) c.p
        simp only [cwt]
        omega)
    have e : onClient i (fun c : Client V => { c with p := detect c.p }) s.clients =
        on (·.id) i (fun c : Client V => { c with p := detect c.p }) s.clients := rfl
    rw [hl, e]
    omega
  | reactC i =>
    rw [stepA_reactC]
    simp only [gpot, wcost, Nat.mul_zero, Nat.add_zero]
    have hl : (onClient i cReactF s.clients).length = s.clients.length := length_on _ _ _ _
    have e : onClient i cReactF s.clients = on (·.id) i cReactF s.clients := rfl
    have hone : ∀ c : Client V, cwt s.clients.length (cReactF c) + c.p.queue.length = cwt s.clients.length c := by
      intro c
      have hu : unc (s.clients.length + 1) ({ c.p with queue := [] } : Peer V) = unc (s.clients.length + 1) c.p := rfl
      simp only [cwt, cReactF, hu, List.length_nil, Nat.mul_zero, Nat.add_zero, List.length_append, Nat.mul_add, Nat.add_mul,
        Nat.one_mul]
      omega
    rw [hl, e]
    cases hf : findClient i s.clients with
    | none =>
      rw [on_absent (·.id) i _ s.clients (find_none_absent (fun c : Client V => c.id) hf)]
      simp
    | some c0 =>
      have := total_on_pay (cwt s.clients.length) (·.id) i c0.p.queue.length cReactF s.clients c0 hf
        (fun c _ => by have := hone c; omega) (by have := hone c0; omega)
      simp only [Option.map_some, Option.getD_some]
      omega
  | pollC i n =>
    simp only [gpot, stepA, wcost, Nat.mul_zero, Nat.add_zero]
    have hl : (onClient i (fun c : Client V => { c with defer := c.defer ++ c.down.take n, down := c.down.drop n }) s.clients).length =
        s.clients.length := length_on _ _ _ _
    have := total_on_le (cwt s.clients.length) (·.id) i
      (fun c : Client V => { c with defer := c.defer ++ c.down.take n, down := c.down.drop n }) s.clients
      (fun c _ => Nat.le_refl _)
    have e : onClient i (fun c : Client V => { c with defer := c.defer ++ c.down.take n, down := c.down.drop n }) s.clients =
        on (·.id) i (fun c : Client V => { c with defer := c.defer ++ c.down.take n, down := c.down.drop n }) s.clients := rfl
    rw [hl, e]
    omega
  | flushC i =>
    rw [stepA_flushC]
    simp only [gpot, wcost, Nat.mul_zero, Nat.add_zero]
    have hl : (onClient i (cFlushA ap) s.clients).length = s.clients.length := length_on _ _ _ _
    have := total_on_le (cwt s.clients.length) (·.id) i (cFlushA ap) s.clients
      (by
        intro c _
        cases hdf : c.defer with
        | nil => simp only [cFlushA, hdf]; exact Nat.le_refl _
        | cons v rest =>
          obtain ⟨h1, h2⟩ := hap (s.clients.length + 1) c.p v
          simp only [cFlushA, hdf, cwt, h2]
          omega)
    have e : onClient i (cFlushA ap) s.clients = on (·.id) i (cFlushA ap) s.clients := rfl
    rw [hl, e]
    omega


theorem gpotA_run (ap : Peer V → V → Peer V × Bool) (hap : CoversOwn ap) (s : State V) (as : List (Act V))
    (hn : (s.clients.map (·.id)).Nodup) :
    (runA ra ap s as).clients.length = s.clients.length ∧
      gpot (runA ra ap s as) ≤ gpot s + (s.clients.length + 1) * wops as := by
  induction as generalizing s with
  | nil => exact ⟨rfl, by simp [runA, wops]⟩
  | cons a as ih =>
    have hids := ids_stepA (ra := ra) ap s a
    have hn' : ((stepA ra ap s a).clients.map (·.id)).Nodup := by rw [hids]; exact hn
    obtain ⟨h1, h2⟩ := ih (stepA ra ap s a) hn'
    have h3 := gpotA_step (ra := ra) ap hap s a hn
    have hl : (stepA ra ap s a).clients.length = s.clients.length := by
      have := congrArg List.length hids
      simpa using this
    simp only [runA, List.foldl_cons] at h1 h2 ⊢
    refine ⟨by rw [h1, hl], ?_⟩
    rw [hl] at h2
    simp only [wops, List.map_cons, List.sum_cons, Nat.mul_add] at h2 ⊢
    omega

/-- **bounded work whatever "equal" means.** For any apply that never uncovers a change — in particular for an equality test
that is not reflexive (a value containing a NaN), not symmetric, or constantly false — any schedule with writes by any
peers sends at most `N + 1` messages per application write from a calm state. -/
theorem trafficA_bounded (ap : Peer V → V → Peer V × Bool) (hap : CoversOwn ap) (s : State V) (as : List (Act V))
    (hn : (s.clients.map (·.id)).Nodup) (hc : Calm s) :
    (runA ra ap s as).sent ≤ s.sent + (s.clients.length + 1) * wops as := by
  have := (gpotA_run (ra := ra) ap hap s as hn).2
  rw [gpot_calm s hc] at this
  exact Nat.le_trans (sent_le_gpot _) this

theorem traffic_bounded_any_equality (same : V → V → Bool) (pt : V → V → V) (s : State V) (as : List (Act V))
    (hn : (s.clients.map (·.id)).Nodup) (hc : Calm s) :
    (runA ra (applyS same pt) s as).sent ≤ s.sent + (s.clients.length + 1) * wops as :=
  trafficA_bounded _ (covers_applyS same pt) s as hn hc

end Comp
end BevySync
