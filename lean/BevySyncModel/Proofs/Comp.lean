import BevySyncModel.Slice.Comp
/-! Invariants of the component slice: host-writer and client-writer epochs. -/
namespace BevySync
namespace Comp

variable {V : Type} {ra : Bool}

@[simp] theorem lastOr_nil (x : Option V) : lastOr x [] = x := rfl
@[simp] theorem lastOr_cons (x : Option V) (v : V) (l : List V) : lastOr x (v :: l) = lastOr (some v) l := rfl

theorem lastOr_append (x : Option V) (a b : List V) : lastOr x (a ++ b) = lastOr (lastOr x a) b := by
  induction a generalizing x with
  | nil => rfl
  | cons v a ih => simp [ih]

theorem lastOr_snoc (x : Option V) (a : List V) (v : V) : lastOr x (a ++ [v]) = some v := by
  rw [lastOr_append]; rfl

variable [DecidableEq V]

/-- exact apply: afterwards the peer holds `v`, whether it was applied or skipped as equal -/
theorem apply_val (p : Peer V) (v : V) : (apply false replace p v).1.val = some v := by
  unfold apply
  by_cases h : p.val = some v
  · simp [h]
  · simp only [Bool.false_and, Bool.false_eq_true, if_false, h]
    cases p.val <;> simp [replace]

theorem apply_queue (lg : Bool) (pt : V → V → V) (p : Peer V) (v : V) : (apply lg pt p v).1.queue = p.queue := by
  unfold apply; split
  · rfl
  · split <;> rfl

/-- `token = dirty` is preserved by an exact apply -/
theorem apply_flags (p : Peer V) (v : V) (h : p.token = p.dirty) :
    (apply false replace p v).1.token = (apply false replace p v).1.dirty := by
  unfold apply
  by_cases hv : p.val = some v
  · simp [hv, h]
  · simp [hv]

theorem apply_changed_iff (p : Peer V) (v : V) :
    (apply false replace p v).2 = true ↔ p.val ≠ some v := by
  unfold apply
  by_cases hv : p.val = some v <;> simp [hv]

theorem apply_unchanged (p : Peer V) (v : V) (h : (apply false replace p v).2 = false) :
    (apply false replace p v).1 = p := by
  unfold apply at h ⊢
  by_cases hv : p.val = some v
  · simp [hv]
  · simp [hv] at h

theorem detect_val (p : Peer V) : (detect p).val = p.val := by
  unfold detect; split
  · split
    · rfl
    · split <;> rfl
  · rfl

theorem detect_flags (p : Peer V) (h : p.token = p.dirty) :
    (detect p).token = (detect p).dirty ∧ (detect p).queue = p.queue := by
  unfold detect
  cases hd : p.dirty <;> simp [hd] at h ⊢
  · exact h
  · simp [h]

theorem mem_onClient {i : Nat} {f : Client V → Client V} {cs : List (Client V)} {c' : Client V}
    (h : c' ∈ onClient i f cs) : ∃ c ∈ cs, c' = if c.id = i then f c else c := by
  unfold onClient at h
  obtain ⟨c, hc, rfl⟩ := List.mem_map.mp h
  exact ⟨c, hc, rfl⟩

theorem forall_onClient {P : Client V → Prop} (i : Nat) (f : Client V → Client V) (cs : List (Client V))
    (h : ∀ c ∈ cs, c.id ≠ i → P c) (hf : ∀ c ∈ cs, c.id = i → P (f c)) : ∀ c' ∈ onClient i f cs, P c' := by
  intro c' hc'
  obtain ⟨c, hc, rfl⟩ := mem_onClient hc'
  by_cases hi : c.id = i
  · rw [if_pos hi]; exact hf c hc hi
  · rw [if_neg hi]; exact h c hc hi

theorem forall_map {P : Client V → Prop} (g : Client V → Client V) (cs : List (Client V))
    (h : ∀ c ∈ cs, P (g c)) : ∀ c' ∈ cs.map g, P c' := by
  intro c' hc'
  obtain ⟨c, hc, rfl⟩ := List.mem_map.mp hc'
  exact h c hc

/-! ## host-writer epoch -/

/-- what one client must satisfy while the host is the only writer -/
def HClientOk (h : Peer V) (c : Client V) : Prop :=
  c.up = [] ∧ c.p.queue = [] ∧ c.p.token = c.p.dirty ∧
  (h.dirty = true ∨ lastOr c.p.val (c.defer ++ c.down ++ h.queue) = h.val)

def HInv (s : State V) : Prop :=
  s.host.token = false ∧ s.hdefer = [] ∧ (s.host.dirty = true → s.host.val ≠ none) ∧
  ∀ c ∈ s.clients, HClientOk s.host c

/-- actions of an epoch in which only the host writes -/
def HostWrites : Act V → Prop
  | .writeC _ _ => False
  | _ => True

theorem hinv_step (s : State V) (a : Act V) (hi : HInv s) (ha : HostWrites a) :
    HInv (step ra false replace s a) := by
  obtain ⟨ht, hd, hv, hc⟩ := hi
  cases a with
  | writeH v =>
    refine ⟨ht, hd, fun _ => by simp [step, write], fun c hcm => ?_⟩
    obtain ⟨a1, a2, a3, _⟩ := hc c hcm
    exact ⟨a1, a2, a3, Or.inl rfl⟩
  | detectH =>
    cases hdirty : s.host.dirty with
    | false =>
      have e : detect s.host = s.host := by simp [detect, hdirty]
      simp only [step, e]
      exact ⟨ht, hd, hv, hc⟩
    | true =>
      obtain ⟨v, hval⟩ : ∃ v, s.host.val = some v := by
        cases h : s.host.val with
        | none => exact absurd h (hv hdirty)
        | some v => exact ⟨v, rfl⟩
      have e : detect s.host = { s.host with dirty := false, queue := s.host.queue ++ [v] } := by
        simp [detect, hdirty, ht, hval]
      simp only [step, e]
      refine ⟨ht, hd, fun h => by simp at h, fun c hcm => ?_⟩
      obtain ⟨a1, a2, a3, _⟩ := hc c hcm
      refine ⟨a1, a2, a3, Or.inr ?_⟩
      simp only [← List.append_assoc, lastOr_snoc, hval]
  | reactH =>
    refine ⟨ht, hd, hv, ?_⟩
    simp only [step]
    apply forall_map
    intro c hcm
    obtain ⟨a1, a2, a3, a4⟩ := hc c hcm
    refine ⟨a1, a2, a3, ?_⟩
    rcases a4 with a4 | a4
    · exact Or.inl a4
    · right; simpa [List.append_assoc] using a4
  | pollH i n =>
    simp only [step]
    cases hf : findClient i s.clients with
    | none => exact ⟨ht, hd, hv, hc⟩
    | some c0 =>
      have hmem : c0 ∈ s.clients := List.mem_of_find?_eq_some hf
      have hup : c0.up = [] := (hc c0 hmem).1
      refine ⟨ht, by simp [hd, hup], hv, ?_⟩
      apply forall_onClient _ _ _ (fun c hcm _ => hc c hcm)
      intro c hcm _
      obtain ⟨a1, a2, a3, a4⟩ := hc c hcm
      exact ⟨by simp [a1], a2, a3, a4⟩
  | flushH => simp only [step, hd]; exact ⟨ht, hd, hv, hc⟩
  | writeC i v => exact absurd ha (by simp [HostWrites])
  | detectC i =>
    refine ⟨ht, hd, hv, ?_⟩
    simp only [step]
    apply forall_onClient _ _ _ (fun c hcm _ => hc c hcm)
    intro c hcm _
    obtain ⟨a1, a2, a3, a4⟩ := hc c hcm
    obtain ⟨f1, f2⟩ := detect_flags c.p a3
    exact ⟨a1, by simp only [f2]; exact a2, f1, by simpa [detect_val] using a4⟩
  | reactC i =>
    refine ⟨ht, hd, hv, ?_⟩
    simp only [step]
    apply forall_onClient _ _ _ (fun c hcm _ => hc c hcm)
    intro c hcm _
    obtain ⟨a1, a2, a3, a4⟩ := hc c hcm
    exact ⟨by simp [a1, a2], rfl, a3, a4⟩
  | pollC i n =>
    refine ⟨ht, hd, hv, ?_⟩
    simp only [step]
    apply forall_onClient _ _ _ (fun c hcm _ => hc c hcm)
    intro c hcm _
    obtain ⟨a1, a2, a3, a4⟩ := hc c hcm
    refine ⟨a1, a2, a3, ?_⟩
    rcases a4 with a4 | a4
    · exact Or.inl a4
    · right
      have : c.defer ++ List.take n c.down ++ List.drop n c.down ++ s.host.queue = c.defer ++ c.down ++ s.host.queue := by
        rw [List.append_assoc c.defer, List.take_append_drop]
      simp only [this]; exact a4
  | flushC i =>
    refine ⟨ht, hd, hv, ?_⟩
    simp only [step]
    apply forall_onClient _ _ _ (fun c hcm _ => hc c hcm)
    intro c hcm _
    obtain ⟨a1, a2, a3, a4⟩ := hc c hcm
    cases hdef : c.defer with
    | nil => simp only []; exact ⟨a1, a2, a3, by simpa [hdef] using a4⟩
    | cons v rest =>
      simp only []
      refine ⟨a1, by rw [apply_queue]; exact a2, apply_flags c.p v a3, ?_⟩
      rcases a4 with a4 | a4
      · exact Or.inl a4
      · right
        simp only [apply_val]
        simpa [hdef] using a4

/-! ## client-writer epoch (client `w` writes; the host applies and relays to the others) -/

def WOk (h : Peer V) (hd : List V) (c : Client V) : Prop :=
  c.p.token = false ∧ c.defer = [] ∧ c.down = [] ∧ (c.p.dirty = true → c.p.val ≠ none) ∧
  (c.p.dirty = true ∨ lastOr h.val (hd ++ c.up ++ c.p.queue) = c.p.val)

def ROk (h : Peer V) (c : Client V) : Prop :=
  c.up = [] ∧ c.p.queue = [] ∧ c.p.token = c.p.dirty ∧ lastOr c.p.val (c.defer ++ c.down) = h.val

def CInv (w : Nat) (s : State V) : Prop :=
  (s.clients.map (·.id)).Nodup ∧
  s.host.queue = [] ∧ s.host.token = s.host.dirty ∧ (∀ e ∈ s.hdefer, e.1 = w) ∧
  ∀ c ∈ s.clients, (c.id = w → WOk s.host (s.hdefer.map (·.2)) c) ∧ (c.id ≠ w → ROk s.host c)

def ClientWrites (w : Nat) : Act V → Prop
  | .writeH _ => False
  | .writeC i _ => i = w
  | _ => True

theorem ids_onClient (i : Nat) (f : Client V → Client V) (cs : List (Client V)) (hf : ∀ c, (f c).id = c.id) :
    (onClient i f cs).map (·.id) = cs.map (·.id) := by
  unfold onClient
  rw [List.map_map]
  apply List.map_congr_left
  intro c _
  simp only [Function.comp]
  split
  · exact hf c
  · rfl

theorem nodup_unique {cs : List (Client V)} (hn : (cs.map (·.id)).Nodup) {a b : Client V}
    (ha : a ∈ cs) (hb : b ∈ cs) (hid : a.id = b.id) : a = b := by
  induction cs with
  | nil => cases ha
  | cons c cs ih =>
    simp only [List.map_cons, List.nodup_cons, List.mem_map, not_exists, not_and] at hn
    obtain ⟨hnot, hn'⟩ := hn
    simp only [List.mem_cons] at ha hb
    rcases ha with rfl | ha <;> rcases hb with rfl | hb
    · rfl
    · exact absurd hid.symm (hnot b hb)
    · exact absurd hid (hnot a ha)
    · exact ih hn' ha hb

theorem findClient_spec {i : Nat} {cs : List (Client V)} {c0 : Client V} (h : findClient i cs = some c0) :
    c0 ∈ cs ∧ c0.id = i := by
  unfold findClient at h
  exact ⟨List.mem_of_find?_eq_some h, by simpa using List.find?_some h⟩

theorem ids_map (g : Client V → Client V) (cs : List (Client V)) (hg : ∀ c, (g c).id = c.id) :
    (cs.map g).map (·.id) = cs.map (·.id) := by
  rw [List.map_map]
  apply List.map_congr_left
  intro c _
  exact hg c

/-- no action adds, removes or renames a client -/
theorem ids_step (lg : Bool) (pt : V → V → V) (s : State V) (a : Act V) :
    (step ra lg pt s a).clients.map (·.id) = s.clients.map (·.id) := by
  cases a with
  | writeH v => rfl
  | detectH => rfl
  | reactH => exact ids_map _ _ (fun _ => rfl)
  | pollH i n =>
    simp only [step]
    cases findClient i s.clients with
    | none => rfl
    | some c0 => exact ids_onClient _ _ _ (fun _ => rfl)
  | flushH =>
    simp only [step]
    cases s.hdefer with
    | nil => rfl
    | cons e rest =>
      obtain ⟨i, v⟩ := e
      dsimp only
      split
      · exact ids_map _ _ (fun c => by split <;> rfl)
      · rfl
  | writeC i v => exact ids_onClient _ _ _ (fun _ => rfl)
  | detectC i => exact ids_onClient _ _ _ (fun _ => rfl)
  | reactC i => exact ids_onClient _ _ _ (fun _ => rfl)
  | pollC i n => exact ids_onClient _ _ _ (fun _ => rfl)
  | flushC i => exact ids_onClient _ _ _ (fun c => by split <;> rfl)

theorem cinv_step (w : Nat) (s : State V) (a : Act V) (hi : CInv w s) (ha : ClientWrites w a) :
    CInv w (step ra false replace s a) := by
  obtain ⟨hn, hq, hf, he, hc⟩ := hi
  refine ⟨by rw [ids_step]; exact hn, ?_⟩
  cases a with
  | writeH v => exact absurd ha (by simp [ClientWrites])
  | detectH =>
    obtain ⟨f1, f2⟩ := detect_flags s.host hf
    refine ⟨by simp only [step, f2]; exact hq, f1, he, fun c hcm => ?_⟩
    obtain ⟨hw, hr⟩ := hc c hcm
    exact ⟨fun h => by simpa [step, detect_val, WOk] using hw h, fun h => by simpa [step, detect_val, ROk] using hr h⟩
  | reactH =>
    have e : s.clients.map (fun c => { c with down := c.down ++ s.host.queue }) = s.clients := by
      rw [hq]; conv => rhs; rw [← List.map_id s.clients]
      apply List.map_congr_left; intro c _; simp
    simp only [step, e]
    exact ⟨trivial, hf, he, hc⟩
  | pollH i n =>
    simp only [step]
    cases hfc : findClient i s.clients with
    | none => exact ⟨hq, hf, he, hc⟩
    | some c0 =>
      obtain ⟨hmem, hid⟩ := findClient_spec hfc
      dsimp only
      refine ⟨hq, hf, ?_, ?_⟩
      · intro e hem
        rcases List.mem_append.mp hem with hem | hem
        · exact he e hem
        · obtain ⟨v, hv, rfl⟩ := List.mem_map.mp hem
          by_cases hiw : i = w
          · exact hiw
          · have := ((hc c0 hmem).2 (by rw [hid]; exact hiw)).1
            rw [this] at hv; simp at hv
      · apply forall_onClient
        · intro c hcm hci
          obtain ⟨hw, hr⟩ := hc c hcm
          refine ⟨fun h => ?_, hr⟩
          have hiw : i ≠ w := fun e => hci (by rw [h, e])
          have hup : c0.up = [] := ((hc c0 hmem).2 (by rw [hid]; exact hiw)).1
          simpa [hup] using hw h
        · intro c hcm hci
          obtain ⟨hw, hr⟩ := hc c hcm
          have hcc : c = c0 := nodup_unique hn hcm hmem (by rw [hci, hid])
          subst hcc
          refine ⟨fun h => ?_, fun h => ?_⟩
          · obtain ⟨b1, b2, b3, b4, b5⟩ := hw h
            refine ⟨b1, b2, b3, b4, ?_⟩
            rcases b5 with b5 | b5
            · exact Or.inl b5
            · right
              simp only [List.map_append, List.map_map]
              have e1 : ∀ l : List V, List.map ((fun x : Nat × V => x.2) ∘ fun v => (i, v)) l = l := by
                intro l; induction l <;> simp_all
              rw [e1]
              have e2 : List.map (fun x => x.2) s.hdefer ++ List.take n c.up ++ List.drop n c.up ++ c.p.queue
                  = List.map (fun x => x.2) s.hdefer ++ c.up ++ c.p.queue := by
                rw [List.append_assoc (List.map (fun x => x.2) s.hdefer), List.take_append_drop]
              simp only [e2]; exact b5
          · obtain ⟨b1, b2, b3, b4⟩ := hr h
            exact ⟨by simp [b1], b2, b3, b4⟩
  | flushH =>
    simp only [step]
    cases hdl : s.hdefer with
    | nil => simp only []; exact ⟨hq, hf, by simp [hdl] at he ⊢, by simpa [hdl] using hc⟩
    | cons e rest =>
      obtain ⟨i, v⟩ := e
      have hiw : i = w := he (i, v) (by simp [hdl])
      have he' : ∀ e ∈ rest, e.1 = w := fun e hem => he e (by simp [hdl, hem])
      dsimp only
      cases hch : (apply false replace s.host v).2 with
      | false =>
        have hun := apply_unchanged s.host v hch
        have hval : s.host.val = some v := by
          by_cases hne : s.host.val = some v
          · exact hne
          · have := (apply_changed_iff s.host v).mpr hne
            rw [hch] at this; cases this
        cases ra with
        | false =>
          simp only [hun, Bool.or_self, Bool.false_eq_true, if_false]
          refine ⟨hq, hf, he', fun c hcm => ?_⟩
          obtain ⟨hw, hr⟩ := hc c hcm
          refine ⟨fun h => ?_, hr⟩
          obtain ⟨b1, b2, b3, b4, b5⟩ := hw h
          refine ⟨b1, b2, b3, b4, ?_⟩
          rcases b5 with b5 | b5
          · exact Or.inl b5
          · right
            simpa [hdl, hval] using b5
        | true =>
          simp only [hun, Bool.or_true, if_true]
          refine ⟨hq, hf, he', ?_⟩
          apply forall_map
          intro c hcm
          obtain ⟨hw, hr⟩ := hc c hcm
          by_cases hcw : c.id = w
          · have hci : c.id = i := by rw [hcw, hiw]
            simp only [hci, if_true]
            refine ⟨fun h => ?_, fun h => absurd (hci.trans hiw) (by simpa [hci] using h)⟩
            obtain ⟨b1, b2, b3, b4, b5⟩ := hw hcw
            refine ⟨b1, b2, b3, b4, ?_⟩
            rcases b5 with b5 | b5
            · exact Or.inl b5
            · right
              simpa [hdl, hval] using b5
          · have hci : c.id ≠ i := by rw [hiw]; exact hcw
            simp only [hci, if_false]
            refine ⟨fun h => absurd h hcw, fun _ => ?_⟩
            obtain ⟨b1, b2, b3, b4⟩ := hr hcw
            refine ⟨b1, b2, b3, ?_⟩
            simp only [← List.append_assoc, lastOr_snoc, hval]
      | true =>
        simp only [Bool.true_or, if_true]
        have hq' : (apply false replace s.host v).1.queue = [] := by rw [apply_queue]; exact hq
        refine ⟨hq', apply_flags s.host v hf, he', ?_⟩
        apply forall_map
        intro c hcm
        obtain ⟨hw, hr⟩ := hc c hcm
        by_cases hcw : c.id = w
        · have hci : c.id = i := by rw [hcw, hiw]
          simp only [hci, if_true]
          refine ⟨fun h => ?_, fun h => absurd (hci.trans hiw) (by simpa [hci] using h)⟩
          obtain ⟨b1, b2, b3, b4, b5⟩ := hw hcw
          refine ⟨b1, b2, b3, b4, ?_⟩
          rcases b5 with b5 | b5
          · exact Or.inl b5
          · right
            simp only [apply_val]
            simpa [hdl] using b5
        · have hci : c.id ≠ i := by rw [hiw]; exact hcw
          simp only [hci, if_false]
          refine ⟨fun h => absurd h hcw, fun _ => ?_⟩
          obtain ⟨b1, b2, b3, b4⟩ := hr hcw
          refine ⟨b1, b2, b3, ?_⟩
          simp only [apply_val, ← List.append_assoc, lastOr_snoc]
  | writeC i v =>
    have hiw : i = w := ha
    subst hiw
    simp only [step]
    refine ⟨hq, hf, he, ?_⟩
    apply forall_onClient
    · intro c hcm hci
      obtain ⟨hw, hr⟩ := hc c hcm
      exact ⟨fun h => absurd h hci, hr⟩
    · intro c hcm hci
      obtain ⟨hw, hr⟩ := hc c hcm
      refine ⟨fun _ => ?_, fun h => absurd hci h⟩
      obtain ⟨b1, b2, b3, _, _⟩ := hw hci
      exact ⟨b1, b2, b3, fun _ => by simp [write], Or.inl rfl⟩
  | detectC i =>
    simp only [step]
    refine ⟨hq, hf, he, ?_⟩
    apply forall_onClient _ _ _ (fun c hcm _ => hc c hcm)
    intro c hcm hci
    obtain ⟨hw, hr⟩ := hc c hcm
    refine ⟨fun h => ?_, fun h => ?_⟩
    · obtain ⟨b1, b2, b3, b4, b5⟩ := hw h
      cases hdirty : c.p.dirty with
      | false =>
        have e : detect c.p = c.p := by simp [detect, hdirty]
        simp only [e]
        exact ⟨b1, b2, b3, b4, b5⟩
      | true =>
        obtain ⟨v, hval⟩ : ∃ v, c.p.val = some v := by
          cases hv : c.p.val with
          | none => exact absurd hv (b4 hdirty)
          | some v => exact ⟨v, rfl⟩
        have e : detect c.p = { c.p with dirty := false, queue := c.p.queue ++ [v] } := by
          simp [detect, hdirty, b1, hval]
        simp only [e]
        refine ⟨b1, b2, b3, fun h => by simp at h, Or.inr ?_⟩
        simp only [← List.append_assoc, lastOr_snoc, hval]
    · obtain ⟨b1, b2, b3, b4⟩ := hr h
      obtain ⟨f1, f2⟩ := detect_flags c.p b3
      exact ⟨b1, by simp only [f2]; exact b2, f1, by simpa [detect_val] using b4⟩
  | reactC i =>
    simp only [step]
    refine ⟨hq, hf, he, ?_⟩
    apply forall_onClient _ _ _ (fun c hcm _ => hc c hcm)
    intro c hcm hci
    obtain ⟨hw, hr⟩ := hc c hcm
    refine ⟨fun h => ?_, fun h => ?_⟩
    · obtain ⟨b1, b2, b3, b4, b5⟩ := hw h
      refine ⟨b1, b2, b3, b4, ?_⟩
      rcases b5 with b5 | b5
      · exact Or.inl b5
      · right; simpa [List.append_assoc] using b5
    · obtain ⟨b1, b2, b3, b4⟩ := hr h
      exact ⟨by simp [b1, b2], rfl, b3, b4⟩
  | pollC i n =>
    simp only [step]
    refine ⟨hq, hf, he, ?_⟩
    apply forall_onClient _ _ _ (fun c hcm _ => hc c hcm)
    intro c hcm hci
    obtain ⟨hw, hr⟩ := hc c hcm
    refine ⟨fun h => ?_, fun h => ?_⟩
    · obtain ⟨b1, b2, b3, b4, b5⟩ := hw h
      exact ⟨b1, by simp [b2, b3], by simp [b3], b4, b5⟩
    · obtain ⟨b1, b2, b3, b4⟩ := hr h
      refine ⟨b1, b2, b3, ?_⟩
      have : c.defer ++ List.take n c.down ++ List.drop n c.down = c.defer ++ c.down := by
        rw [List.append_assoc, List.take_append_drop]
      simp only [this]; exact b4
  | flushC i =>
    simp only [step]
    refine ⟨hq, hf, he, ?_⟩
    apply forall_onClient _ _ _ (fun c hcm _ => hc c hcm)
    intro c hcm hci
    obtain ⟨hw, hr⟩ := hc c hcm
    cases hdef : c.defer with
    | nil => simp only []; exact ⟨hw, hr⟩
    | cons v rest =>
      simp only []
      refine ⟨fun h => ?_, fun h => ?_⟩
      · have := (hw h).2.1; rw [hdef] at this; cases this
      · obtain ⟨b1, b2, b3, b4⟩ := hr h
        refine ⟨b1, by rw [apply_queue]; exact b2, apply_flags c.p v b3, ?_⟩
        simp only [apply_val]
        simpa [hdef] using b4

/-! ## runs, epochs, convergence -/

/-- the value of the most recent application write in a run (`x` if there was none) -/
def writeOf (x : Option V) : Act V → Option V
  | .writeH v => some v
  | .writeC _ v => some v
  | _ => x

def lastWritten (x : Option V) (as : List (Act V)) : Option V := as.foldl writeOf x

theorem clean_hinv (x : Option V) (s : State V) (h : Clean x s) : HInv s := by
  obtain ⟨h1, h2, h3, h4, h5, h6⟩ := h
  refine ⟨h3, h5, fun hd => (by rw [h2] at hd; cases hd), fun c hc => ?_⟩
  obtain ⟨c1, c2, c3, c4, c5, c6, c7⟩ := h6 c hc
  exact ⟨c6, c4, by rw [c2, c3], Or.inr (by simp [c5, c7, h4, c1, h1])⟩

theorem clean_cinv (w : Nat) (x : Option V) (s : State V) (hn : (s.clients.map (·.id)).Nodup) (h : Clean x s) :
    CInv w s := by
  obtain ⟨h1, h2, h3, h4, h5, h6⟩ := h
  refine ⟨hn, h4, by rw [h2, h3], by simp [h5], fun c hc => ?_⟩
  obtain ⟨c1, c2, c3, c4, c5, c6, c7⟩ := h6 c hc
  exact ⟨fun _ => ⟨c3, c5, c7, fun hd => (by rw [c2] at hd; cases hd), Or.inr (by simp [h5, c6, c4, h1, c1])⟩,
         fun _ => ⟨c6, c4, by rw [c2, c3], by simp [c5, c7, c1, h1]⟩⟩

/-- host-writer epoch, with the host's value tracked -/
theorem hinv_run (s : State V) (as : List (Act V)) (hi : HInv s) (ha : ∀ a ∈ as, HostWrites a) :
    HInv (run ra false replace s as) ∧ (run ra false replace s as).host.val = lastWritten s.host.val as := by
  induction as generalizing s with
  | nil => exact ⟨hi, rfl⟩
  | cons a as ih =>
    have ha1 := ha a (by simp)
    have hstep := hinv_step (ra := ra) s a hi ha1
    have hval : (step ra false replace s a).host.val = writeOf s.host.val a := by
      cases a with
      | writeH v => rfl
      | detectH => simp [step, detect_val, writeOf]
      | reactH => rfl
      | pollH i n => simp only [step]; cases findClient i s.clients <;> rfl
      | flushH => simp only [step, hi.2.1, writeOf]
      | writeC i v => exact absurd ha1 (by simp [HostWrites])
      | detectC i => rfl
      | reactC i => rfl
      | pollC i n => rfl
      | flushC i => rfl
    have := ih (step ra false replace s a) hstep (fun b hb => ha b (by simp [hb]))
    simp only [run, List.foldl_cons, lastWritten] at this ⊢
    rw [hval] at this
    exact this

/-- **convergence, host-writer epoch**: from a clean state, after any interleaving of actions in which
only the host writes, once nothing is pending every client holds the host's value, which is the most
recent write, and the state is clean again (ready for an epoch with any other writer) -/
theorem host_epoch_converges (x : Option V) (s : State V) (as : List (Act V)) (hc : Clean x s)
    (ha : ∀ a ∈ as, HostWrites a) (hq : Quiescent (run ra false replace s as)) :
    Clean (lastWritten x as) (run ra false replace s as) := by
  obtain ⟨⟨ht, hd, _, hcl⟩, hval⟩ := hinv_run s as (clean_hinv x s hc) ha
  rw [hc.1] at hval
  obtain ⟨q1, q2, q3, q4⟩ := hq
  refine ⟨hval, q1, ht, q2, q3, fun c hcm => ?_⟩
  obtain ⟨a1, a2, a3, a4⟩ := hcl c hcm
  obtain ⟨b1, b2, b3, b4, b5⟩ := q4 c hcm
  refine ⟨?_, b1, by rw [a3, b1], b2, b3, b4, b5⟩
  rcases a4 with a4 | a4
  · rw [q1] at a4; cases a4
  · rw [← hval]; simpa [b3, b5, q2] using a4

/-- client-writer epoch with the writer's value tracked -/
def CInvL (w : Nat) (y : Option V) (s : State V) : Prop :=
  CInv w s ∧ ∀ c ∈ s.clients, c.id = w → c.p.val = y

theorem cinvl_run (w : Nat) (s : State V) (as : List (Act V)) (y : Option V) (hi : CInvL w y s)
    (ha : ∀ a ∈ as, ClientWrites w a) :
    CInvL w (lastWritten y as) (run ra false replace s as) := by
  induction as generalizing s y with
  | nil => exact hi
  | cons a as ih =>
    have ha1 := ha a (by simp)
    have hstep := cinv_step (ra := ra) w s a hi.1 ha1
    have hval : ∀ c ∈ (step ra false replace s a).clients, c.id = w → c.p.val = writeOf y a := by
      cases a with
      | writeH v => exact absurd ha1 (by simp [ClientWrites])
      | detectH => exact hi.2
      | reactH =>
        simp only [step]; apply forall_map; intro c hcm; exact hi.2 c hcm
      | pollH i n =>
        simp only [step]
        cases findClient i s.clients with
        | none => exact hi.2
        | some c0 =>
          dsimp only
          apply forall_onClient _ _ _ (fun c hcm _ => hi.2 c hcm)
          intro c hcm _; exact hi.2 c hcm
      | flushH =>
        simp only [step]
        cases s.hdefer with
        | nil => exact hi.2
        | cons e rest =>
          obtain ⟨i, v⟩ := e
          dsimp only
          split
          · dsimp only; apply forall_map; intro c hcm; split <;> exact hi.2 c hcm
          · exact hi.2
      | writeC i v =>
        simp only [step]
        have hiw : i = w := ha1
        apply forall_onClient
        · intro c hcm hci hcw; exact absurd (hcw.trans hiw.symm) hci
        · intro c hcm hci _; rfl
      | detectC i =>
        simp only [step]
        apply forall_onClient _ _ _ (fun c hcm _ => hi.2 c hcm)
        intro c hcm _ hcw; simp only [detect_val]; exact hi.2 c hcm hcw
      | reactC i =>
        simp only [step]
        apply forall_onClient _ _ _ (fun c hcm _ => hi.2 c hcm)
        intro c hcm _ hcw; exact hi.2 c hcm hcw
      | pollC i n =>
        simp only [step]
        apply forall_onClient _ _ _ (fun c hcm _ => hi.2 c hcm)
        intro c hcm _ hcw; exact hi.2 c hcm hcw
      | flushC i =>
        simp only [step]
        apply forall_onClient _ _ _ (fun c hcm _ => hi.2 c hcm)
        intro c hcm _ hcw
        cases hdf : c.defer with
        | nil => simp only [hdf] at hcw ⊢; exact hi.2 c hcm hcw
        | cons v rest =>
          simp only [hdf] at hcw
          have hd := ((hi.1.2.2.2.2 c hcm).1 hcw).2.1
          rw [hdf] at hd; cases hd
    have := ih (step ra false replace s a) _ ⟨hstep, hval⟩ (fun b hb => ha b (by simp [hb]))
    simp only [run, List.foldl_cons, lastWritten] at this ⊢
    exact this

/-- **convergence, client-writer epoch** (the value travels client → host → every other client) -/
theorem client_epoch_converges (w : Nat) (x : Option V) (s : State V) (as : List (Act V))
    (hn : (s.clients.map (·.id)).Nodup) (hw : ∃ c ∈ s.clients, c.id = w) (hc : Clean x s)
    (ha : ∀ a ∈ as, ClientWrites w a) (hq : Quiescent (run ra false replace s as)) :
    Clean (lastWritten x as) (run ra false replace s as) := by
  have hl : CInvL w x s := ⟨clean_cinv w x s hn hc, fun c hcm _ => (hc.2.2.2.2.2 c hcm).1⟩
  obtain ⟨⟨_, iq, it, ie, icl⟩, ival⟩ := cinvl_run w s as x hl ha
  obtain ⟨q1, q2, q3, q4⟩ := hq
  -- the writer still exists
  have hex : ∃ c ∈ (run ra false replace s as).clients, c.id = w := by
    have hids : ∀ (s : State V) (as : List (Act V)),
        (run ra false replace s as).clients.map (·.id) = s.clients.map (·.id) := by
      intro s as
      induction as generalizing s with
      | nil => rfl
      | cons a as ih => simp only [run, List.foldl_cons] at ih ⊢; rw [ih, ids_step]
    obtain ⟨c, hcm, hcw⟩ := hw
    have : w ∈ (run ra false replace s as).clients.map (·.id) := by
      rw [hids]; exact List.mem_map.mpr ⟨c, hcm, hcw⟩
    obtain ⟨c', hc', hcw'⟩ := List.mem_map.mp this
    exact ⟨c', hc', hcw'⟩
  obtain ⟨cw, hcwm, hcww⟩ := hex
  -- host = writer
  have hhost : (run ra false replace s as).host.val = lastWritten x as := by
    obtain ⟨b1, b2, b3, b4, b5⟩ := (icl cw hcwm).1 hcww
    obtain ⟨d1, d2, d3, d4, d5⟩ := q4 cw hcwm
    rcases b5 with b5 | b5
    · rw [d1] at b5; cases b5
    · rw [← ival cw hcwm hcww]; simpa [q3, d4, d2] using b5
  refine ⟨hhost, q1, by rw [it, q1], q2, q3, fun c hcm => ?_⟩
  obtain ⟨d1, d2, d3, d4, d5⟩ := q4 c hcm
  by_cases hcw : c.id = w
  · obtain ⟨b1, b2, b3, b4, b5⟩ := (icl c hcm).1 hcw
    exact ⟨ival c hcm hcw, d1, b1, d2, d3, d4, d5⟩
  · obtain ⟨b1, b2, b3, b4⟩ := (icl c hcm).2 hcw
    refine ⟨?_, d1, by rw [b3, d1], d2, d3, d4, d5⟩
    rw [← hhost]; simpa [d3, d5] using b4

theorem ids_run (lg : Bool) (pt : V → V → V) (s : State V) (as : List (Act V)) :
    (run ra lg pt s as).clients.map (·.id) = s.clients.map (·.id) := by
  induction as generalizing s with
  | nil => rfl
  | cons a as ih => simp only [run, List.foldl_cons] at ih ⊢; rw [ih, ids_step]

/-! ## epochs: different peers write at different times, separated by a drain -/

structure Epoch (V : Type) where
  writer : Option Nat          -- `none`: the host writes; `some w`: client `w` writes
  acts : List (Act V)

def Epoch.disciplined (e : Epoch V) : Prop :=
  match e.writer with
  | none => ∀ a ∈ e.acts, HostWrites a
  | some w => ∀ a ∈ e.acts, ClientWrites w a

def Epoch.writerPresent (e : Epoch V) (s : State V) : Prop :=
  match e.writer with
  | none => True
  | some w => ∃ c ∈ s.clients, c.id = w

/-- every epoch keeps the single-writer discipline and ends drained -/
def EpochsOk (ra : Bool) (s : State V) : List (Epoch V) → Prop
  | [] => True
  | e :: es =>
    e.disciplined ∧ e.writerPresent s ∧ Quiescent (run ra false replace s e.acts) ∧
      EpochsOk ra (run ra false replace s e.acts) es

def runEpochs (ra : Bool) (s : State V) (es : List (Epoch V)) : State V :=
  es.foldl (fun s e => run ra false replace s e.acts) s

def lastWrittenEpochs (x : Option V) (es : List (Epoch V)) : Option V :=
  es.foldl (fun x e => lastWritten x e.acts) x

theorem epochs_converge (x : Option V) (s : State V) (es : List (Epoch V))
    (hn : (s.clients.map (·.id)).Nodup) (hc : Clean x s) (hok : EpochsOk ra s es) :
    Clean (lastWrittenEpochs x es) (runEpochs ra s es) := by
  induction es generalizing s x with
  | nil => exact hc
  | cons e es ih =>
    obtain ⟨hd, hp, hq, hrest⟩ := hok
    have hclean : Clean (lastWritten x e.acts) (run ra false replace s e.acts) := by
      cases hw : e.writer with
      | none =>
        simp only [Epoch.disciplined, hw] at hd
        exact host_epoch_converges x s e.acts hc hd hq
      | some w =>
        simp only [Epoch.disciplined, Epoch.writerPresent, hw] at hd hp
        exact client_epoch_converges w x s e.acts hn hp hc hd hq
    have hn' : ((run ra false replace s e.acts).clients.map (·.id)).Nodup := by rw [ids_run]; exact hn
    exact ih _ _ hn' hclean hrest

end Comp
end BevySync
