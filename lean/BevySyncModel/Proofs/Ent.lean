import BevySyncModel.Slice.Ent
/-! Invariants of the entity slice. -/
namespace BevySync
namespace Ent

theorem mem_onClient {i : Nat} {f : Client → Client} {cs : List Client} {c' : Client}
    (h : c' ∈ onClient i f cs) : ∃ c ∈ cs, c' = if c.id = i then f c else c := by
  unfold onClient at h
  obtain ⟨c, hc, rfl⟩ := List.mem_map.mp h
  exact ⟨c, hc, rfl⟩

theorem forall_onClient {P : Client → Prop} (i : Nat) (f : Client → Client) (cs : List Client)
    (h : ∀ c ∈ cs, c.id ≠ i → P c) (hf : ∀ c ∈ cs, c.id = i → P (f c)) : ∀ c' ∈ onClient i f cs, P c' := by
  intro c' hc'
  obtain ⟨c, hc, rfl⟩ := mem_onClient hc'
  by_cases hi : c.id = i
  · rw [if_pos hi]; exact hf c hc hi
  · rw [if_neg hi]; exact h c hc hi

theorem forall_map {P : Client → Prop} (g : Client → Client) (cs : List Client)
    (h : ∀ c ∈ cs, P (g c)) : ∀ c' ∈ cs.map g, P c' := by
  intro c' hc'
  obtain ⟨c, hc, rfl⟩ := List.mem_map.mp hc'
  exact h c hc

theorem findClient_spec {i : Nat} {cs : List Client} {c0 : Client} (h : findClient i cs = some c0) :
    c0 ∈ cs ∧ c0.id = i := by
  unfold findClient at h
  exact ⟨List.mem_of_find?_eq_some h, by simpa using List.find?_some h⟩

/-! ## single-step facts about the handlers -/

/-- the client's duplicate-spawn guard: a spawn for a uuid it already holds live changes nothing -/
theorem clientRecv_spawn_dup (p : Peer) (h1 : p.tracked = true) (h2 : p.count > 0) : clientRecv p .spawn = p := by
  simp [clientRecv, h1, h2]

/-- repeated deletes are idempotent on both kinds of peer -/
theorem clientRecv_delete_idem (p : Peer) : clientRecv (clientRecv p .delete) .delete = clientRecv p .delete := by
  unfold clientRecv
  by_cases h : (p.tracked && decide (p.count > 0)) = true <;> simp [h]

theorem hostRecv_delete_idem (p : Peer) : (hostRecv (hostRecv p .delete).1 .delete).1 = (hostRecv p .delete).1 := by
  unfold hostRecv
  by_cases h : (p.tracked && decide (p.count > 0)) = true <;> simp [h]

/-- a delete for a uuid the peer does not hold (never known, or already gone) is ignored -/
theorem clientRecv_delete_unknown (p : Peer) (h : p.tracked = false ∨ p.count = 0) : clientRecv p .delete = p := by
  unfold clientRecv
  rcases h with h | h <;> simp [h]

/-! ## the spawn epoch, origin = host: everybody ends up with exactly one live entity -/

def allSpawn (l : List M) : Prop := ∀ m ∈ l, m = M.spawn

theorem fold_spawns (p : Peer) (l : List M) (hs : allSpawn l) (h0 : p.count = 0) (ht : p.tracked = false)
    (hl : l.length ≤ 1) :
    (l.foldl clientRecv p).count = l.length ∧ (l.foldl clientRecv p).tracked = decide (l.length = 1) ∧
    (l.foldl clientRecv p).marked = p.marked := by
  match l, hl with
  | [], _ => simp [h0, ht]
  | [m], _ =>
    have : m = M.spawn := hs m (by simp)
    subst this
    simp [clientRecv, h0, ht]

/-- what a client satisfies while the host is the origin and nobody despawns: it never sends; while it
is connected, what it holds plus what is still travelling to it is what the host holds -/
def HClientOk (h : Peer) (c : Client) : Prop :=
  c.up = [] ∧ c.p.marked = false ∧
  (c.connected = true → allSpawn c.down ∧ c.down.length + c.p.count = h.count ∧ c.p.tracked = decide (c.p.count = 1))

def HSp (s : State) : Prop :=
  s.host.count + (if s.host.marked then 1 else 0) = 1 ∧ s.host.tracked = decide (s.host.count = 1) ∧
  ∀ c ∈ s.clients, HClientOk s.host c

/-- the actions of the spawn epoch: no application despawn, no second mark -/
def SpawnOnly : Act → Prop
  | .markH | .markC _ | .despawnH | .despawnC _ => False
  | _ => True

theorem noticed_false (p : Peer) (h : p.tracked = decide (p.count = 1)) : noticed p = false := by
  simp only [noticed, h]
  by_cases h1 : p.count = 1 <;> simp [h1]

theorem pollC_ok (p : Peer) (down : List M) (n : Nat) (hs : allSpawn down) (hlen : down.length + p.count ≤ 1)
    (ht : p.tracked = decide (p.count = 1)) :
    allSpawn (down.drop n) ∧ (down.drop n).length + ((down.take n).foldl clientRecv p).count = down.length + p.count ∧
    ((down.take n).foldl clientRecv p).tracked = decide (((down.take n).foldl clientRecv p).count = 1) ∧
    ((down.take n).foldl clientRecv p).marked = p.marked := by
  match down, hlen with
  | [], _ => simp [allSpawn, ht]
  | [m], hl =>
    have hm : m = M.spawn := hs m (by simp)
    subst hm
    have h0 : p.count = 0 := by simp at hl; omega
    have ht0 : p.tracked = false := by simp [ht, h0]
    cases n with
    | zero => simp [allSpawn, ht, h0]
    | succ n => simp [allSpawn, clientRecv, h0, ht0]
  | _ :: _ :: _, hl => simp at hl; omega

theorem hsp_step (s : State) (a : Act) (hi : HSp s) (ha : SpawnOnly a) : HSp (step s a) := by
  obtain ⟨hc, ht, hcl⟩ := hi
  cases a with
  | markH => exact absurd ha (by simp [SpawnOnly])
  | markC i => exact absurd ha (by simp [SpawnOnly])
  | despawnH => exact absurd ha (by simp [SpawnOnly])
  | despawnC i => exact absurd ha (by simp [SpawnOnly])
  | createdH =>
    simp only [step]
    cases hm : s.host.marked with
    | false => simp only [Bool.false_eq_true, if_false]; exact ⟨hc, ht, hcl⟩
    | true =>
      simp only [hm, if_true] at hc ⊢
      have h0 : s.host.count = 0 := by omega
      have hcr : (created s.host).count = 1 ∧ (created s.host).marked = false ∧ (created s.host).tracked = true := by
        simp [created, hm, h0]
      refine ⟨by simp [hcr.1, hcr.2.1], by simp [hcr.1, hcr.2.2], ?_⟩
      simp only [broadcast]
      apply forall_map
      intro c hcm
      obtain ⟨a1, a2, a3⟩ := hcl c hcm
      by_cases hcon : c.connected = true
      · simp only [hcon, if_true]
        obtain ⟨b1, b2, b3⟩ := a3 hcon
        refine ⟨a1, a2, fun _ => ⟨?_, ?_, b3⟩⟩
        · intro m hmm
          rcases List.mem_append.mp hmm with hmm | hmm
          · exact b1 m hmm
          · simpa using hmm
        · rw [h0] at b2
          simp only [List.length_append, List.length_cons, List.length_nil, hcr.1]
          omega
      · simp only [hcon, Bool.false_eq_true, if_false]
        exact ⟨a1, a2, fun h => absurd h hcon⟩
  | removedH =>
    simp only [step, noticed_false s.host ht, Bool.false_eq_true, if_false]; exact ⟨hc, ht, hcl⟩
  | pollH i n =>
    simp only [step]
    cases hf : findClient i s.clients with
    | none => exact ⟨hc, ht, hcl⟩
    | some c0 =>
      obtain ⟨hmem, hid⟩ := findClient_spec hf
      have hup : c0.up = [] := (hcl c0 hmem).1
      simp only [hup, List.take_nil, List.foldl_nil]
      refine ⟨hc, ht, ?_⟩
      apply forall_onClient _ _ _ (fun c hcm _ => hcl c hcm)
      intro c hcm _
      obtain ⟨a1, a2, a3⟩ := hcl c hcm
      exact ⟨by simp [a1], a2, a3⟩
  | createdC i =>
    simp only [step]
    refine ⟨hc, ht, ?_⟩
    apply forall_onClient _ _ _ (fun c hcm _ => hcl c hcm)
    intro c hcm _
    obtain ⟨a1, a2, a3⟩ := hcl c hcm
    simp only [a2, Bool.and_false, Bool.false_eq_true, if_false]
    exact ⟨a1, a2, a3⟩
  | removedC i =>
    simp only [step]
    refine ⟨hc, ht, ?_⟩
    apply forall_onClient _ _ _ (fun c hcm _ => hcl c hcm)
    intro c hcm _
    obtain ⟨a1, a2, a3⟩ := hcl c hcm
    by_cases hcon : c.connected = true
    · obtain ⟨b1, b2, b3⟩ := a3 hcon
      simp only [noticed_false c.p b3, Bool.and_false, Bool.false_eq_true, if_false]
      exact ⟨a1, a2, a3⟩
    · simp only [hcon, Bool.false_and, Bool.false_eq_true, if_false]
      exact ⟨a1, a2, a3⟩
  | pollC i n =>
    simp only [step]
    refine ⟨hc, ht, ?_⟩
    apply forall_onClient _ _ _ (fun c hcm _ => hcl c hcm)
    intro c hcm _
    obtain ⟨a1, a2, a3⟩ := hcl c hcm
    by_cases hcon : c.connected = true
    · obtain ⟨b1, b2, b3⟩ := a3 hcon
      have hle : c.down.length + c.p.count ≤ 1 := by
        rw [b2]; omega
      obtain ⟨r1, r2, r3, r4⟩ := pollC_ok c.p c.down n b1 hle b3
      simp only [hcon, if_true]
      exact ⟨a1, by rw [r4]; exact a2, fun _ => ⟨r1, by rw [r2]; exact b2, r3⟩⟩
    · simp only [hcon, Bool.false_eq_true, if_false]
      exact ⟨a1, a2, a3⟩
  | leave i =>
    simp only [step]
    refine ⟨hc, ht, ?_⟩
    apply forall_onClient _ _ _ (fun c hcm _ => hcl c hcm)
    intro c hcm _
    obtain ⟨a1, a2, a3⟩ := hcl c hcm
    exact ⟨a1, a2, fun h => by simp at h⟩

end Ent
end BevySync

namespace BevySync
namespace Ent

theorem hsp_run (s : State) (as : List Act) (hi : HSp s) (ha : ∀ a ∈ as, SpawnOnly a) : HSp (run s as) := by
  induction as generalizing s with
  | nil => exact hi
  | cons a as ih =>
    have := ih (step s a) (hsp_step s a hi (ha a (by simp))) (fun b hb => ha b (by simp [hb]))
    simpa [run] using this

/-- the state in which the host has just been given a marked entity and nothing else has happened -/
def HostMarked (s : State) : Prop :=
  s.host = { marked := true } ∧ ∀ c ∈ s.clients, c.p = {} ∧ c.up = [] ∧ c.down = []

theorem hostMarked_hsp (s : State) (h : HostMarked s) : HSp s := by
  obtain ⟨hh, hc⟩ := h
  refine ⟨by simp [hh], by simp [hh], fun c hcm => ?_⟩
  obtain ⟨c1, c2, c3⟩ := hc c hcm
  exact ⟨c2, by simp [c1], fun _ => ⟨by simp [c3, allSpawn], by simp [c3, c1, hh], by simp [c1]⟩⟩

/-- **convergence, entity marked on the host, nobody despawns**: for any number of clients, any
interleaving, any clients leaving on the way — never more than one live replica per peer, and once
traffic has drained the host and every connected client hold exactly one -/
theorem host_origin_converges (s : State) (as : List Act) (h0 : HostMarked s) (ha : ∀ a ∈ as, SpawnOnly a) :
    (run s as).host.count ≤ 1 ∧ (∀ c ∈ (run s as).clients, c.connected = true → c.p.count ≤ 1) ∧
    (Quiescent (run s as) → (run s as).host.count = 1 ∧ ∀ c ∈ (run s as).clients, c.connected = true → c.p.count = 1) := by
  obtain ⟨hc, ht, hcl⟩ := hsp_run s as (hostMarked_hsp s h0) ha
  refine ⟨by omega, fun c hcm hcon => ?_, fun hq => ?_⟩
  · have := ((hcl c hcm).2.2 hcon).2.1; omega
  · obtain ⟨q1, q2, q3⟩ := hq
    have hcount : (run s as).host.count = 1 := by rw [q1] at hc; simpa using hc
    refine ⟨hcount, fun c hcm hcon => ?_⟩
    have := ((hcl c hcm).2.2 hcon).2.1
    have hd := (q3 c hcm hcon).2.2.2
    rw [hd, hcount] at this
    simpa using this

end Ent
end BevySync

namespace BevySync
namespace Ent

/-! ## the spawn epoch, origin = client `w`: spawn goes up, the host spawns and relays to the others -/

theorem nodup_unique {cs : List Client} (hn : (cs.map (·.id)).Nodup) {a b : Client}
    (ha : a ∈ cs) (hb : b ∈ cs) (hid : a.id = b.id) : a = b := by
  induction cs with
  | nil => cases ha
  | cons c cs ih =>
    simp only [List.map_cons, List.nodup_cons, List.mem_map, not_exists, not_and] at hn
    obtain ⟨hnot, hn'⟩ := hn
    simp only [List.mem_cons] at ha hb
    rcases ha with rfl | ha <;> rcases hb with rfl | hb
    · rfl
    · exact absurd hid.symm (hnot b hb)
    · exact absurd hid (hnot a ha)
    · exact ih hn' ha hb

theorem ids_map (g : Client → Client) (cs : List Client) (hg : ∀ c, (g c).id = c.id) :
    (cs.map g).map (·.id) = cs.map (·.id) := by
  rw [List.map_map]
  apply List.map_congr_left
  intro c _
  exact hg c

theorem ids_onClient (i : Nat) (f : Client → Client) (cs : List Client) (hf : ∀ c, (f c).id = c.id) :
    (onClient i f cs).map (·.id) = cs.map (·.id) := by
  unfold onClient
  exact ids_map _ _ (fun c => by split; exact hf c; rfl)

/-- the writer: it holds the entity (or is about to create it); what the host holds plus the spawn still
on its way up is what the writer holds -/
def WOk (h : Peer) (c : Client) : Prop :=
  c.connected = true ∧ c.down = [] ∧ c.p.count + (if c.p.marked then 1 else 0) = 1 ∧
  c.p.tracked = decide (c.p.count = 1) ∧ allSpawn c.up ∧ c.up.length + h.count = c.p.count

def ROk (h : Peer) (c : Client) : Prop :=
  c.up = [] ∧ c.p.marked = false ∧
  (c.connected = true → allSpawn c.down ∧ c.down.length + c.p.count = h.count ∧ c.p.tracked = decide (c.p.count = 1))

def CSp (w : Nat) (s : State) : Prop :=
  (s.clients.map (·.id)).Nodup ∧ s.host.marked = false ∧ s.host.count ≤ 1 ∧ s.host.tracked = decide (s.host.count = 1) ∧
  ∀ c ∈ s.clients, (c.id = w → WOk s.host c) ∧ (c.id ≠ w → ROk s.host c)

/-- spawn epoch with origin `w`: no despawn, no second mark, and the origin stays in the session -/
def SpawnOnlyW (w : Nat) : Act → Prop
  | .markH | .markC _ | .despawnH | .despawnC _ => False
  | .leave i => i ≠ w
  | _ => True

theorem ids_step (s : State) (a : Act) : (step s a).clients.map (·.id) = s.clients.map (·.id) := by
  cases a with
  | markH => rfl
  | createdH => simp only [step]; split; exact ids_map _ _ (fun c => by split <;> rfl); rfl
  | despawnH => rfl
  | removedH => simp only [step]; split; exact ids_map _ _ (fun c => by split <;> rfl); rfl
  | pollH i n =>
    simp only [step]
    cases findClient i s.clients with
    | none => rfl
    | some c0 =>
      dsimp only
      have key : ∀ (l : List M) (t : State),
          (l.foldl (fun s m =>
            let (h', r) := hostRecv s.host m
            { s with host := h', clients := relay i r s.clients,
                     sent := s.sent + (s.clients.filter (fun c => c.connected && c.id != i)).length }) t).clients.map (·.id)
            = t.clients.map (·.id) := by
        intro l
        induction l with
        | nil => intro t; rfl
        | cons m l ih =>
          intro t
          simp only [List.foldl_cons]
          rw [ih]
          exact ids_map _ _ (fun c => by split <;> rfl)
      rw [key]
      exact ids_onClient _ _ _ (fun _ => rfl)
  | markC i => exact ids_onClient _ _ _ (fun _ => rfl)
  | createdC i => exact ids_onClient _ _ _ (fun c => by split <;> rfl)
  | despawnC i => exact ids_onClient _ _ _ (fun _ => rfl)
  | removedC i => exact ids_onClient _ _ _ (fun c => by split <;> rfl)
  | pollC i n => exact ids_onClient _ _ _ (fun c => by split <;> rfl)
  | leave i => exact ids_onClient _ _ _ (fun _ => rfl)

end Ent
end BevySync

namespace BevySync
namespace Ent

theorem csp_step (w : Nat) (s : State) (a : Act) (hi : CSp w s) (ha : SpawnOnlyW w a) : CSp w (step s a) := by
  obtain ⟨hn, hm, hle, ht, hcl⟩ := hi
  refine ⟨by rw [ids_step]; exact hn, ?_⟩
  cases a with
  | markH => exact absurd ha (by simp [SpawnOnlyW])
  | markC i => exact absurd ha (by simp [SpawnOnlyW])
  | despawnH => exact absurd ha (by simp [SpawnOnlyW])
  | despawnC i => exact absurd ha (by simp [SpawnOnlyW])
  | createdH =>
    have e : step s .createdH = s := by simp [step, hm]
    rw [e]; exact ⟨hm, hle, ht, hcl⟩
  | removedH =>
    have e : step s .removedH = s := by simp [step, noticed_false s.host ht]
    rw [e]; exact ⟨hm, hle, ht, hcl⟩
  | pollH i n =>
    cases hf : findClient i s.clients with
    | none =>
      have e : step s (.pollH i n) = s := by simp [step, hf]
      rw [e]; exact ⟨hm, hle, ht, hcl⟩
    | some c0 =>
      obtain ⟨hmem, hid⟩ := findClient_spec hf
      simp only [step, hf]
      by_cases hiw : i = w
      · -- the writer's channel: empty, or exactly one spawn
        obtain ⟨w1, w2, w3, w4, w5, w6⟩ := (hcl c0 hmem).1 (by rw [hid, hiw])
        have hlen : c0.up.length ≤ 1 := by omega
        match hup : c0.up, hlen with
        | [], _ =>
          simp only [List.take_nil, List.foldl_nil]
          refine ⟨hm, hle, ht, ?_⟩
          apply forall_onClient _ _ _ (fun c hcm _ => hcl c hcm)
          intro c hcm hci
          have hcc : c = c0 := nodup_unique hn hcm hmem (by rw [hci, hid])
          subst hcc
          refine ⟨fun _ => ⟨w1, w2, w3, w4, by simp [hup, allSpawn], by simpa [hup] using w6⟩,
                  fun h => absurd (by rw [hid, hiw]) h⟩
        | [m], _ =>
          have hms : m = M.spawn := w5 m (by simp [hup])
          subst hms
          have hh0 : s.host.count = 0 := by rw [hup] at w6; simp at w6; omega
          have hc1 : c0.p.count = 1 := by rw [hup] at w6; simp at w6; omega
          have hht : s.host.tracked = false := by simp [ht, hh0]
          cases n with
          | zero =>
            simp only [List.take_zero, List.foldl_nil, List.drop_zero]
            refine ⟨hm, hle, ht, ?_⟩
            apply forall_onClient _ _ _ (fun c hcm _ => hcl c hcm)
            intro c hcm hci
            exact hcl c hcm
          | succ n =>
            simp only [List.take_succ_cons, List.take_nil, List.foldl_cons, List.foldl_nil, hostRecv,
              List.drop_succ_cons, List.drop_nil]
            refine ⟨hm, by simp [hh0], by simp [hh0], ?_⟩
            simp only [relay]
            apply forall_map
            intro c' hc'
            obtain ⟨c, hcm, rfl⟩ := mem_onClient hc'
            by_cases hci : c.id = i
            · have hcc : c = c0 := nodup_unique hn hcm hmem (by rw [hci, hid])
              subst hcc
              simp only [hci, if_true, bne_self_eq_false, Bool.and_false, Bool.false_eq_true, if_false]
              refine ⟨fun _ => ⟨w1, w2, w3, w4, by simp [hup, allSpawn], by simp [hup, hh0, hc1]⟩, fun h => absurd hiw (by simpa [hci] using h)⟩
            · have hcw : c.id ≠ w := by rw [← hiw]; exact hci
              obtain ⟨r1, r2, r3⟩ := (hcl c hcm).2 hcw
              simp only [hci, if_false]
              have hne : (c.id != i) = true := by simpa using hci
              by_cases hcon : c.connected = true
              · obtain ⟨b1, b2, b3⟩ := r3 hcon
                simp only [hcon, hne, Bool.and_self, if_true]
                refine ⟨fun h => absurd h hcw, fun _ => ⟨r1, r2, fun _ => ⟨?_, ?_, b3⟩⟩⟩
                · intro m hmm
                  rcases List.mem_append.mp hmm with hmm | hmm
                  · exact b1 m hmm
                  · simpa using hmm
                · simp only [List.length_append, List.length_cons, List.length_nil]
                  rw [hh0] at b2; simp [hh0]; omega
              · simp only [hcon, Bool.false_and, Bool.false_eq_true, if_false]
                exact ⟨fun h => absurd h hcw, fun _ => ⟨r1, r2, fun h => absurd h hcon⟩⟩
        | _ :: _ :: _, hl => simp at hl
      · -- a reader's channel is empty
        have hiw' : c0.id ≠ w := by rw [hid]; exact hiw
        have hup : c0.up = [] := ((hcl c0 hmem).2 hiw').1
        simp only [hup, List.take_nil, List.foldl_nil]
        refine ⟨hm, hle, ht, ?_⟩
        apply forall_onClient _ _ _ (fun c hcm _ => hcl c hcm)
        intro c hcm hci
        have hcw : c.id ≠ w := by rw [hci]; exact hiw
        obtain ⟨r1, r2, r3⟩ := (hcl c hcm).2 hcw
        exact ⟨fun h => absurd h hcw, fun _ => ⟨by simp [r1], r2, r3⟩⟩
  | createdC i =>
    simp only [step]
    refine ⟨hm, hle, ht, ?_⟩
    apply forall_onClient _ _ _ (fun c hcm _ => hcl c hcm)
    intro c hcm hci
    by_cases hcw : c.id = w
    · obtain ⟨w1, w2, w3, w4, w5, w6⟩ := (hcl c hcm).1 hcw
      cases hmk : c.p.marked with
      | false =>
        simp only [hmk, Bool.and_false, Bool.false_eq_true, if_false]
        exact ⟨fun _ => ⟨w1, w2, w3, w4, w5, w6⟩, fun h => absurd hcw h⟩
      | true =>
        simp only [hmk, if_true] at w3
        have h0 : c.p.count = 0 := by omega
        simp only [w1, hmk, Bool.and_self, if_true]
        refine ⟨fun _ => ⟨by simp [w1], by simp [w2], by simp [created, hmk, h0], by simp [created, hmk, h0], ?_, ?_⟩, fun h => absurd hcw h⟩
        · intro m hmm
          rcases List.mem_append.mp hmm with hmm | hmm
          · exact w5 m hmm
          · simpa using hmm
        · rw [h0] at w6
          simp [created, hmk, h0]; omega
    · obtain ⟨r1, r2, r3⟩ := (hcl c hcm).2 hcw
      simp only [r2, Bool.and_false, Bool.false_eq_true, if_false]
      exact ⟨fun h => absurd h hcw, fun _ => ⟨r1, r2, r3⟩⟩
  | removedC i =>
    simp only [step]
    refine ⟨hm, hle, ht, ?_⟩
    apply forall_onClient _ _ _ (fun c hcm _ => hcl c hcm)
    intro c hcm hci
    by_cases hcw : c.id = w
    · obtain ⟨w1, w2, w3, w4, w5, w6⟩ := (hcl c hcm).1 hcw
      simp only [noticed_false c.p w4, Bool.and_false, Bool.false_eq_true, if_false]
      exact ⟨fun _ => ⟨w1, w2, w3, w4, w5, w6⟩, fun h => absurd hcw h⟩
    · obtain ⟨r1, r2, r3⟩ := (hcl c hcm).2 hcw
      by_cases hcon : c.connected = true
      · simp only [noticed_false c.p (r3 hcon).2.2, Bool.and_false, Bool.false_eq_true, if_false]
        exact ⟨fun h => absurd h hcw, fun _ => ⟨r1, r2, r3⟩⟩
      · simp only [hcon, Bool.false_and, Bool.false_eq_true, if_false]
        exact ⟨fun h => absurd h hcw, fun _ => ⟨r1, r2, r3⟩⟩
  | pollC i n =>
    simp only [step]
    refine ⟨hm, hle, ht, ?_⟩
    apply forall_onClient _ _ _ (fun c hcm _ => hcl c hcm)
    intro c hcm hci
    by_cases hcw : c.id = w
    · obtain ⟨w1, w2, w3, w4, w5, w6⟩ := (hcl c hcm).1 hcw
      simp only [w1, if_true, w2, List.take_nil, List.foldl_nil, List.drop_nil]
      exact ⟨fun _ => ⟨by simp [w1], by simp, w3, w4, w5, w6⟩, fun h => absurd hcw h⟩
    · obtain ⟨r1, r2, r3⟩ := (hcl c hcm).2 hcw
      by_cases hcon : c.connected = true
      · obtain ⟨b1, b2, b3⟩ := r3 hcon
        obtain ⟨q1, q2, q3, q4⟩ := pollC_ok c.p c.down n b1 (by rw [b2]; exact hle) b3
        simp only [hcon, if_true]
        exact ⟨fun h => absurd h hcw, fun _ => ⟨r1, by rw [q4]; exact r2, fun _ => ⟨q1, by rw [q2]; exact b2, q3⟩⟩⟩
      · simp only [hcon, Bool.false_eq_true, if_false]
        exact ⟨fun h => absurd h hcw, fun _ => ⟨r1, r2, r3⟩⟩
  | leave i =>
    have hiw : i ≠ w := ha
    simp only [step]
    refine ⟨hm, hle, ht, ?_⟩
    apply forall_onClient _ _ _ (fun c hcm _ => hcl c hcm)
    intro c hcm hci
    have hcw : c.id ≠ w := by rw [hci]; exact hiw
    obtain ⟨r1, r2, r3⟩ := (hcl c hcm).2 hcw
    exact ⟨fun h => absurd h hcw, fun _ => ⟨r1, r2, fun h => by simp at h⟩⟩

end Ent
end BevySync

namespace BevySync
namespace Ent

theorem csp_run (w : Nat) (s : State) (as : List Act) (hi : CSp w s) (ha : ∀ a ∈ as, SpawnOnlyW w a) :
    CSp w (run s as) := by
  induction as generalizing s with
  | nil => exact hi
  | cons a as ih =>
    have := ih (step s a) (csp_step w s a hi (ha a (by simp))) (fun b hb => ha b (by simp [hb]))
    simpa [run] using this

/-- client `w` has just been given a marked entity; nothing else has happened -/
def ClientMarked (w : Nat) (s : State) : Prop :=
  (s.clients.map (·.id)).Nodup ∧ s.host = {} ∧
  ∀ c ∈ s.clients, c.up = [] ∧ c.down = [] ∧ (c.id = w → c.p = { marked := true } ∧ c.connected = true) ∧ (c.id ≠ w → c.p = {})

theorem clientMarked_csp (w : Nat) (s : State) (h : ClientMarked w s) : CSp w s := by
  obtain ⟨hn, hh, hc⟩ := h
  refine ⟨hn, by simp [hh], by simp [hh], by simp [hh], fun c hcm => ?_⟩
  obtain ⟨c1, c2, c3, c4⟩ := hc c hcm
  refine ⟨fun hw => ?_, fun hw => ?_⟩
  · obtain ⟨d1, d2⟩ := c3 hw
    exact ⟨d2, c2, by simp [d1], by simp [d1], by simp [c1, allSpawn], by simp [c1, hh, d1]⟩
  · have d1 := c4 hw
    exact ⟨c1, by simp [d1], fun _ => ⟨by simp [c2, allSpawn], by simp [c2, d1, hh], by simp [d1]⟩⟩

/-- **convergence, entity marked on a client, nobody despawns** (client → host → every other client):
never more than one live replica per peer, and once traffic has drained exactly one on the host and on
every connected client — any number of clients, any interleaving, other clients leaving on the way -/
theorem client_origin_converges (w : Nat) (s : State) (as : List Act) (h0 : ClientMarked w s)
    (ha : ∀ a ∈ as, SpawnOnlyW w a) :
    (run s as).host.count ≤ 1 ∧ (∀ c ∈ (run s as).clients, c.connected = true → c.p.count ≤ 1) ∧
    ((∃ c ∈ s.clients, c.id = w) → Quiescent (run s as) →
      (run s as).host.count = 1 ∧ ∀ c ∈ (run s as).clients, c.connected = true → c.p.count = 1) := by
  obtain ⟨hn, hm, hle, ht, hcl⟩ := csp_run w s as (clientMarked_csp w s h0) ha
  refine ⟨hle, fun c hcm hcon => ?_, fun hex hq => ?_⟩
  · by_cases hcw : c.id = w
    · obtain ⟨w1, w2, w3, w4, w5, w6⟩ := (hcl c hcm).1 hcw; omega
    · have := (((hcl c hcm).2 hcw).2.2 hcon).2.1; omega
  · obtain ⟨q1, q2, q3⟩ := hq
    -- the writer is still there
    have hids : ∀ (s : State) (as : List Act), (run s as).clients.map (·.id) = s.clients.map (·.id) := by
      intro s as
      induction as generalizing s with
      | nil => rfl
      | cons a as ih => simp only [run, List.foldl_cons] at ih ⊢; rw [ih, ids_step]
    obtain ⟨c0, hc0, hc0w⟩ := hex
    have : w ∈ (run s as).clients.map (·.id) := by rw [hids]; exact List.mem_map.mpr ⟨c0, hc0, hc0w⟩
    obtain ⟨cw, hcwm, hcww⟩ := List.mem_map.mp this
    obtain ⟨w1, w2, w3, w4, w5, w6⟩ := (hcl cw hcwm).1 hcww
    obtain ⟨e1, e2, e3, e4⟩ := q3 cw hcwm w1
    have hwc : cw.p.count = 1 := by rw [e1] at w3; simpa using w3
    have hhost : (run s as).host.count = 1 := by rw [e3, hwc] at w6; simpa using w6
    refine ⟨hhost, fun c hcm hcon => ?_⟩
    by_cases hcw : c.id = w
    · obtain ⟨v1, v2, v3, v4, v5, v6⟩ := (hcl c hcm).1 hcw
      have := (q3 c hcm hcon).1
      rw [this] at v3; simpa using v3
    · have := (((hcl c hcm).2 hcw).2.2 hcon).2.1
      have hd := (q3 c hcm hcon).2.2.2
      rw [hd, hhost] at this; simpa using this

end Ent
end BevySync
